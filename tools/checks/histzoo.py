"""Library networks, seed supports and call histories for C03 (history run vs freshly constructed network).

A *recipe* builds a small network around ONE caching library module (LinSolve with every solver it can select,
EigenSolve dense/sparse, SystemOfEquations, StaticCondensation, OverhangFilter, filters, assembly) from fixed data.
    build_lib(pym, fm, recipe, rs) -> dict(
        sigs     name -> Signal (all observed)
        inputs   name -> sampler(g) -> array           the base regime of the network inputs
        alt      name -> [(label, sampler(g)), ...]     regimes of a DIFFERENT numerical character within the same matrix
                                                        class (definite <-> indefinite, differently conditioned, sign-flipped
                                                        values on the same sparsity pattern, grey <-> black/white fields)
        seedable [names of outputs that may be seeded]
        net      the Network
        tol      relative tolerance of the comparison (1e-9; iterative solvers: their tolerance))

Two kinds of histories are run on every recipe, on every run:
  * stress histories (run_stress): a deliberately chosen plan.  Three designs (regime sequence e.g. definite ->
    indefinite -> definite); per response SEVERAL reset(); seed; sensitivity() passes whose seed SUPPORTS differ
    (one piece only / all pieces but that one / that piece again without a new response / everything / partial / one
    entry / explicit zeros / no seed), a piece = one seedable output or one column of a matrix-valued output (one
    eigenvector, one right-hand side).  EVERY pass is compared with a freshly constructed network evaluated once.
  * random histories (run_lib): random admissible op lists with the same seed supports and regimes; the final cycle
    (with or without a new response) is compared with a fresh network.
"""
import numpy as np


# ============================================================================ user modules around the library module
def make_float_modules(pym):
    import scipy.sparse as sps

    class MatAsm(pym.Module):
        """A(x) = A0 + sum_i x_i A_i (dense ndarray or scipy csc), the matrix class is fixed by the recipe"""
        def _prepare(self, A0, As, sparse, realify=False):
            self.A0, self.As, self.sparse, self.realify = A0, As, sparse, realify

        def _response(self, x):
            A = self.A0 + sum(xi * Ai for xi, Ai in zip(x, self.As))
            if self.realify and np.iscomplexobj(A) and not np.any(A.imag):
                A = np.ascontiguousarray(A.real)       # VALUE KIND of the matrix follows the design: real-typed matrix
            return sps.csc_matrix(A) if self.sparse else np.array(A)

        def _sensitivity(self, dA):
            if getattr(dA, 'size', 1) <= 0:         # an empty DyadCarrier: nothing arrived (as AssembleGeneral does)
                return [None]
            D = dA.todense() if hasattr(dA, 'todense') else np.asarray(dA)
            return np.array([float(np.real(np.sum(np.asarray(D) * Ai))) for Ai in self.As])

    class SqSum(pym.Module):
        def _response(self, u):
            return float(np.sum(np.abs(np.asarray(u)) ** 2))

        def _sensitivity(self, dg):
            return 2 * np.asarray(self.sig_in[0].state) * dg

    class Frob(pym.Module):
        """g = sum(Wt * M) for a (possibly np.matrix / sparse) matrix M"""
        def _prepare(self, Wt):
            self.Wt = Wt

        def _response(self, M):
            M = M.toarray() if hasattr(M, 'toarray') else np.asarray(M)
            return float(np.real(np.sum(self.Wt * M)))

        def _sensitivity(self, dg):
            return self.Wt * dg

    class Cube(pym.Module):
        def _response(self, x):
            return x ** 3

        def _sensitivity(self, dy):
            return 3 * self.sig_in[0].state ** 2 * dy
    return dict(MatAsm=MatAsm, SqSum=SqSum, Frob=Frob, Cube=Cube)


# ============================================================================ matrix families with regimes
def _sym(M):
    return (M + M.T) / 2


def _box(lo, hi):
    lo, hi = np.asarray(lo, float), np.asarray(hi, float)
    return lambda g: lo + (hi - lo) * g.random(lo.shape)


def mat_family(rng, n, nd, cls):
    """A0, A_i: A0 + sum x_i A_i stays in class `cls` and regular for x in [0.5, 2] (the base regime)"""
    G = [rng.standard_normal((n, n)) for _ in range(nd)]
    if cls == 'spd':
        A0 = 6.0 * np.eye(n)
        As = [0.3 * g @ g.T / n for g in G]
    elif cls == 'indef':
        d = np.array([(4.0 + i) * (1 if i % 2 == 0 else -1) for i in range(n)])
        A0 = np.diag(d)
        As = [0.15 * _sym(g) for g in G]
    else:
        A0 = 6.0 * np.eye(n) + 0.8 * np.triu(rng.standard_normal((n, n)), 1)
        As = [0.15 * g for g in G]
    return A0, As


def family(rs, n, cls):
    """(A0, As, base sampler, [(label, alt sampler)]) with nd = 3 design variables.

    chol / cholneg / herm / spchol: Hermitian with an all-positive (all-negative) diagonal in EVERY regime (so the
    Cholesky solver with its LDL fallback is selected whatever matrix comes first), positive (negative) definite in the
    base regime, INDEFINITE in regime 'indef', definite but differently conditioned in regime 'stiff'."""
    G = [rs.standard_normal((n, n)) for _ in range(3)]
    one = np.ones((n, n)) - np.eye(n)
    base = _box([0.0, 0.5, 0.5], [0.5, 2.0, 2.0])
    alts = [('indef', _box([6.0, 0.5, 0.5], [8.0, 2.0, 2.0])), ('stiff', _box([0.0, 20.0, 20.0], [0.5, 50.0, 50.0]))]
    if cls in ('chol', 'cholneg'):
        A0, As = 3.0 * np.eye(n), [one, 0.1 * G[1] @ G[1].T / n, 0.1 * G[2] @ G[2].T / n]
        if cls == 'cholneg':
            A0, As = -A0, [-a for a in As]
    elif cls == 'herm':
        ph = np.exp(1j * rs.uniform(0, 2 * np.pi, n))
        H = [g + 1j * rs.standard_normal((n, n)) for g in G]
        A0 = 3.0 * np.eye(n, dtype=complex)
        As = [(ph[:, None] * one) * ph.conj()[None, :], 0.1 * H[1] @ H[1].conj().T / n, 0.1 * H[2] @ H[2].conj().T / n]
    elif cls == 'spchol':
        # genuinely sparse: band |i-j| <= 2 plus the corner entries
        mask = (np.abs(np.subtract.outer(np.arange(n), np.arange(n))) <= 2).astype(float)
        mask[0, n - 1] = mask[n - 1, 0] = 1.0
        T = np.diag(np.ones(n - 1), 1) + np.diag(np.ones(n - 1), -1)
        A0, As = 6.0 * np.eye(n), [T, 0.2 * mask * _sym(G[1]), 0.2 * mask * _sym(G[2])]
        alts = [('indef', _box([6.0, 0.5, 0.5], [8.0, 2.0, 2.0])), ('flipped', _box([0.0, -2.0, -2.0], [0.5, -0.5, -0.5]))]
    elif cls == 'spd':          # base [0.5, 2]^3
        A0, As = 6.0 * np.eye(n), [0.3 * g @ g.T / n for g in G]
        base = _box([0.5] * 3, [2.0] * 3)
        alts = [('stiff', _box([20.0] * 3, [50.0] * 3)), ('indef', _box([-40.0] * 3, [-25.0] * 3))]
    elif cls == 'indef':        # symmetric, diagonal of mixed sign: LDL
        A0 = np.diag([(4.0 + i) * (1 if i % 2 == 0 else -1) for i in range(n)])
        As = [0.15 * _sym(g) for g in G]
        base = _box([0.5] * 3, [2.0] * 3)
        alts = [('flipped', _box([-2.0] * 3, [-0.5] * 3))]
    elif cls == 'general':      # LU
        A0 = 6.0 * np.eye(n) + 0.8 * np.triu(rs.standard_normal((n, n)), 1)
        As = [0.15 * g for g in G]
        base = _box([0.5] * 3, [2.0] * 3)
        alts = [('flipped', _box([-2.0] * 3, [-0.5] * 3)), ('negated', _box([-90.0, 0.5, 0.5], [-70.0, 2.0, 2.0]))]
        As[0] = 0.15 * np.eye(n) + 0.01 * G[0]     # x0 in [-90,-70] moves the spectrum to the other side of zero
    elif cls == 'csym':         # complex symmetric, not Hermitian: LDL(hermitian=False)
        A0 = (3.0 + 1.0j) * np.eye(n)
        As = [0.15 * (_sym(g) + 1j * _sym(rs.standard_normal((n, n)))) for g in G]
        base = _box([0.5] * 3, [2.0] * 3)
        alts = [('flipped', _box([-2.0] * 3, [-0.5] * 3))]
    elif cls == 'cgen':         # complex general: LU
        A0 = (6.0 + 1.0j) * np.eye(n) + 0.8 * np.triu(rs.standard_normal((n, n)), 1)
        As = [0.15 * (g + 1j * rs.standard_normal((n, n))) for g in G]
        base = _box([0.5] * 3, [2.0] * 3)
        alts = [('flipped', _box([-2.0] * 3, [-0.5] * 3))]
    elif cls == 'diag':         # diagonal matrix: SolverDiagonal; 'flipped' changes the sign of every entry
        A0 = 2.0 * np.eye(n)
        As = [np.diag(0.5 + 0.5 * rs.random(n)) / 3 for _ in range(3)]
        base = _box([0.5] * 3, [2.0] * 3)
        alts = [('flipped', _box([-8.0] * 3, [-6.0] * 3))]
    elif cls in ('bc', 'bcgen', 'bceig'):
        # SPARSITY PATTERN changes at constant shape.  In A0 the dofs 0 and n-1 carry ONLY their diagonal entry (like the
        # rows of boundary conditions); A_0 couples dof 0, A_1 couples dof n-1, A_2 varies the interior.  x_0 = 0 or
        # x_1 = 0 EXACTLY (regimes dec0 / dec1 / decboth) decouple a dof: the decoupled/coupled partition that
        # LDAWrapper.update analyses (get_diagonal_indices) appears, disappears and moves within one history.
        d = 6.0 + 1.3 * np.arange(n)
        if cls == 'bceig':      # decoupled dofs far from the lowest modes (K02: exactly singular A - lambda_i B otherwise)
            d[0], d[n - 1] = 25.0, 28.0
        A0 = np.diag(d)
        for i in range(1, n - 2):
            A0[i, i + 1] = A0[i + 1, i] = 0.7
        C0, C1, Mi = np.zeros((n, n)), np.zeros((n, n)), np.zeros((n, n))
        C0[0, 1] = C0[1, 0] = 0.9
        C0[0, 2] = C0[2, 0] = 0.4
        C1[n - 1, n - 2] = C1[n - 2, n - 1] = 0.8
        C1[n - 1, n - 3] = C1[n - 3, n - 1] = -0.5
        Mi[1:n - 1, 1:n - 1] = 0.2 * _sym(G[2])[1:n - 1, 1:n - 1]
        if cls == 'bcgen':      # non-symmetric (LU, adjoint storage of LDAWrapper): same pattern, different values
            C0[1, 0], C0[2, 0], C1[n - 2, n - 1] = -0.3, 0.6, 0.2
            A0 = A0 + 0.4 * np.triu(A0, 1)
            Mi[1:n - 1, 1:n - 1] = 0.2 * G[2][1:n - 1, 1:n - 1]
        As = [C0, C1, Mi]
        base = _box([0.5] * 3, [2.0] * 3)
        alts = [('dec0', _box([0.0, 0.5, 0.5], [0.0, 2.0, 2.0])), ('dec1', _box([0.5, 0.0, 0.5], [2.0, 0.0, 2.0])),
                ('decboth', _box([0.0, 0.0, 0.5], [0.0, 0.0, 2.0]))]
    elif cls in ('kgen', 'ksym', 'kherm', 'keig'):
        # VALUE KIND changes: A = A0 + x0 A_0 + x1 A_1 + i x2 C.  x2 = 0 EXACTLY gives a REAL-typed matrix (MatAsm with
        # realify), x2 > 0 a complex one of the same symmetry class: kgen non-symmetric -> complex general, ksym
        # symmetric -> complex symmetric, kherm symmetric -> complex Hermitian (C skew-symmetric), keig nearly diagonal
        # with well separated eigenvalues (dense non-Hermitian EigenSolve)
        if cls == 'kgen':
            A0 = 6.0 * np.eye(n) + 0.8 * np.triu(rs.standard_normal((n, n)), 1)
            As = [0.15 * G[0], 0.15 * G[1], 0.5j * G[2]]
        elif cls == 'keig':
            A0 = np.diag(3.0 + 1.7 * np.arange(n))
            As = [0.1 * G[0], 0.1 * G[1], 0.2j * G[2]]
        elif cls == 'ksym':
            A0 = 6.0 * np.eye(n) + 0.3 * _sym(rs.standard_normal((n, n)))
            As = [0.15 * _sym(G[0]), 0.15 * _sym(G[1]), 0.5j * _sym(G[2])]
        else:
            A0 = np.diag(3.0 + 1.7 * np.arange(n)) + 0.3 * _sym(rs.standard_normal((n, n)))
            As = [0.15 * _sym(G[0]), 0.15 * _sym(G[1]), 0.25j * (G[2] - G[2].T)]
        base = _box([0.5] * 3, [2.0] * 3)
        alts = [('real', _box([0.5, 0.5, 0.0], [2.0, 2.0, 0.0])), ('real/other-rhs', _box([0.5, 0.5, 0.0], [2.0, 2.0, 0.0])),
                ('complex/real-rhs', _box([0.5] * 3, [2.0] * 3))]
    elif cls == 'mag':
        # MAGNITUDE changes: A = x0 S0 + x1 S1 + x2 S2 (no constant part), positive definite; the regimes scale the WHOLE
        # matrix by 1e-5 / 1e5 (entries stay above the absolute tolerance 1e-8 of the matrix predicates: K06)
        A0 = np.zeros((n, n))
        As = [1.5 * np.eye(n) + 0.3 * g @ g.T / n for g in G]
        base = _box([0.5] * 3, [2.0] * 3)
        alts = [('tiny', _box([0.5e-5] * 3, [2.0e-5] * 3)), ('huge', _box([0.5e5] * 3, [2.0e5] * 3))]
    else:
        raise ValueError(cls)
    return A0, As, base, alts


def kind_alts(real, cplx, sparse):
    """regimes of a right-hand side aligned with those of the value-kind families (kgen ...): regime 1 real matrix and
    real rhs, 2 real matrix and COMPLEX rhs (dense only: LinSolve refuses it for a sparse real matrix, documented), 3
    complex matrix and real rhs; the base regime is complex matrix and complex rhs"""
    return [('real', real), ('real' if sparse else 'complex', real if sparse else cplx), ('real', real)]


def scaled(f, c):
    return lambda g: c * f(g)


LINSOLVE = {
    # name: (storage, family, options)
    'linsolve-dense-spd': ('dense', 'spd', {}), 'linsolve-dense-indef': ('dense', 'indef', {}),
    'linsolve-dense-general': ('dense', 'general', {}), 'linsolve-sparse-spd': ('sparse', 'spd', {}),
    'linsolve-sparse-indef': ('sparse', 'indef', {}), 'linsolve-sparse-general': ('sparse', 'general', {}),
    'linsolve-dense-chol': ('dense', 'chol', {}),                    # Cholesky with LDL fallback: PD <-> indefinite
    'linsolve-dense-cholneg': ('dense', 'cholneg', {}),              # all-negative diagonal: Cholesky selected, always falls back
    'linsolve-dense-chol-nolda': ('dense', 'chol', dict(lda=False)),
    'linsolve-dense-chol-flag': ('dense', 'chol', dict(kw=dict(hermitian=True))),
    'linsolve-dense-herm': ('dense', 'herm', {}),                    # complex Hermitian: Cholesky / LDL(hermitian)
    'linsolve-dense-csym': ('dense', 'csym', {}),                    # complex symmetric: LDL(hermitian=False)
    'linsolve-dense-cgen': ('dense', 'cgen', {}),                    # complex general: LU
    'linsolve-dense-diag': ('dense', 'diag', {}),                    # SolverDiagonal
    'linsolve-dense-qr': ('dense', 'general', dict(solver='qr')),    # explicitly passed solver object
    'linsolve-dense-lu-sym': ('dense', 'chol', dict(solver='lu')),   # explicit LU on a symmetric matrix (LDA: symmetric storage)
    'linsolve-sparse-chol': ('sparse', 'spchol', {}),                # banded sparse, same pattern, PD <-> indefinite
    'linsolve-sparse-diag': ('sparse', 'diag', {}),
    'linsolve-cg': ('sparse', 'spchol', dict(solver='cg', regimes=['flipped'])),            # CG with initial guess, through LDAWrapper
    'linsolve-cg-ilu': ('sparse', 'spchol', dict(solver='cg-ilu', regimes=['flipped'])),
    'linsolve-cg-sor': ('sparse', 'spchol', dict(solver='cg-sor', regimes=['flipped'])),
    # CG called directly (no LDAWrapper): one right-hand side, and no seed that makes the adjoint right-hand side zero
    # (CG divides by |b|: NaN for b = 0 in the fresh network as well -- not a matter of call history)
    'linsolve-cg-jacobi-nolda': ('sparse', 'spchol', dict(solver='cg-jacobi', lda=False, regimes=['flipped'], rhs1=True,
                                                          avoid=('zero',))),
    # sparsity pattern changes at constant shape (decoupled dofs appear / disappear / move): partition of LDAWrapper
    'linsolve-dense-bc': ('dense', 'bc', {}), 'linsolve-sparse-bc': ('sparse', 'bc', {}),
    'linsolve-dense-bcgen': ('dense', 'bcgen', {}), 'linsolve-sparse-bcgen': ('sparse', 'bcgen', {}),
    'linsolve-cg-bc': ('sparse', 'bc', dict(solver='cg')),
    'linsolve-dense-bc-qr': ('dense', 'bcgen', dict(solver='qr')),
    # value kind changes (real <-> complex matrix and right-hand side) within one symmetry class
    'linsolve-dense-kgen': ('dense', 'kgen', {}), 'linsolve-sparse-kgen': ('sparse', 'kgen', {}),
    'linsolve-dense-kgen-nolda': ('dense', 'kgen', dict(lda=False)),
    'linsolve-dense-kgen-qr': ('dense', 'kgen', dict(solver='qr')),
    'linsolve-dense-ksym-lu': ('dense', 'ksym', dict(solver='lu')),
    'linsolve-sparse-ksym': ('sparse', 'ksym', {}),
    'linsolve-sparse-ksym-lu': ('sparse', 'ksym', dict(solver='splu')),
    'linsolve-dense-kherm-nolda': ('dense', 'kherm', dict(lda=False)),
    # magnitude changes (whole matrix and right-hand side scaled by 1e-5 / 1e5), compared RELATIVE to the result
    'linsolve-dense-mag': ('dense', 'mag', {}), 'linsolve-sparse-mag': ('sparse', 'mag', {}),
    'linsolve-cg-mag': ('sparse', 'mag', dict(solver='cg')),
    'linsolve-dense-mag-nolda': ('dense', 'mag', dict(lda=False)),
    # matrix and right-hand side scaled in OPPOSITE directions: the solution changes by 1e10 / 1e20 between designs and CG
    # starts from the previous one (known finding K07 when the guess is >= 1e9 times larger than the new solution:
    # the ratio is recorded per history, see run_stress)
    'linsolve-cg-mag-opposite': ('sparse', 'mag', dict(solver='cg', opposite=True)),
}
KIND = ('kgen', 'ksym', 'kherm', 'keig')


def _design(n):
    return lambda g: 0.5 + 1.5 * g.random(n)


def _field(n):
    return lambda g: 0.05 + 0.9 * g.random(n)


def _field_alts(n):
    return [('blackwhite', lambda g: np.where(g.random(n) < 0.5, 0.0, 1.0)),
            ('uniform', lambda g: np.full(n, float(g.random())))]


def build_lib(pym, fm, recipe, rs):
    """rs: seeded generator used ONLY for the fixed data of the recipe (same for history and fresh network)"""
    S = pym.Signal
    import scipy.sparse as sps
    sigs, inputs, seedable, alt, tol = {}, {}, [], {}, 1e-9

    avoid = ()
    aligned, floor = False, 1.0

    def rhs_sampler(n, cplx=False, one=False):
        def f(g):
            shape = (n,) if g.random() < 0.4 or one else (n, int(g.integers(1, 4)))
            return g.standard_normal(shape) + (1j * g.standard_normal(shape) if cplx else 0)
        return f
    if recipe in LINSOLVE:
        storage, cls, opt = LINSOLVE[recipe]
        n = 8 if cls == 'spchol' else 7 if cls in ('bc', 'bcgen') else 5
        A0, As, base, alts = family(rs, n, cls)
        if 'regimes' in opt:
            alts = [a for a in alts if a[0] in opt['regimes']]
        cplx = np.iscomplexobj(A0) or cls in KIND
        x, b = S('x'), S('b')
        mA = fm['MatAsm'](x, S('A'), A0, As, storage == 'sparse', cls in KIND)
        kw = dict(opt.get('kw', {}))
        if opt.get('solver') == 'qr':
            kw['solver'] = pym.solvers.SolverDenseQR()
        elif opt.get('solver') == 'lu':
            kw['solver'] = pym.solvers.SolverDenseLU()
        elif opt.get('solver') == 'splu':
            kw['solver'] = pym.solvers.SolverSparseLU()
        elif opt.get('solver') == 'cg':
            kw['solver'] = pym.solvers.CG(tol=1e-12)
            tol = 1e-8
        elif opt.get('solver') in ('cg-ilu', 'cg-sor'):
            pre = pym.solvers.ILU() if opt['solver'] == 'cg-ilu' else pym.solvers.SOR(w=1.2)
            kw['solver'] = pym.solvers.CG(preconditioner=pre, tol=1e-12)
            tol = 1e-8
        elif opt.get('solver') == 'cg-jacobi':
            kw['solver'] = pym.solvers.CG(preconditioner=pym.solvers.DampedJacobi(w=0.9), tol=1e-12)
            tol = 1e-8
        mS = pym.LinSolve([mA.sig_out[0], b], S('u'), **kw)
        if opt.get('lda') is False:
            mS.use_lda_solver = False
        mG = fm['SqSum'](mS.sig_out[0], S('g'))
        sigs = dict(x=x, b=b, A=mA.sig_out[0], u=mS.sig_out[0], g=mG.sig_out[0])
        inputs = dict(x=base, b=rhs_sampler(n, cplx, bool(opt.get('rhs1'))))
        alt = dict(x=alts)
        if cls in KIND:         # the regimes of matrix and right-hand side belong together
            alt['b'] = kind_alts(rhs_sampler(n, False), rhs_sampler(n, True), storage == 'sparse')
            aligned = True
        elif cls == 'mag':      # u = A^-1 b of magnitude 1e10 / 1e-10: compared relative to the result, no absolute floor
            alt['b'] = [('huge', scaled(rhs_sampler(n), 1e5)), ('tiny', scaled(rhs_sampler(n), 1e-5))]
            if opt.get('opposite'):     # ratio of successive solutions 1e11 / 1e22: clear of the threshold 1e9 of K07
                alt['b'] = [('huge', scaled(rhs_sampler(n), 1e6)), ('tiny', scaled(rhs_sampler(n), 1e-6))]
            if opt.get('solver') == 'cg' and not opt.get('opposite'):
                # an iterative solver that starts from the previous solution cannot represent a solution 1e20 times smaller
                # than its initial guess (CG ends with its "Maximum iterations reached" warning: no result to solver
                # tolerance, reported as an observation): here matrix and right-hand side are scaled ALIKE
                alt['b'] = alt['b'][::-1]
            aligned, floor = True, 0.0
            if opt.get('lda') is not False:
                # LDAWrapper answers from its stored vectors when the RESIDUAL is below its tolerance 1e-7: parts of a
                # right-hand side that are 1e-7 times smaller than the rest (a seed of order 1 next to 2 u dg of order 1e10)
                # are answered to that tolerance only, and which vectors are stored depends on the passes made so far:
                # "to solver tolerance" of the property
                tol = 1e-6
        avoid = tuple(opt.get('avoid', ()))
        seedable = ['g', 'u']
        net = pym.Network(mA, mS, mG)
    elif recipe == 'linsolve-cg-mg':
        # CG preconditioned with geometric multigrid (interpolation built once, coarse solver chosen once), initial guess
        dom = pym.DomainDefinition(4, 4)
        x, f = S('x'), S('f')
        bc = (dom.nodes[0, :] * 2 + np.arange(2)[None]).flatten()
        mK = pym.AssembleStiffness(x, S('K'), dom, bc=bc)
        mS = pym.LinSolve([mK.sig_out[0], f], S('u'), solver=pym.solvers.CG(preconditioner=pym.solvers.GeometricMultigrid(dom), tol=1e-12))
        mC = pym.EinSum([mS.sig_out[0], f], S('c'), expression='i,i->')
        sigs = dict(x=x, f=f, K=mK.sig_out[0], u=mS.sig_out[0], c=mC.sig_out[0])
        inputs = dict(x=_design(dom.nel), f=lambda g: g.standard_normal(2 * dom.nnodes))
        alt = dict(x=[('contrast', lambda g: np.where(g.random(dom.nel) < 0.5, 1e-1, 1.0) * (0.5 + g.random(dom.nel)))])
        seedable = ['c', 'u']
        net = pym.Network(mK, mS, mC)
        tol = 1e-8
    elif recipe in ('stiffness-linsolve', 'assemble-general', 'assemble-poisson'):
        dom = pym.DomainDefinition(2, 2)
        x, f = S('x'), S('f')
        bc = np.array([0, 1, 5])      # node 0 fixed, node 2 (on the x axis) fixed in y: no rigid body mode left
        ndof = 2 * dom.nnodes
        if recipe == 'stiffness-linsolve':
            mK = pym.AssembleStiffness(x, S('K'), dom, bc=bc)
        elif recipe == 'assemble-poisson':
            mK = pym.AssemblePoisson(x, S('K'), dom, bc=np.array([0, 4]))
            ndof = dom.nnodes
        else:
            g = rs.standard_normal((8, 8))
            mK = pym.AssembleGeneral(x, S('K'), dom, element_matrix=g @ g.T + 8 * np.eye(8), bc=bc,
                                     add_constant=sps.identity(2 * dom.nnodes, format='csc') * 0.5)
        mS = pym.LinSolve([mK.sig_out[0], f], S('u'))
        mC = pym.EinSum([mS.sig_out[0], f], S('c'), expression='i,i->')
        sigs = dict(x=x, f=f, K=mK.sig_out[0], u=mS.sig_out[0], c=mC.sig_out[0])
        inputs = dict(x=_design(dom.nel), f=lambda g: g.standard_normal(ndof))
        alt = dict(x=[('soft', lambda g: 1e-3 * (0.5 + 1.5 * g.random(dom.nel))),
                      ('contrast', lambda g: np.where(g.random(dom.nel) < 0.5, 1e-2, 1.0) * (0.5 + g.random(dom.nel)))])
        seedable = ['c', 'u']
        net = pym.Network(mK, mS, mC)
    elif recipe in ('filterconv', 'filterconv-edge', 'densityfilter', 'overhang', 'overhang-3d'):
        dom = pym.DomainDefinition(3, 3, 3) if recipe == 'overhang-3d' else pym.DomainDefinition(4, 3)
        x = S('x')
        if recipe == 'filterconv':
            m1 = pym.FilterConv(x, S('y'), dom, radius=1.5)
        elif recipe == 'filterconv-edge':
            m1 = pym.FilterConv(x, S('y'), dom, radius=1.5, xmin_bc='edge', xmax_bc=0.0, ymin_bc='wrap', ymax_bc='wrap')
        elif recipe == 'densityfilter':
            m1 = pym.DensityFilter(x, S('y'), dom, radius=1.6)
        elif recipe == 'overhang-3d':
            m1 = pym.OverhangFilter(x, S('y'), dom, direction=['+z', '-x', '+y'][int(rs.integers(0, 3))],
                                    nsampling=[5, 9][int(rs.integers(0, 2))])
        else:
            m1 = pym.OverhangFilter(x, S('y'), dom, direction=['+y', '-y', '+x', '-x'][int(rs.integers(0, 4))])
        m2 = fm['Cube'](m1.sig_out[0], S('z'))
        m3 = fm['SqSum'](m2.sig_out[0], S('g'))
        sigs = dict(x=x, y=m1.sig_out[0], z=m2.sig_out[0], g=m3.sig_out[0])
        inputs = dict(x=_field(dom.nel))
        alt = dict(x=_field_alts(dom.nel))
        seedable = ['g', 'y', 'z']
        net = pym.Network(m1, m2, m3)
    elif recipe in ('soe', 'soe-general-dense', 'soe-dense-chol', 'soe-multirhs', 'static-condensation',
                    'static-condensation-dense', 'static-condensation-chol') + SOE_WIDE:
        n = 6
        cls = 'general' if recipe == 'soe-general-dense' else 'chol' if recipe.endswith('-chol') else 'spd'
        for c in ('bcgen', 'bc', 'kgen', 'ksym', 'mag'):
            if '-' + c + '-' in recipe + '-':
                cls = c
        A0, As, base, alts = family(rs, n, cls)
        x = S('x')
        dense = recipe.endswith('-dense') or recipe.endswith('-chol') or '-dense-' in recipe
        mA = fm['MatAsm'](x, S('A'), A0, As, not dense, cls in KIND)
        skw = dict(solver=pym.solvers.SolverSparseLU()) if recipe.endswith('-splu') else {}
        if recipe.startswith('soe'):
            bf, xp = S('bf'), S('xp')
            kw = dict(prescribed=np.array([1, 4])) if rs.random() < 0.5 else dict(free=np.array([0, 2, 3, 5]))
            mS = pym.SystemOfEquations([mA.sig_out[0], bf, xp], [S('xx'), S('bb')], **kw, **skw)
            mG = fm['SqSum'](mS.sig_out[0], S('g'))
            mH = fm['SqSum'](mS.sig_out[1], S('h'))
            sigs = dict(x=x, bf=bf, xp=xp, A=mA.sig_out[0], xx=mS.sig_out[0], bb=mS.sig_out[1], g=mG.sig_out[0], h=mH.sig_out[0])
            nr = (2,) if recipe == 'soe-multirhs' else ()
            def vec(m, cplx=False, c=1.0):
                return lambda g: c * (g.standard_normal((m,) + nr) + (1j * g.standard_normal((m,) + nr) if cplx else 0))
            inputs = dict(x=base, bf=vec(4, cls in KIND), xp=vec(2, cls in KIND))
            if cls in KIND:
                other = dict(bf=kind_alts(vec(4), vec(4, True), not dense), xp=kind_alts(vec(2), vec(2, True), not dense))
                aligned = True
            elif cls == 'mag':
                other = dict(bf=[('huge', vec(4, c=1e5)), ('tiny', vec(4, c=1e-5))], xp=[('huge', vec(2, c=1e5)), ('tiny', vec(2, c=1e-5))])
                aligned, floor, tol = True, 0.0, 1e-6      # LDAWrapper tolerance, see linsolve-*-mag
            else:
                other = {}
            seedable = ['g', 'h', 'xx', 'bb']
            net = pym.Network(mA, mS, mG, mH)
        else:
            other = {}
            aligned = cls in KIND
            mS = pym.StaticCondensation(mA.sig_out[0], S('Ared'), main=np.array([0, 3]), free=np.array([1, 2, 4, 5]), **skw)
            mG = fm['Frob'](mS.sig_out[0], S('g'), rs.standard_normal((2, 2)))
            sigs = dict(x=x, A=mA.sig_out[0], Ared=mS.sig_out[0], g=mG.sig_out[0])
            inputs = dict(x=base)
            seedable = ['g', 'Ared'] if not mA.sparse else ['g']
            net = pym.Network(mA, mS, mG)
        alt = dict(x=alts, **other)
    elif recipe in ('eigensolve-sparse', 'eigensolve-sparse-shift', 'eigensolve-sparse-gen', 'eigensolve-sparse-bc',
                    'eigensolve-sparse-bc-shift'):
        n = 12
        if '-bc' in recipe:     # decoupled dofs appear / disappear / move (their eigenvalues lie far above the computed ones)
            A0, As, base, alts = family(rs, n, 'bceig')
        else:
            A0, As, base, alts = family(rs, n, 'spd')
            A0 = A0 + np.diag(np.arange(n) * 1.3)
        x = S('x')
        mA = fm['MatAsm'](x, S('A'), A0, As, True)
        ins, mods = [mA.sig_out[0]], [mA]
        sigs = dict(x=x, A=mA.sig_out[0])
        if recipe.endswith('-gen'):
            B0, Bs, _, _ = family(rs, n, 'spd')
            mB = fm['MatAsm'](x, S('Bm'), B0 / 6.0, [0.1 * b for b in Bs], True)
            ins.append(mB.sig_out[0]); mods.append(mB); sigs['Bm'] = mB.sig_out[0]
        mE = pym.EigenSolve(ins, [S('lam'), S('Q')], nmodes=3, **(dict(sigma=5.1) if recipe.endswith('shift') else {}))
        mG = fm['SqSum'](mE.sig_out[0], S('g'))
        mods += [mE, mG]
        sigs.update(lam=mE.sig_out[0], Q=mE.sig_out[1], g=mG.sig_out[0])
        inputs = dict(x=base)
        alt = dict(x=alts if '-bc' in recipe else [('flipped', _box([-2.0] * 3, [-0.5] * 3)), ('stiff', _box([4.0] * 3, [8.0] * 3))])
        seedable = ['g', 'lam', 'Q']
        net = pym.Network(*mods)
    elif recipe == 'eigensolve-sparse-fe':
        # AssembleStiffness + AssembleMass -> sparse generalized eigenproblem (default nmodes = 6, sigma = 0)
        dom = pym.DomainDefinition(3, 4)
        bc = (dom.nodes[0, :] * 2 + np.arange(2)[None]).flatten()
        x = S('x')
        mK = pym.AssembleStiffness(x, S('K'), dom, bc=bc)
        mM = pym.AssembleMass(x, S('Mm'), dom, bc=bc, ndof=dom.dim)
        mE = pym.EigenSolve([mK.sig_out[0], mM.sig_out[0]], [S('lam'), S('Q')])
        mG = fm['SqSum'](mE.sig_out[0], S('g'))
        sigs = dict(x=x, K=mK.sig_out[0], Mm=mM.sig_out[0], lam=mE.sig_out[0], Q=mE.sig_out[1], g=mG.sig_out[0])
        inputs = dict(x=lambda g: 0.3 + 0.6 * g.random(dom.nel))
        alt = dict(x=[('uniform', lambda g: np.full(dom.nel, 0.4 + 0.2 * float(g.random())) + 1e-3 * g.random(dom.nel)),
                      ('contrast', lambda g: np.where(g.random(dom.nel) < 0.5, 0.05, 1.0) * (0.7 + 0.3 * g.random(dom.nel)))])
        seedable = ['g', 'lam', 'Q']
        net = pym.Network(mK, mM, mE, mG)
        tol = 1e-7      # the adjoint systems A - lambda_i B are singular by construction (K02): rounding level ~1e-9
    elif recipe in ('eigensolve', 'eigensolve-gen', 'eigensolve-flag', 'eigensolve-kgen', 'eigensolve-kherm'):
        n = 4
        kcls = {'eigensolve-kgen': 'keig', 'eigensolve-kherm': 'kherm'}.get(recipe)
        A0, As, base, alts = family(rs, n, kcls or ('spd' if recipe == 'eigensolve-gen' else 'indef'))
        if not kcls:
            A0 = A0 + np.diag(np.arange(n) * 1.7)        # well separated eigenvalues
        x = S('x')
        mA = fm['MatAsm'](x, S('A'), A0, As, False, bool(kcls))
        ins, mods = [mA.sig_out[0]], [mA]
        sigs = dict(x=x, A=mA.sig_out[0])
        if recipe == 'eigensolve-gen':
            B0, Bs, _, _ = family(rs, n, 'spd')
            mB = fm['MatAsm'](x, S('Bm'), B0, Bs, False)
            ins.append(mB.sig_out[0]); mods.append(mB); sigs['Bm'] = mB.sig_out[0]
        mE = pym.EigenSolve(ins, [S('lam'), S('Q')], **(dict(hermitian=True) if recipe == 'eigensolve-flag' else {}))
        mG = fm['SqSum'](mE.sig_out[0], S('g'))
        mods += [mE, mG]
        sigs.update(lam=mE.sig_out[0], Q=mE.sig_out[1], g=mG.sig_out[0])
        inputs = dict(x=base)
        # the second matrix of a generalized problem must stay positive definite: no sign flip there
        alt = dict(x=alts[:1] if kcls else [('stiff', _box([4.0] * 3, [8.0] * 3))] if recipe == 'eigensolve-gen' else
                   [('flipped', _box([-2.0] * 3, [-0.5] * 3))])
        seedable = ['g', 'lam', 'Q']
        net = pym.Network(*mods)
    elif recipe in ('scaling-constraint', 'control:scaling-objective'):
        x = S('x')
        m1 = fm['SqSum'](x, S('v'))
        m2 = pym.Scaling(m1.sig_out[0], S('y'), scaling=10.0, **(dict(maxval=3.0) if recipe == 'scaling-constraint' else {}))
        sigs = dict(x=x, v=m1.sig_out[0], y=m2.sig_out[0])
        inputs = dict(x=lambda g: 0.5 + g.random(4))
        seedable = ['y']
        net = pym.Network(m1, m2)
    elif recipe in ('pnorm-undamped', 'control:aggscaling-damped'):
        x = S('x')
        m1 = pym.PNorm(x, S('y'), p=4, scaling=pym.AggScaling('max', damping=0.0 if recipe == 'pnorm-undamped' else 0.6))
        sigs = dict(x=x, y=m1.sig_out[0])
        inputs = dict(x=lambda g: 0.5 + g.random(5))
        seedable = ['y']
        net = pym.Network(m1)
    else:
        raise ValueError(recipe)
    return dict(sigs=sigs, inputs=inputs, alt=alt, seedable=seedable, net=net, tol=tol, avoid=avoid, aligned=aligned,
                floor=floor, track_guess=recipe == 'linsolve-cg-mag-opposite')


SOE_WIDE = ('soe-bc', 'soe-dense-bc', 'soe-dense-bcgen', 'soe-dense-kgen', 'soe-ksym-splu', 'soe-dense-mag',
            'static-condensation-bc', 'static-condensation-dense-kgen', 'static-condensation-ksym-splu')
RECIPES = sorted(LINSOLVE) + list(SOE_WIDE) + ['eigensolve-sparse-bc', 'eigensolve-sparse-bc-shift', 'eigensolve-kgen',
                                                'eigensolve-kherm'] + [
    'linsolve-cg-mg', 'stiffness-linsolve', 'assemble-general', 'assemble-poisson', 'filterconv', 'filterconv-edge', 'densityfilter',
    'overhang', 'overhang-3d', 'soe', 'soe-general-dense', 'soe-dense-chol', 'soe-multirhs', 'static-condensation',
    'static-condensation-dense', 'static-condensation-chol', 'eigensolve', 'eigensolve-gen', 'eigensolve-flag',
    'eigensolve-sparse', 'eigensolve-sparse-shift', 'eigensolve-sparse-gen', 'eigensolve-sparse-fe',
    'scaling-constraint', 'pnorm-undamped']
CONTROLS = ['control:scaling-objective', 'control:aggscaling-damped']
# deliberate stress plans only (the ratio |initial guess| / |new solution| that decides about the known finding K07 is
# recorded by run_stress)
STRESS_ONLY = {'linsolve-cg-mag-opposite'}


def tree_signals(netobj):
    """every signal of a (nested) network, collected by walking the MEMBER TREE (not Network.sig_in / sig_out); the base
    signal of a slice is included"""
    seen, out = set(), []

    def add(s):
        while s is not None and id(s) not in seen:
            seen.add(id(s))
            out.append(s)
            s = getattr(s, 'base', None)

    def go(m):
        if hasattr(m, 'mods'):
            for x in m.mods:
                go(x)
        else:
            for s in list(m.sig_out) + list(m.sig_in):
                add(s)
    go(netobj)
    return out


def leftovers(netobj):
    """tags of the signals of the member tree that hold a non-zero sensitivity"""
    left = []
    for s in tree_signals(netobj):
        v = s.sensitivity
        if v is None:
            continue
        if hasattr(v, 'todense') and not isinstance(v, np.ndarray):
            v = v.todense()
        if hasattr(v, 'toarray'):
            v = v.toarray()
        if np.any(np.asarray(v) != 0):
            left.append(str(getattr(s, 'tag', '?')))
    return left



# ============================================================================ construction histories of the network
# The recipes build their network in one go, Network(m1, ..., mk).  A construction plan puts the SAME module objects
# together by single append() calls instead: inner networks are placed in the outer one while still empty and are
# extended afterwards (by modules and by further networks), optionally with an evaluation of the partially built outer
# network before every extension.  The member tree differs, the flat depth-first order (hence the behaviour, C02) is
# the same; the reference is always the network constructed in one go.
PLANS = ['flat', 'late-fill', 'deep-late-fill', 'grown']


def rebuild(pym, net, plan, data_seed=0):
    """replaces net['net'] by a network of the same modules constructed according to `plan`; returns a description"""
    if plan in (None, 'flat'):
        return 'Network(m1..mk)'
    mods = list(net['net'].mods)
    k = len(mods)
    g = np.random.default_rng(data_seed + 7)
    log = []

    def evaluate(outer):
        # one design iteration of the partially built network whose seeds stay behind (no reset)
        for name in sorted(net['inputs']):
            net['sigs'][name].state = np.array(net['inputs'][name](g), copy=True)
        outer.response()
        for name in net['seedable']:
            st = net['sigs'][name].state
            if st is not None and any(s is net['sigs'][name] for s in tree_signals(outer)):
                w = make_seed(g, st, 'full')
                net['sigs'][name].sensitivity = np.array(w, copy=True) if np.ndim(w) else w
        try:
            outer.sensitivity()
        except Exception as e:
            if 'singular' not in str(e):
                raise
            outer.reset()
        log.append('response; seeds; sensitivity')
    grown = plan == 'grown' and not net.get('track_guess')
    created = []
    if plan in ('late-fill', 'grown'):
        a = (k - 1) // 2            # the later modules (solvers, eigensolvers, objective) arrive in the nested network
        outer = pym.Network(*mods[:a])
        inner = pym.Network()
        outer.append(inner)
        created += [outer, inner]
        log.append(f'outer = Network(m1..m{a}); outer.append(inner = Network())')
        for j in range(a, k):
            if grown and j > 0:
                evaluate(outer)
            if j == k - 1 and k - a >= 2:
                inner2 = pym.Network()
                inner.append(inner2)
                inner2.append(mods[j])
                created.append(inner2)
                log.append(f'inner.append(inner2 = Network()); inner2.append(m{j + 1})')
            else:
                inner.append(mods[j])
                log.append(f'inner.append(m{j + 1})')
    elif plan == 'deep-late-fill':
        outer, inner, inner2 = pym.Network(), pym.Network(), pym.Network()
        created += [outer, inner, inner2]
        outer.append(inner)
        inner.append(inner2)
        log.append('outer.append(inner); inner.append(inner2)')
        a = max(1, k // 2)
        for j in range(a):
            inner2.append(mods[j])
        for j in range(a, k):
            inner.append(mods[j])
        log.append(f'inner2.append(m1) .. (m{a}); inner.append(m{a + 1}) .. (m{k})')
    else:
        raise ValueError(plan)
    flat = []

    def go(m):
        for x in m.mods:
            if any(x is c for c in created):
                go(x)
            else:
                flat.append(x)
    go(outer)
    if len(flat) != k or any(x is not y for x, y in zip(flat, mods)):
        raise RuntimeError('harness: the constructed network does not have the flat order of the recipe')
    if grown:
        # the history that follows draws inputs of other shapes / value kinds: seeds of the construction phase are not
        # "current seeds" of it (they stayed behind across every extension; now the completed network is cleaned)
        outer.reset()
        log.append('reset')
    net['net'] = outer
    return '; '.join(log)


# ============================================================================ observations
def canon(v):
    """state / sensitivity -> dense float (or complex) ndarray, or None"""
    if v is None:
        return None
    if hasattr(v, 'todense') and not isinstance(v, np.ndarray):
        v = v.todense()
    if hasattr(v, 'toarray'):
        v = v.toarray()
    return np.array(v, dtype=complex if np.iscomplexobj(v) else float)


def close(a, b, tol=1e-9, floor=1.0):
    """None = zero; otherwise same shape and |a - b| <= tol * max(floor, |a|, |b|) (floor = 1 unless the recipe changes
    the MAGNITUDE of its data: then the comparison is relative to the result)"""
    za = a is None or not np.any(a)
    zb = b is None or not np.any(b)
    if za and zb:
        return True
    if a is None or b is None:
        return False
    if a.shape != b.shape:
        return False
    if not (np.all(np.isfinite(a)) and np.all(np.isfinite(b))):
        return False
    scale = max(floor, float(np.max(np.abs(a))), float(np.max(np.abs(b))))
    return bool(np.max(np.abs(a - b)) <= tol * scale)


# ============================================================================ seeds with deliberate supports
PATTERNS = ['full', 'partial', 'single', 'cols', 'onecol', 'zero']


def make_seed(g, st, pattern, col=None, exclude_col=None):
    """a seed of the shape (and complexity) of the state `st` whose SUPPORT follows `pattern`:
    full | partial (random proper subset of the entries) | single (one entry) | cols (proper subset of the columns) |
    onecol (column `col`) | allbut (every column but `exclude_col`) | zero (explicitly stored zeros)"""
    if not np.ndim(st):
        return 0.0 if pattern == 'zero' else float(g.standard_normal())
    shape = np.shape(st)
    w = g.standard_normal(shape) + (1j * g.standard_normal(shape) if np.iscomplexobj(st) else 0)
    size = int(np.prod(shape))
    m = np.ones(shape, dtype=bool)
    if size > 1:
        if pattern == 'partial':
            flat = g.random(size) < 0.5
            flat[int(g.integers(0, size))] = True
            flat[(int(np.argmax(flat)) + 1 + int(g.integers(0, size - 1))) % size] = False
            m = flat.reshape(shape)
        elif pattern == 'single' or (pattern in ('onecol', 'cols') and len(shape) < 2):
            m = np.zeros(size, dtype=bool)
            m[int(g.integers(0, size))] = True
            m = m.reshape(shape)
        elif pattern == 'cols':
            cm = g.random(shape[1]) < 0.5
            cm[int(g.integers(0, shape[1]))] = True
            if shape[1] > 1 and cm.all():
                cm[int(g.integers(0, shape[1]))] = False
            m = np.broadcast_to(cm[None, :], shape).copy()
        elif pattern == 'onecol':
            m = np.zeros(shape, dtype=bool)
            m[:, (int(g.integers(0, shape[1])) if col is None else col) % shape[1]] = True
        elif pattern == 'allbut' and len(shape) == 2:
            m[:, exclude_col % shape[1]] = False
    if pattern == 'zero':
        m = np.zeros(shape, dtype=bool)
    return np.where(m, w, 0.0)


def pieces_of(net):
    """the pieces a seed can be restricted to: a whole seedable output, or one column of a matrix-valued output
    (an eigenvector, one right-hand side); at most 4 columns per output"""
    ps = []
    for k in net['seedable']:
        st = net['sigs'][k].state
        if np.ndim(st) == 2 and np.shape(st)[1] > 1:
            ps += [(k, j) for j in range(min(np.shape(st)[1], 4))]
        else:
            ps.append((k, None))
    return ps


def seeds_for(g, net, spec):
    """spec -> dict name -> seed array.
    ('only', piece) | ('allbut', piece) | ('pattern', name of pattern) | ('output', name, pattern) | ('none',)"""
    out = {}
    kind = spec[0]
    for k in net['seedable']:
        st = net['sigs'][k].state
        if kind == 'only':
            if k == spec[1][0]:
                out[k] = make_seed(g, st, 'full' if spec[1][1] is None else 'onecol', col=spec[1][1])
        elif kind == 'allbut':
            if k != spec[1][0]:
                out[k] = make_seed(g, st, 'full')
            elif spec[1][1] is not None:
                out[k] = make_seed(g, st, 'allbut', exclude_col=spec[1][1])
        elif kind == 'pattern':
            out[k] = make_seed(g, st, 'partial' if spec[1] in net['avoid'] else spec[1])
        elif kind == 'output':
            if k == spec[1]:
                out[k] = make_seed(g, st, 'partial' if spec[2] in net['avoid'] else spec[2])
    return out


def put_seeds(net, seeds):
    for k, w in seeds.items():
        net['sigs'][k].sensitivity = np.array(w, copy=True) if np.ndim(w) else w


def draw_input(g, net, k, regime):
    """regime 0 = base sampler, r >= 1 = the (r-1)-th alternative regime of this input (base if it has none)"""
    al = net['alt'].get(k) or []
    if regime and al:
        return al[(regime - 1) % len(al)][1](g)
    return net['inputs'][k](g)


def observe_all(net):
    return {k: (canon(s.state), canon(s.sensitivity)) for k, s in net['sigs'].items()}


def fresh_cycle(pym, fm, recipe, data_seed, cur, seeds, pristine=None):
    """a freshly constructed identical network evaluated once on the inputs `cur` with the seeds `seeds`.
    pristine: a network built by build_lib that has never been evaluated; a deep copy of it is used instead of a
    new construction (pymoto inspects the call stack in every Signal/Module constructor: 8 ms each)"""
    if pristine is not None:
        import copy
        fr = copy.deepcopy(dict(sigs=pristine['sigs'], net=pristine['net']))
        fr['inputs'] = pristine['inputs']
    else:
        fr = build_lib(pym, fm, recipe, np.random.default_rng(data_seed))
    for k in sorted(fr['inputs']):
        fr['sigs'][k].state = np.array(cur[k], copy=True)
    fr['net'].response()
    put_seeds(fr, seeds)
    fr['net'].sensitivity()
    return observe_all(fr)


def compare(hist_obs, fresh_obs, tol, where, failed, floor=1.0):
    for k in fresh_obs:
        if not close(hist_obs[k][0], fresh_obs[k][0], tol, floor):
            failed.append(f'{where}: state of {k} differs from the fresh network')
        if not close(hist_obs[k][1], fresh_obs[k][1], tol, floor):
            failed.append(f'{where}: sensitivity of {k} differs from the fresh network')
        for j in (0, 1):        # the VALUE KIND (real / complex) of a result belongs to the result
            a, b = hist_obs[k][j], fresh_obs[k][j]
            if a is not None and b is not None and np.iscomplexobj(a) != np.iscomplexobj(b):
                failed.append(f"{where}: {'sensitivity' if j else 'state'} of {k} is "
                              f"{'complex' if np.iscomplexobj(a) else 'real'}-typed, {'complex' if np.iscomplexobj(b) else 'real'}"
                              '-typed in the fresh network')


def is_k02(recipe, e):
    return 'sparse' in recipe and 'eigensolve' in recipe and 'singular' in str(e)


# ============================================================================ stress histories (deliberate plans)
def stress_plans(npieces, nalt):
    """(focus piece, regime sequence) pairs run for a recipe on every run: every piece is the focus once, and the
    regime sequences go base -> alt -> base and alt -> base -> alt for every alternative regime"""
    seqs = [(0, 0, 0)]
    for a in range(1, nalt + 1):
        seqs += [(0, a, 0), (a, 0, a)]
    if nalt >= 2:
        seqs.append((1, 2, 0))
    n = max(npieces, len(seqs))
    return [(i % npieces, seqs[i % len(seqs)]) for i in range(n)]


def run_stress(pym, fm, recipe, seed, focus, regimes, stats=None, build='flat'):
    """deliberate history; every reset(); seeds; sensitivity() pass is compared with a fresh network.
    build: construction plan of the network the history runs on (PLANS); the fresh networks are constructed in one go.
    returns (failed predicates, replayable description)"""
    g = np.random.default_rng(seed)
    data_seed = int(g.integers(0, 2 ** 31))
    net = build_lib(pym, fm, recipe, np.random.default_rng(data_seed))
    built = rebuild(pym, net, build, data_seed)
    if stats:
        stats('library-construction:' + str(build))
    tol = net['tol']
    failed, log, cur, skipped = [], [], {}, []
    N = net['net']
    # never evaluated: cloned for the comparisons; the last comparison of the history constructs a new network
    pristine = build_lib(pym, fm, recipe, np.random.default_rng(data_seed))

    guess = dict(norm=0.0, ratio=0.0, pending=False)

    def design(regime):
        for k in sorted(net['inputs']):
            new = draw_input(g, net, k, regime)
            if k in cur and np.shape(new) != np.shape(cur[k]):
                N.reset()               # seeds of the old shape must not survive a change of shape
            cur[k] = new
            net['sigs'][k].state = np.array(new, copy=True)
        if net.get('track_guess'):      # the solution of the previous design is the initial guess of this response
            u0 = net['sigs']['u'].state
            guess['norm'] = 0.0 if u0 is None or np.shape(u0) != np.shape(cur['b']) else float(np.linalg.norm(u0))
            guess['pending'] = True
        N.response()
        log.append(f'design(regime {regime}); response')

    def one_pass(spec, check=True, reset=True, construct=False):
        if reset:
            N.reset()
            for k, s in net['sigs'].items():
                if not close(canon(s.sensitivity), None):
                    failed.append(f'pass {len(log)}: reset leaves a sensitivity on {k}')
            for tag in leftovers(N):        # every signal of the nested structure, found by walking the member tree
                failed.append(f'pass {len(log)}: reset leaves a sensitivity on the signal {tag} of the member tree')
        seeds = seeds_for(g, net, spec)
        put_seeds(net, seeds)
        if spec[0] == 'none':
            before = observe_all(net)
        log.append(('reset; ' if reset else '') + f'seed {spec}; sensitivity')
        try:
            N.sensitivity()
            fresh = fresh_cycle(pym, fm, recipe, data_seed, cur, seeds, None if construct else pristine) if check else None
        except Exception as e:
            if not is_k02(recipe, e):
                raise
            # known finding K02 (C01): the singular adjoint matrix A - lambda_i B happened to factorise with an exactly
            # zero pivot.  This pass is skipped (the network is cleaned by the reset() of the next pass).
            skipped.append(len(log))
            N.reset()
            return
        if stats:
            stats('pass:' + spec[0] + (':' + str(spec[-1]) if spec[0] in ('pattern', 'output') else ''))
        if spec[0] == 'none':
            after = observe_all(net)
            for k in after:
                if not close(after[k][1], before[k][1]) or not close(after[k][0], before[k][0], 0.0):
                    failed.append(f'pass {len(log)}: sensitivity() without seed changed {k}')
        if check:
            if guess['pending']:        # norm of the initial guess over norm of the (fresh) solution of this design
                guess['pending'] = False
                un = float(np.linalg.norm(fresh['u'][0]))
                guess['ratio'] = max(guess['ratio'], guess['norm'] / un if un > 0 else 0.0)
            compare(observe_all(net), fresh, tol, f'pass {len(log)} {spec}', failed, net['floor'])

    design(regimes[0])
    P = pieces_of(net)
    p = P[focus % len(P)]
    one_pass(('only', p))                                   # the focus piece at an EARLIER design
    one_pass(('pattern', 'full'))
    design(regimes[1])
    P = pieces_of(net)
    p = P[focus % len(P)]
    one_pass(('allbut', p))                                 # first pass after the new response: only OTHER pieces
    one_pass(('only', p))                                   # ... the focus piece again, without a new response
    one_pass(('pattern', 'cols'))
    one_pass(('pattern', 'full'))
    one_pass(('output', p[0], 'partial'), check=False, reset=False)    # accumulates onto the previous pass
    one_pass(('none',), check=False)
    design(regimes[2])
    P = pieces_of(net)
    p = P[focus % len(P)]
    one_pass(('pattern', 'partial'))
    one_pass(('pattern', 'zero'))
    one_pass(('output', p[0], 'single'))
    one_pass(('only', p), construct=True)
    N.reset()
    for k, s in net['sigs'].items():
        if not close(canon(s.sensitivity), None):
            failed.append(f'final reset leaves a sensitivity on {k}')
    for tag in leftovers(N):
        failed.append(f'final reset leaves a sensitivity on the signal {tag} of the member tree')
    return failed, dict(recipe=recipe, kind='stress', seed=int(seed), focus=int(focus), regimes=list(regimes), build=build,
                        construction=built, ops=log,
                        skipped_K02=skipped, **(dict(guess_ratio=guess['ratio']) if net.get('track_guess') else {}))


# ============================================================================ random histories
def lib_history(g, net, nops):
    """random admissible op list; values are drawn lazily when applied"""
    ops, fresh = [], False
    names = sorted(net['inputs'])
    nreg = 1 + max([len(v) for v in net['alt'].values()] + [0])
    for _ in range(nops):
        r = g.random()
        if r < 0.22:
            ops.append(('set', names[int(g.integers(0, len(names)))], int(g.integers(0, nreg)) if g.random() < 0.5 else 0))
            fresh = False
        elif r < 0.47:
            ops.append(('resp',)); fresh = True
        elif r < 0.67 and fresh:
            ops.append(('seed', net['seedable'][int(g.integers(0, len(net['seedable'])))],
                        PATTERNS[int(g.integers(0, len(PATTERNS)))] if g.random() < 0.6 else 'full'))
        elif r < 0.85 and fresh:
            ops.append(('sens',))
        else:
            ops.append(('reset',))
    return ops


def run_lib(pym, fm, recipe, seed, nops, stats=None, build='flat'):
    """random history run vs fresh run; returns list of failed predicates (strings) and a replayable description"""
    g = np.random.default_rng(seed)
    data_seed = int(g.integers(0, 2 ** 31))
    net = build_lib(pym, fm, recipe, np.random.default_rng(data_seed))
    built = rebuild(pym, net, build, data_seed)
    if stats:
        stats('library-construction:' + str(build))
    tol = net['tol']
    cur = {}
    for k in sorted(net['inputs']):
        cur[k] = net['inputs'][k](g)
        net['sigs'][k].state = np.array(cur[k], copy=True)
    ops = lib_history(g, net, nops)
    log = []
    responded = False
    regime_now = 0
    for op in ops:
        if op[0] == 'set':
            # a change of regime of an aligned network may change the VALUE KIND of the states (real <-> complex): like seeds
            # of an old shape, seeds of the old kind are not "current seeds" of the new evaluation
            reshaped = bool(net['aligned']) and op[2] != regime_now
            regime_now = op[2]
            for k in (sorted(net['inputs']) if net['aligned'] else [op[1]]):   # aligned: regimes of all inputs belong together
                new = draw_input(g, net, k, op[2])
                reshaped = reshaped or np.shape(new) != np.shape(cur[k])
                cur[k] = new
                net['sigs'][k].state = np.array(cur[k], copy=True)
            responded = False
            if reshaped:        # seeds of the old shape must not survive a change of shape: clean the network first
                net['net'].reset()
                log.append('reset(after reshape / change of value kind)')
        elif op[0] == 'resp':
            net['net'].response()
            responded = True
        elif op[0] == 'seed':
            st = net['sigs'][op[1]].state
            w = make_seed(g, st, 'partial' if op[2] in net['avoid'] else op[2])
            net['sigs'][op[1]].sensitivity = np.array(w, copy=True) if np.ndim(w) else w
        elif op[0] == 'sens':
            net['net'].sensitivity()
        else:
            net['net'].reset()
        log.append(':'.join(str(o) for o in op))
    failed = []
    # reset leaves no sensitivity behind
    net['net'].reset()
    for k, s in net['sigs'].items():
        if not close(canon(s.sensitivity), None):
            failed.append(f'reset leaves a sensitivity on {k}')
    for tag in leftovers(net['net']):
        failed.append(f'reset leaves a sensitivity on the signal {tag} of the member tree')
    # final cycle: with new inputs and a new response, or (when the last response is still current) without one
    without_response = responded and g.random() < 0.3
    if not without_response:
        rall = int(g.integers(0, 4)) if net['aligned'] else None
        for k in sorted(net['inputs']):
            if g.random() < 0.5 or net['aligned']:
                cur[k] = draw_input(g, net, k, rall if net['aligned'] else int(g.integers(0, 3)) if g.random() < 0.5 else 0)
                net['sigs'][k].state = np.array(cur[k], copy=True)
        net['net'].response()
    log.append('final cycle ' + ('without' if without_response else 'with') + ' a new response')
    # sensitivity() without any seed changes nothing
    before = observe_all(net)
    net['net'].sensitivity()
    after = observe_all(net)
    for k in after:
        if not close(after[k][1], before[k][1]) or not close(after[k][0], before[k][0], 0.0):
            failed.append(f'sensitivity() without seed changed {k}')
    seeds = {}
    for k in net['seedable']:
        if g.random() < 0.6 or not seeds and k == net['seedable'][-1]:
            pat = PATTERNS[int(g.integers(0, len(PATTERNS) - 1))] if g.random() < 0.5 else 'full'
            pat = 'partial' if pat in net['avoid'] else pat
            seeds[k] = make_seed(g, net['sigs'][k].state, pat)
            if stats:
                stats('final-seed:' + pat)
    put_seeds(net, seeds)
    net['net'].sensitivity()
    compare(observe_all(net), fresh_cycle(pym, fm, recipe, data_seed, cur, seeds), tol, 'final cycle', failed, net['floor'])
    return failed, dict(recipe=recipe, kind='random', seed=int(seed), nops=nops, build=build, construction=built, ops=log,
                        seeds=sorted(seeds))


# ============================================================================ bookkeeping observations (correspondence)
# The memories modelled in Model/Hist.v (Cholesky with LDL fallback, per-mode adjoint solvers of EigenSolve) are tied to
# the code by observing WHICH matrix an answer / a held factorisation belongs to, and letting Coq evaluate the model on
# tags (tag_answers, tag_adj_trace).
def _which(cands, x, b, trans='N'):
    """index (0-based) of the unique candidate matrix M with M x = b (normalised residual <= 1e-8), else -2"""
    hits = []
    for j, M in enumerate(cands):
        M = M.toarray() if hasattr(M, 'toarray') else np.asarray(M)
        Mt = M if trans == 'N' else M.T if trans == 'T' else M.conj().T
        r = np.linalg.norm(Mt @ x - b)
        den = np.linalg.norm(Mt) * np.linalg.norm(x) + np.linalg.norm(b)
        if np.all(np.isfinite(x)) and r <= 1e-8 * den:
            hits.append(j)
    return hits[0] if len(hits) == 1 else -2


def chol_sequence(g, pds, cplx=False, n=5):
    """pairwise clearly different Hermitian matrices with an all-positive diagonal; pds[k] says whether the k-th one is
    positive definite (spectrum chosen, not computed)"""
    Q0 = g.standard_normal((n, n)) + (1j * g.standard_normal((n, n)) if cplx else 0)
    Q, _ = np.linalg.qr(Q0)
    one = np.ones((n, n)) - np.eye(n)
    if cplx:
        ph = np.exp(1j * g.uniform(0, 2 * np.pi, n))
        one = (ph[:, None] * one) * ph.conj()[None, :]
    out = []
    for k, pd in enumerate(pds):
        d = (1.0 + k) + np.sort(g.uniform(0.5, 2.0, n))               # spectrum > 0, level differs from matrix to matrix
        A = (Q * d[None, :]) @ Q.conj().T
        if not pd:
            A = A + (d.max() + 2.0 + g.random()) * one                # same positive diagonal, eigenvalues below zero
        out.append(A if cplx else np.real(A))
    return out


def chol_bookkeeping(pym, g, pds, cplx, via):
    """returns (tags per step [N answer, T answer] (1-based), contract validations)
    via='solver': one SolverDenseCholesky object: update(A_k); solve(b); solve(b, trans='T')
    via='linsolve': one LinSolve module: response() on A_k (state u), seed on u; sensitivity() (sensitivity of b)"""
    import scipy.linalg as spla
    As = chol_sequence(g, pds, cplx)
    n = As[0].shape[0]
    valid = 0
    for A, pd in zip(As, pds):         # contract of the tag instance: cholesky succeeds iff positive definite
        try:
            spla.cholesky(A)
            ok = True
        except np.linalg.LinAlgError:
            ok = False
        if ok != bool(pd) or not np.all(np.real(np.diag(A)) > 0):
            return None, 0
        valid += 1
    b = g.standard_normal(n) + (1j * g.standard_normal(n) if cplx else 0)
    tags = []
    if via == 'solver':
        s = pym.solvers.SolverDenseCholesky()
        for A in As:
            s.update(A.copy())
            tags.append([_which(As, s.solve(b.copy()), b) + 1, _which(As, s.solve(b.copy(), trans='T'), b, 'T') + 1])
    else:
        sA, sb = pym.Signal('A', As[0].copy()), pym.Signal('b', b.copy())
        m = pym.LinSolve([sA, sb], pym.Signal('u'))
        for A in As:
            m.reset()
            sA.state = A.copy()
            m.response()
            tN = _which(As, np.asarray(m.sig_out[0].state), b) + 1
            w = g.standard_normal(n) + (1j * g.standard_normal(n) if cplx else 0)
            m.sig_out[0].sensitivity = w.copy()
            m.sensitivity()
            tags.append([tN, _which(As, np.asarray(sb.sensitivity), w, 'T') + 1])
    return tags, valid


def eig_bookkeeping(pym, g, ops, generalized, nmodes=3, n=10):
    """ops: list of None (new design; response) | list of bools (reset; seed the eigenvectors of these modes; sensitivity).
    returns per pass the list over modes of None | [k, i] = the solver of that mode holds the factorisation of
    A_k - lambda_i^(k) B_k (k = 1-based index of the response)"""
    import scipy.sparse as sps
    G = [g.standard_normal((n, n)) for _ in range(3)]
    A0 = 6.0 * np.eye(n) + np.diag(np.arange(n) * 1.3)
    As = [0.3 * a @ a.T / n for a in G]
    sA = pym.Signal('A')
    ins = [sA]
    if generalized:
        sB = pym.Signal('B')
        ins.append(sB)
        H = [g.standard_normal((n, n)) for _ in range(3)]
        Bs = [0.03 * a @ a.T / n for a in H]
    mE = pym.EigenSolve(ins, [pym.Signal('lam'), pym.Signal('Q')], nmodes=nmodes)
    cands, labels, out = [], [], []
    k = 0
    for op in ops:
        if op is None:
            k += 1
            x = 0.5 + 1.5 * g.random(3)
            A = A0 + sum(xi * Ai for xi, Ai in zip(x, As))
            sA.state = sps.csc_matrix(A)
            B = np.eye(n)
            if generalized:
                B = np.eye(n) + sum(xi * Bi for xi, Bi in zip(x, Bs))
                sB.state = sps.csc_matrix(B)
            mE.response()
            W = np.array(mE.sig_out[0].state)
            for i in range(nmodes):
                cands.append(A - W[i] * B)
                labels.append([k, i])
        else:
            mE.reset()
            dQ = np.zeros_like(mE.sig_out[1].state)
            for i, sd in enumerate(op):
                if sd:
                    dQ[:, i] = g.standard_normal(dQ.shape[0])
            mE.sig_out[1].sensitivity = dQ
            mE.sensitivity()
            cells = []
            solvers = getattr(mE, 'solvers', None)
            if solvers is None:     # the attribute may carry another name: any list of nmodes entries, each None or a solver
                for v in vars(mE).values():
                    if isinstance(v, list) and len(v) == nmodes and all(e is None or hasattr(e, 'solve') for e in v):
                        solvers = v
            for i in range(nmodes):
                s = None if solvers is None else solvers[i]
                if s is None:
                    cells.append(None)
                    continue
                r = g.standard_normal(n)
                try:
                    xs = np.asarray(s.solve(r.copy())).ravel()
                except Exception:
                    cells.append(None)       # a solver object that holds no factorisation
                    continue
                j = _which(cands, xs, r)
                cells.append(labels[j] if j >= 0 else [-2, -2])
            out.append(cells)
    return out


# ---- detections of LinSolve / LDAWrapper (Model/Hist.v LinSolveDetectModel): value kind and decoupled-dof partition
def det_sequence(g, specs, n):
    """non-symmetric n x n matrices (class constant: general, LU), spec = (complex?, [decoupled dofs]): a decoupled dof
    carries ONLY its diagonal entry; the other off-diagonal positions follow one random base pattern"""
    base = g.random((n, n)) < 0.6
    out = []
    for cplx, dec in specs:
        P = base.copy()
        for d in dec:
            P[d, :] = False
            P[:, d] = False
        V = g.uniform(0.2, 0.9, (n, n)) * np.where(g.random((n, n)) < 0.5, -1.0, 1.0)
        A = np.where(P, V, 0.0)
        np.fill_diagonal(A, 5.0 + g.random(n))
        cp = [i for i in range(n) if i not in dec]
        A[cp[0], cp[1]], A[cp[1], cp[0]] = 0.8, -0.4            # stays non-symmetric whatever the pattern
        if cplx:
            A = A + 1j * np.where(A != 0, g.uniform(0.2, 0.9, (n, n)), 0.0)
        out.append(A)
    return out


def expected_partition(A):
    """independent formula: dofs whose row and column hold nothing but a non-zero diagonal entry"""
    A = A.toarray() if hasattr(A, 'toarray') else np.asarray(A)
    off = A - np.diag(np.diag(A))
    return [int(i) for i in range(A.shape[0]) if A[i, i] != 0 and not np.any(off[i, :]) and not np.any(off[:, i])]


def det_bookkeeping(pym, g, specs, n, via, sparse):
    """returns (matrices, observations): per matrix [kind, decoupled dofs ...]
    via='linsolve': ONE LinSolve module (LDAWrapper inside): response on A_k; seed; sensitivity; kind = 1 iff the matrix
                    sensitivity it returns is complex-typed (the rhs and the seed are complex whenever LinSolve accepts that,
                    so a real-typed dA means the real part was taken); partition = solver.diagonal_idx
    via='lda':      ONE LDAWrapper object: update(A_k); partition = diagonal_idx (no kind)"""
    import scipy.sparse as sps
    As = det_sequence(g, specs, n)
    conv = (lambda M: sps.csc_matrix(M)) if sparse else (lambda M: np.array(M))
    obs = []
    if via == 'lda':
        s = pym.solvers.LDAWrapper(pym.solvers.SolverSparseLU() if sparse else pym.solvers.SolverDenseLU())
        for A in As:
            s.update(conv(A))
            s.solve(g.standard_normal(n))
            obs.append([int(i) for i in np.asarray(s.diagonal_idx).ravel()])
        return As, obs
    sA, sb = pym.Signal('A'), pym.Signal('b')
    m = pym.LinSolve([sA, sb], pym.Signal('u'))
    for A in As:
        cb = np.iscomplexobj(A) or not sparse
        m.reset()
        sA.state = conv(A)
        sb.state = g.standard_normal(n) + (1j * g.standard_normal(n) if cb else 0)
        m.response()
        m.sig_out[0].sensitivity = g.standard_normal(n) + (1j * g.standard_normal(n) if cb else 0)
        m.sensitivity()
        dA = sA.sensitivity
        idx = getattr(m.solver, 'diagonal_idx', None)
        obs.append([int(np.iscomplexobj(dA.todense() if hasattr(dA, 'todense') and not isinstance(dA, np.ndarray) else dA))] +
                   ([-7] if idx is None else [int(i) for i in np.asarray(idx).ravel()]))
    return As, obs
