"""C05 — every linear solver solves the requested (transposed/adjoint) system."""
import os, json, warnings, itertools
from fractions import Fraction
import numpy as np
import scipy.sparse as sps
import scipy.linalg as spla
import vlib
import py2coq
import gen_C05
import linsys_common as lc
from linsys_common import CQ, cq_matrix, cq_op, cq_solve, cq_mul, coq_check_solve, TCODE

AUTO_HEADER = '''From Coq Require Import ZArith List Bool.
From Pymoto Require Import Base.Num Model.AutoSolver.
Import ListNotations.
Definition o (z : Z) : option bool := if (z =? 0)%Z then Some false else if (z =? 1)%Z then Some true else None.
'''
ERR_HEADER = '''From Coq Require Import ZArith List Bool.
From Pymoto Require Import Base.Num.
Import ListNotations.
Open Scope Z_scope.
'''
ERR_CODE = {'none': 0, 'TypeError': 1, 'ValueError': 2, 'IndexError': 3, 'AssertionError': 4, 'RuntimeError': 5, 'Other': 6}
TOL = 1e-9


def opmat(A, t):
    A = A.toarray() if sps.issparse(A) else np.asarray(A)
    return A if t == 'N' else A.T if t == 'T' else A.conj().T


# ----------------------------------------------------------------------------- (T) translator + bridges
def translate(ctx):
    ok_all = True
    jobs = [('SolverGen.v', gen_C05.gen_dense, 'SolverBridge.v', 'pymoto/solvers/dense.py + sparse.py: solve() terms'),
            ('CGGen.v', gen_C05.gen_cg, 'CGBridge.v', 'pymoto/solvers/iterative.py: CG loop body'),
            ('AutoGen.v', gen_C05.gen_auto, 'AutoBridge.v', 'pymoto/solvers/auto_determine.py: decision procedure')]
    for gname, fn, bname, what in jobs:
        err = ''
        try:
            text = fn(vlib.REPO)
            p = ctx.write_gen(gname, text)
            ok, _, err = vlib.compile_file(ctx, p, f'gen:{gname} ({what}) translates and compiles', 'translator')
        except py2coq.Unsupported as e:
            ok, err = False, str(e)
            ctx.obligation(f'gen:{gname} ({what}) translates and compiles', 'translator', False, err)
        if ok:
            ok, _, err = vlib.compile_file(ctx, os.path.join(ctx.bridge_dir, bname),
                                           f'bridge:{bname} (generated = model, all arguments)', 'bridge')
        if not ok:
            ok_all = False
            ctx.violation('proof', what, 'generated terms equal the committed model', 'translator/bridge',
                          dict(error=err[-3000:]), theorem=f'BridgeC05.{bname[:-2]}')
    return ok_all


# ----------------------------------------------------------------------------- library contracts (oracle validation)
def close(a, b, scale=None):
    a, b = np.asarray(a), np.asarray(b)
    if a.shape != b.shape:
        return False
    s = max(1.0, float(np.max(np.abs(b))) if b.size else 1.0) if scale is None else scale
    return bool(np.all(np.abs(a - b) <= TOL * s)) if a.size else True


def validate_contracts(ctx, solver, A, rng):
    """every library contract used as a hypothesis of the C05 theorems, on the solver's own stored factors.
    Returns list of failed contract names."""
    from pymoto.solvers import SolverDiagonal, SolverDenseQR, SolverDenseLU, SolverDenseCholesky, SolverDenseLDL, SolverSparseLU
    bad = []
    Ad = A.toarray() if sps.issparse(A) else np.asarray(A)
    n = Ad.shape[0]
    I = np.eye(n)
    E = np.array([[complex(rng.randint(-3, 3), rng.randint(-3, 3)) for _ in range(2)] for _ in range(n)])

    def ok(name, cond):
        ctx.oracle_validation[name] = ctx.oracle_validation.get(name, 0) + 1
        if not cond:
            bad.append(name)

    def tri(name, F, lower, unit):
        for t, tt in (('N', 0), ('T', 'T'), ('H', 'C')):
            y = spla.solve_triangular(F, E, trans=tt, lower=lower, unit_diagonal=unit)
            ok(f'solve_triangular[{name},lower={lower},unit={unit}]: op_t(F) y = b', close(opmat(F, t) @ y, E))
    if isinstance(solver, SolverDiagonal):
        ok('diagonal: A = diag(self.diag)', close(np.diag(solver.diag), Ad))
        ok('diagonal: d * (b / d) = b', close(solver.diag[:, None] * (E / solver.diag[:, None]), E))
    elif isinstance(solver, SolverDenseQR):
        q, r = solver.q, solver.r
        ok('qr: A = Q R', close(q @ r, Ad))
        ok('qr: Q^H Q = 1', close(q.conj().T @ q, I))
        ok('qr: Q Q^H = 1', close(q @ q.conj().T, I))
        tri('R', r, False, False)
    elif isinstance(solver, SolverDenseLU):
        p, l, u = solver.p, solver.l, solver.u
        ok('lu: A = P L U', close(p @ l @ u, Ad))
        ok('lu: P^T P = 1 = P P^T, P real', close(p.T @ p, I) and close(p @ p.T, I) and not np.any(np.imag(p)))
        tri('L', l, True, False)
        tri('U', u, False, False)
    elif isinstance(solver, SolverDenseCholesky) and solver.success:
        U = solver.U
        ok('cholesky: A = U^H U (upper factor)', close(U.conj().T @ U, Ad))
        tri('U', U, False, False)
    elif isinstance(solver, (SolverDenseLDL, SolverDenseCholesky)):
        s = solver if isinstance(solver, SolverDenseLDL) else solver.backup_solver
        l, d, p = s.l, s.d, s.p
        lt = l.conj().T if s.hermitian else l.T
        ok('ldl: A = L D L^H (hermitian) / L D L^T (symmetric)', close(l @ d @ lt, Ad))
        ok('ldl: p is a permutation', sorted(np.asarray(p).tolist()) == list(range(n)))
        d1 = s.dinv(np.eye(n))
        ok('ldl: d1 D = 1 = D d1', close(d1 @ d, I) and close(d @ d1, I))
        ok('ldl: dinvH(b) = d1^H b', close(s.dinvH(E), d1.conj().T @ E))
        ok('ldl: lp = L[p, :] is unit lower triangular', close(np.tril(s.lp), s.lp) and close(np.diag(s.lp), np.ones(n)))
        tri('L[p,:]', s.lp, True, True)
    elif isinstance(solver, SolverSparseLU):
        for t in 'NTH':
            try:
                b = E if np.iscomplexobj(Ad) else E.real.copy()
                y = solver.inv.solve(b, trans=t)
                ok('splu: op_t(A) solve(b, t) = b', close(opmat(Ad, t) @ y, b))
            except Exception:
                ok('splu: op_t(A) solve(b, t) = b', False)
    return bad


# ----------------------------------------------------------------------------- case generation
def solver_menu(pym, cls, cplx, sparse):
    """(label, constructor) list of solvers whose documented class contains the matrix class"""
    S = pym.solvers
    menu = []
    herm = cls in lc.HERMITIAN
    symm = cls in ('spd', 'snd', 'indef', 'zerodiag', 'csym') or (cls == 'diag')
    if sparse:
        menu.append(('SolverSparseLU', lambda: S.SolverSparseLU()))
        if cls == 'diag':
            menu.append(('SolverDiagonal', lambda: S.SolverDiagonal()))
    else:
        menu.append(('SolverDenseQR', lambda: S.SolverDenseQR()))
        menu.append(('SolverDenseLU', lambda: S.SolverDenseLU()))
        if cls == 'diag':
            menu.append(('SolverDiagonal', lambda: S.SolverDiagonal()))
        if herm:
            menu.append(('SolverDenseCholesky', lambda: S.SolverDenseCholesky()))
            menu.append(('SolverDenseLDL(None)', lambda: S.SolverDenseLDL()))
            menu.append(('SolverDenseLDL(True)', lambda: S.SolverDenseLDL(hermitian=True)))
            if not cplx:
                menu.append(('SolverDenseLDL(False)', lambda: S.SolverDenseLDL(hermitian=False)))
        if cls == 'csym':
            menu.append(('SolverDenseLDL(None)', lambda: S.SolverDenseLDL()))
            menu.append(('SolverDenseLDL(False)', lambda: S.SolverDenseLDL(hermitian=False)))
    menu.append(('auto_determine_solver', None))
    return menu


def storage(A, kind):
    if kind == 'dense':
        return A
    return {'csc': sps.csc_matrix, 'csr': sps.csr_matrix, 'coo': sps.coo_matrix}[kind](A)


def kind_of(solver):
    """observed result of auto_determine_solver as a Coq solver_kind term"""
    n = type(solver).__name__

    def ob(v):
        return 'None' if v is None else '(Some true)' if v else '(Some false)'
    if n == 'SolverDenseLDL':
        return f'(KDenseLDL {ob(solver.hermitian)})'
    if n == 'SolverSparsePardiso':
        return f'(KPardiso {ob(solver.kw["symmetric"])} {ob(solver.kw["hermitian"])} {ob(solver.kw["positive_definite"])})'
    return {'SolverDenseQR': 'KDenseQR', 'SolverDiagonal': 'KDiagonal', 'SolverSparseCholeskyScikit': 'KSparseCholScikit',
            'SolverSparseCholeskyCVXOPT': 'KSparseCholCVXOPT', 'SolverSparseLU': 'KSparseLU',
            'SolverDenseCholesky': 'KDenseCholesky', 'SolverDenseLU': 'KDenseLU'}[n]


def coq_auto(flags, avail, ov):
    def b(v):
        return 'true' if v else 'false'

    def oz(v):
        return '(o 2)' if v is None else '(o 1)' if v else '(o 0)'
    f = flags
    return ('auto_solver ' + ' '.join(b(f[k]) for k in ('sparse', 'square', 'diag', 'cplx', 'herm', 'sym', 'dpos', 'dneg')) + ' '
            + ' '.join(b(a) for a in avail) + ' ' + ' '.join(oz(ov.get(k)) for k in ('isdiagonal', 'ishermitian', 'issymmetric', 'ispositivedefinite')))


class _Stub:
    """stands for an optional-package solver whose package is absent: records constructor arguments only"""
    defined = True

    def __init__(self, **kw):
        self.kw = kw


def auto_with_availability(pym, A, avail, ov):
    """call the real auto_determine_solver with the availability flags of the optional packages patched from outside"""
    import pymoto.solvers.auto_determine as ad
    names = ['SolverSparsePardiso', 'SolverSparseCholeskyScikit', 'SolverSparseCholeskyCVXOPT']
    saved = {k: getattr(ad, k) for k in names}
    try:
        for k, a in zip(names, avail):
            if a:
                setattr(ad, k, type(k, (_Stub,), {}))
        return ad.auto_determine_solver(A, **ov)
    finally:
        for k in names:
            setattr(ad, k, saved[k])


def run(ctx):
    warnings.simplefilter('ignore')
    import pymoto as pym
    ctx.rule = ('matrices of every class (diagonal, SPD/HPD, negative definite, symmetric/Hermitian indefinite, zero-diagonal '
                '(2x2 pivots), complex symmetric, general, row-permuted, triangular) with integer / Gaussian-integer entries, '
                'non-singular by (permuted) strict diagonal dominance, n = 1..8, dense/csc/csr/coo storage; every solver whose '
                'documented class contains the matrix x trans N/T/H x right-hand sides (n), (n,1), (n,k) incl. dependent, duplicate, '
                'zero and n+1 columns, real and complex.  A case is non-trivial when n >= 2; distinct by (solver, class, n, '
                'storage, trans, rhs kind, values).  auto_determine_solver: every matrix x overrides x 8 availability patterns.')
    ctx.assumptions += ['theorems are over exact arithmetic in an arbitrary star ring; floating-point accuracy of LAPACK/SuperLU is '
                        'validated (1e-9 relative, in exact Q inside Coq against the exact rational solution), not proved',
                        'convergence of CG / multigrid is run-time behaviour (post-condition checked), not proved',
                        'pypardiso / scikit-sparse / cvxopt are absent: only their decision-table rows are covered']
    ctx.trusted += ['Print Assumptions: all C05 theorems are closed under the global context (mathcomp ssreflect/algebra, no axioms)',
                    'tools/gen_C05.py (T-alg / T-dec translators, fail-closed) and the reading of numpy/scipy expressions it embodies '
                    '(@ = product, .T/.conj(), x[p] = P x, u[p] = x as P^T x for a permutation p, solve_triangular flags)',
                    'library contracts (scipy.linalg.qr/lu/cholesky/ldl/solve_triangular, numpy division, SuperLU solve, np.linalg.inv): '
                    'premises of the theorems, validated on every factorisation the harness creates (oracle_validation)',
                    'exact rational reference solutions are computed in Python (fractions) and CHECKED inside Coq (op_t(A) X = B exactly)']
    vlib.audit(ctx)
    if not vlib.ensure_static(ctx):
        return
    gen_ok = translate(ctx)
    vlib.check_props(ctx)

    rng = ctx.rng
    checks, labels, meta = [], [], []
    auto_checks, auto_labels = [], []
    err_checks, err_labels = [], []
    oracle_fail = []

    def add_solve_case(label, A_exact, t, b, x, Ad, solver_label, cls, replay):
        """x: implementation's answer (numpy).  Adds the in-Coq check and runs the implementation-side oracle."""
        B = cq_matrix(b)
        X = cq_solve(cq_op(A_exact, t), B)
        assert X is not None
        xs = np.asarray(x)
        shape_ok = xs.shape == np.asarray(b).shape
        want_c = np.iscomplexobj(Ad) or np.iscomplexobj(b)
        dtype_ok = (xs.dtype.kind == 'c') == want_c and xs.dtype.itemsize == (16 if want_c else 8)
        if shape_ok:
            chk = coq_check_solve(A_exact, t, X, B, xs)
        else:
            chk = 'false'
        checks.append(f'({chk}) && {vlib.blit(shape_ok)} && {vlib.blit(dtype_ok)}')
        labels.append(label)
        meta.append(replay)
        ctx.case(label, len(A_exact) >= 2, sample=dict(case=str(label), coq=checks[-1][:300]))
        # implementation-side oracle: residual of the requested system, shape, dtype class
        ctx.search_evaluations += 1
        res_ok = shape_ok and close(opmat(Ad, t) @ xs, np.asarray(b, dtype=complex if want_c else float))
        if not (res_ok and shape_ok and dtype_ok):
            pred = 'op_trans(A) x = b' if not res_ok else 'x has the shape and dtype class of b'
            oracle_fail.append(len(checks) - 1)
            ctx.violation('impl-violates', solver_label.split('(')[0] + '.solve', pred, f'{cls} matrix', replay,
                          expected=[[str(v) for v in r] for r in X], got=np.asarray(x).tolist().__repr__()[:2000])

    # ---- corpus first
    corpus = load_corpus()
    mats = []
    for c in corpus:
        A = np.array([[complex(*v) if isinstance(v, list) else v for v in row] for row in c['A']])
        A = A.astype(complex) if np.iscomplexobj(A) and np.any(A.imag) or c.get('complex') else A.real.astype(float)
        mats.append((c.get('class', 'corpus'), A, c.get('name', 'corpus'), True))
    # ---- generated matrices
    nmat = 56 if ctx.quick() else 450
    sizes = [1, 2, 3, 3, 4, 4, 5, 5, 6, 7, 8]
    k = 0
    while len(mats) < len(corpus) + nmat:
        cplx = k % 2 == 1
        clss = lc.CLASSES_CPLX if cplx else lc.CLASSES_REAL
        cls = clss[(k // 2) % len(clss)]
        n = sizes[rng.randrange(len(sizes))]
        if cls in ('zerodiag', 'hzerodiag'):
            n = max(2, n + n % 2)
        if cls in ('indef', 'hindef', 'general', 'permuted', 'csym', 'lower', 'upper') and n < 2:
            n = 2
        k += 1
        mats.append((cls, lc.gen_matrix(rng, cls, n, cplx), f'gen{k}', False))

    from pymoto.solvers import auto_determine_solver
    for (cls, A, name, from_corpus) in mats:
        n = A.shape[0]
        cplx = np.iscomplexobj(A)
        A_exact = cq_matrix(A)
        fl = lc.classify(A)
        if cls == 'corpus':
            cls = 'diag' if fl['diag'] else ('spd' if fl['herm'] and fl['dpos'] and not cplx else 'general')
        ctx.count(f'class:{cls}')
        ctx.count(f'n:{n}')
        ctx.count('complex' if cplx else 'real')
        for stor in (['dense', 'csc'] if k % 3 else ['dense', 'csr', 'coo']) if not from_corpus else ['dense', 'csc', 'csr']:
            As = storage(A, stor)
            sparse = stor != 'dense'
            for slabel, ctor in solver_menu(pym, cls, cplx, sparse):
                try:
                    solver = auto_determine_solver(As) if ctor is None else ctor()
                    solver.update(As)
                except Exception as e:  # a solver that cannot factorise a matrix of its own class
                    ctx.violation('impl-violates', slabel.split('(')[0] + '.update', 'factorisation of a matrix of the documented class',
                                  f'{cls} matrix', dict(solver=slabel, A=A.tolist().__repr__(), storage=stor, error=repr(e)))
                    continue
                ctx.count(f'solver:{slabel}')
                if type(solver).__name__ == 'SolverDenseCholesky':
                    ctx.count('cholesky:success' if solver.success else 'cholesky:fallback')
                if type(solver).__name__ == 'SolverDenseLDL' or (type(solver).__name__ == 'SolverDenseCholesky' and not solver.success):
                    s_ = solver if type(solver).__name__ == 'SolverDenseLDL' else solver.backup_solver
                    ctx.count('ldl:D diagonal' if np.array_equal(s_.d, np.diag(np.diag(s_.d))) else 'ldl:D with 2x2 blocks')
                badc = validate_contracts(ctx, solver, As, rng)
                for bc in badc:
                    ctx.violation('correspondence', type(solver).__name__ + '.update', 'library contract: ' + bc, f'{cls} matrix',
                                  dict(solver=slabel, A=A.tolist().__repr__(), storage=stor),
                                  note='a premise of the C05 theorem does not hold for the factors the solver stored')
                # right-hand sides
                kinds = ['vec', rng.choice(['col', 'blk', 'dup', 'wide', 'zero'])]
                for bk in kinds:
                    bc_ = cplx or (rng.random() < 0.3 and not sparse)   # complex rhs for a real sparse matrix: malformed stream
                    b = lc.gen_rhs(rng, n, bk, bc_)
                    for t in 'NTH':
                        replay = dict(solver=slabel, storage=stor, cls=cls, A=A.tolist().__repr__(), b=b.tolist().__repr__(), trans=t)
                        ctx.count(f'trans:{t}')
                        ctx.count(f'rhs:{bk}:{"complex" if bc_ else "real"}')
                        try:
                            if rng.random() < 0.3:   # direct solvers accept (and ignore) an initial guess
                                ctx.count('direct solver with x0')
                                x = solver.solve(b.copy(), x0=np.ones_like(b), trans=t)
                            else:
                                x = solver.solve(b.copy(), trans=t)
                        except Exception as e:
                            ctx.evaluations += 1
                            ctx.violation('impl-violates', slabel.split('(')[0] + '.solve', 'solve raises for a matrix of the documented class',
                                          f'{cls} matrix', dict(replay, error=repr(e)))
                            continue
                        add_solve_case((slabel, cls, n, stor, t, bk, name), A_exact, t, b, x, A, slabel, cls, replay)
            # ---- (iii) decision table, all availability patterns, overrides
            flags = dict(fl, sparse=sparse, square=True)
            ovs = [dict(), dict(ishermitian=fl['herm']), dict(issymmetric=fl['sym']), dict(isdiagonal=fl['diag']),
                   dict(ishermitian=fl['herm'], issymmetric=fl['sym']), dict(ispositivedefinite=cls in lc.DEFINITE),
                   dict(ishermitian=not fl['herm']), dict(issymmetric=not fl['sym'], ishermitian=fl['herm']),
                   dict(isdiagonal=not fl['diag']), dict(ispositivedefinite=True), dict(ispositivedefinite=False, ishermitian=True)]
            for ov in ovs:
                for avail in itertools.product((False, True), repeat=3) if sparse else [(False, False, False), (True, True, True)]:
                    try:
                        got = kind_of(auto_with_availability(pym, As, avail, ov))
                    except AssertionError:
                        got = 'KAssertionError'
                    except Exception as e:
                        ctx.evaluations += 1
                        ctx.violation('impl-violates', 'auto_determine_solver', 'returns a solver for every non-singular square matrix',
                                      f'{cls} matrix', dict(A=A.tolist().__repr__(), storage=stor, overrides=ov, avail=avail, error=repr(e)))
                        continue
                    auto_checks.append(f'kind_eqb ({coq_auto(flags, avail, ov)}) {got}')
                    auto_labels.append(dict(A=A.tolist().__repr__(), storage=stor, overrides=ov, avail=avail, got=got))
                    ctx.case(('auto', name, stor, tuple(sorted(ov.items())), avail), n >= 2)
                    ctx.count('auto:' + got.strip('()').split()[0])
        # non-square: QR
    # non-square matrices go to QR
    for shp in ((2, 3), (3, 2)):
        for sp in (False, True):
            Ans = np.arange(6, dtype=float).reshape(shp)
            got = kind_of(auto_determine_solver(sps.csc_matrix(Ans) if sp else Ans))
            fl = dict(sparse=sp, square=False, diag=False, cplx=False, herm=False, sym=False, dpos=False, dneg=False)
            auto_checks.append(f'kind_eqb ({coq_auto(fl, (False, False, False), {})}) {got}')
            auto_labels.append(dict(shape=shp, sparse=sp, got=got))
            ctx.case(('auto-nonsquare', shp, sp), True)

    # ---- malformed stream: only the exception class is compared (invalid trans -> TypeError, complex rhs on real SuperLU -> TypeError)
    S = pym.solvers
    A3 = np.array([[4., 1, 0], [1, 5, 2], [0, 2, 6]])
    bad_trans_expect = {}
    tree, _ = py2coq.parse_file(os.path.join(vlib.REPO, 'pymoto/solvers/dense.py'))
    for ctor, arg in ((S.SolverDenseQR, A3), (S.SolverDenseLU, A3), (S.SolverDenseCholesky, A3), (S.SolverDenseLDL, A3),
                      (S.SolverSparseLU, sps.csc_matrix(A3)), (S.CG, sps.csc_matrix(A3))):
        for tr_ in ('X', 'C', 'n', None):
            try:
                ctor(arg).solve(np.ones(3), trans=tr_)
                got = 'none'
            except Exception as e:
                got = lc.exc_enum(e)
            err_checks.append(f'{ERR_CODE[got]} =? {ERR_CODE["TypeError"]}')
            err_labels.append(dict(solver=ctor.__name__, trans=tr_, got=got, expected='TypeError'))
            ctx.case(('badtrans', ctor.__name__, tr_), True)
            ctx.count('malformed:invalid trans')
    try:
        S.SolverSparseLU(sps.csc_matrix(A3)).solve(np.array([1j, 2, 3]))
        got = 'none'
    except Exception as e:
        got = lc.exc_enum(e)
    err_checks.append(f'{ERR_CODE[got]} =? {ERR_CODE["TypeError"]}')
    err_labels.append(dict(solver='SolverSparseLU', case='complex rhs for real matrix', got=got, expected='TypeError'))
    ctx.case(('complex-rhs-real-sparse',), True)
    ctx.count('malformed:complex rhs real sparse')

    # ---- evaluate inside Coq
    failing, err = vlib.run_cases(ctx, 'solve', lc.CQ_HEADER, checks, chunk=60)
    failing2, err2 = vlib.run_cases(ctx, 'auto', AUTO_HEADER, auto_checks, chunk=1500)
    failing3, err3 = vlib.run_cases(ctx, 'err', ERR_HEADER, err_checks, chunk=500)
    allerr = '\n'.join(e for e in (err, err2, err3) if e)
    ctx.obligation('correspondence:case files evaluated', 'correspondence', not allerr, allerr)
    if allerr:
        ctx.violation('correspondence', 'solvers', 'case files compile', 'harness', dict(error=allerr[-3000:]), theorem='cases')
    for idx in failing[:20]:
        if idx in oracle_fail:
            continue   # already reported with a concrete implementation-level violation
        ctx.violation('correspondence', str(labels[idx][0]) + '.solve', 'x equals the exact solution of the requested system (1e-9), shape, dtype',
                      f'{labels[idx][1]} matrix', dict(label=[str(v) for v in labels[idx]], replay=meta[idx]),
                      note='exact rational solution (checked inside Coq) and implementation differ')
    for idx in failing2[:20]:
        ctx.violation('correspondence', 'auto_determine_solver', 'returned solver class == Model/AutoSolver.v', 'decision table',
                      auto_labels[idx], note='Coq model: ' + auto_checks[idx][:400])
    for idx in failing3[:20]:
        ctx.violation('impl-violates', err_labels[idx]['solver'] + '.solve', 'invalid request raises TypeError', 'malformed request',
                      err_labels[idx], expected='TypeError', got=err_labels[idx]['got'])
    ctx.extra['solve_cases'] = len(checks)
    ctx.extra['auto_cases'] = len(auto_checks)

    # ---- (iv) CG with every preconditioner: post-condition only
    cg_sweep(ctx, pym)


def load_corpus():
    d = os.path.join(vlib.ROOT, 'corpus', 'C05')
    out = []
    if os.path.isdir(d):
        for fn in sorted(os.listdir(d)):
            if fn.endswith('.json'):
                with open(os.path.join(d, fn)) as f:
                    j = json.load(f)
                out += j if isinstance(j, list) else [j]
    return out


# ----------------------------------------------------------------------------- CG sweep (testing: search_evaluations)
def cg_sweep(ctx, pym):
    S = pym.solvers
    rng = ctx.rng
    tol = 1e-7
    nrun = 0

    def check(label, A, solver, b, t, x0, cls):
        nonlocal nrun
        nrun += 1
        ctx.search_evaluations += 1
        ctx.count('cg:' + label)
        ctx.count('cg:trans:' + t)
        ctx.count('cg:x0' if x0 is not None else 'cg:no x0')
        replay = dict(solver='CG', preconditioner=label, A=(A.toarray() if sps.issparse(A) else A).tolist().__repr__()[:6000],
                      b=b.tolist().__repr__()[:3000], trans=t, x0=None if x0 is None else x0.tolist().__repr__()[:3000])
        with warnings.catch_warnings(record=True) as w:
            warnings.simplefilter('always')
            try:
                x = solver.solve(b.copy(), x0=None if x0 is None else x0.copy(), trans=t)
            except Exception as e:
                ctx.violation('impl-violates', 'CG.solve', 'solve raises for a Hermitian positive definite matrix', cls, dict(replay, error=repr(e)))
                return
        warned = any('Maximum iterations' in str(m.message) for m in w)
        Ao = opmat(A, t)
        r = Ao @ (x.reshape(x.shape[0], -1)) - b.reshape(b.shape[0], -1)
        rel = np.linalg.norm(r, axis=0) / np.linalg.norm(b.reshape(b.shape[0], -1), axis=0)
        want_c = np.iscomplexobj(Ao) or np.iscomplexobj(b)
        if x.shape != b.shape or (x.dtype.kind == 'c') != want_c:
            ctx.violation('impl-violates', 'CG.solve', 'x has the shape and dtype class of b', cls, replay, expected=str(b.shape), got=str(x.shape) + str(x.dtype))
        elif warned or not np.all(rel <= 10 * tol):
            ctx.violation('impl-violates', 'CG.solve', '||op_trans(A) x - b|| <= 10 tol ||b|| without max-iteration warning', cls,
                          replay, expected=f'<= {10 * tol}', got=rel.tolist().__repr__())

    def rhs(n, kind, cplx):
        # CG's exit test is relative to ||b|| per column: a zero column is outside its domain (tval = inf/nan)
        while True:
            b = lc.gen_rhs(rng, n, kind, cplx)
            if np.all(np.any(b.reshape(n, -1) != 0, axis=0)):
                return b

    nm = 10 if ctx.quick() else 60
    for k in range(nm):
        cplx = k % 2 == 1
        n = rng.choice([2, 3, 4, 5, 6, 8, 12])
        A = lc.gen_matrix(rng, 'hpd' if cplx else 'spd', n, cplx)
        for stor in ('dense', 'csc'):
            As = storage(A, stor)
            pcs = [('Preconditioner', lambda: S.Preconditioner()), ('DampedJacobi', lambda: S.DampedJacobi(w=rng.choice([0.5, 1.0])))]
            if stor != 'dense':
                pcs += [('SOR', lambda: S.SOR(w=rng.choice([0.8, 1.0, 1.3]))), ('ILU', lambda: S.ILU())]
            for pl, pc in pcs:
                solver = S.CG(As, preconditioner=pc(), tol=tol, maxit=1000, restart=rng.choice([1, 3, 50]))
                for t in 'NTH':
                    kind = rng.choice(['vec', 'col', 'blk', 'dup', 'wide'])
                    b = rhs(n, kind, cplx)
                    x0 = None
                    if rng.random() < 0.5:
                        x0 = (lc.gen_rhs(rng, n, 'vec', cplx) if b.ndim == 1 else
                              np.stack([lc.gen_rhs(rng, n, 'vec', cplx) for _ in range(b.shape[1])], axis=1))
                    check(pl, As, solver, b, t, x0, ('complex ' if cplx else 'real ') + 'HPD matrix, ' + stor)
    # FE matrices + geometric multigrid (2-D and 3-D, stiffness and Poisson)
    fe = [((4, 4, 0), 'stiff'), ((6, 4, 0), 'poisson'), ((2, 2, 2), 'stiff'), ((4, 2, 2), 'poisson')]
    if not ctx.quick():
        fe += [((8, 8, 0), 'stiff'), ((10, 6, 0), 'poisson'), ((4, 4, 4), 'stiff'), ((4, 4, 2), 'poisson')]
    for (nx, ny, nz), kind in fe:
        dom = pym.DomainDefinition(nx, ny, nz)
        ndof = 1 if kind == 'poisson' else dom.dim
        nodes = dom.nodes[0, ...].flatten()
        bc = np.concatenate([nodes * ndof + d for d in range(ndof)])
        sx = pym.Signal('x', np.array([0.2 + 0.8 * rng.random() for _ in range(dom.nel)]))
        m = (pym.AssemblePoisson if kind == 'poisson' else pym.AssembleStiffness)(sx, domain=dom, bc=bc)
        m.response()
        K = m.sig_out[0].state
        n = K.shape[0]
        for cyc in ('V', 'W'):
            for pl, pc in (('GeometricMultigrid', lambda: S.GeometricMultigrid(dom, cycle=cyc)),
                           ('GeometricMultigrid+SOR', lambda: S.GeometricMultigrid(dom, cycle=cyc, smoother=S.SOR(w=1.0), smooth_steps=2))):
                solver = S.CG(K, preconditioner=pc(), tol=tol, maxit=1000)
                for t in 'NTH':
                    kb = rng.choice([1, 2])
                    b = np.array([[rng.randint(-5, 5) for _ in range(kb)] for _ in range(n)], dtype=float)
                    b[bc, :] = 0
                    if not np.all(np.any(b, axis=0)):
                        b[-1, :] = 1
                    if rng.random() < 0.5:
                        b = b[:, 0].copy()
                    x0 = None if rng.random() < 0.5 else np.array(np.random.default_rng(ctx.seed + nrun).standard_normal(b.shape))
                    check(pl, K, solver, b, t, x0, f'FE {kind} matrix {dom.dim}-D')
    ctx.extra['cg_runs'] = nrun


if __name__ == '__main__':
    vlib.main(run, 'C05')
