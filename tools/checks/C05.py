"""C05 — every linear solver solves the requested (transposed/adjoint) system."""
import os, json, warnings, itertools
from fractions import Fraction
import numpy as np
import scipy.sparse as sps
import scipy.linalg as spla
import vlib
import py2coq
import gen_C05
import linsys_common as lc
from linsys_common import CQ, cq_matrix, cq_op, cq_solve, cq_mul, coq_check_solve, TCODE

CLS_HEADER = '''From Coq Require Import ZArith QArith List Bool.
From Pymoto Require Import Base.Num Base.CQMat Model.AutoSolver Model.MatrixChecks.
Import ListNotations.
Open Scope Q_scope.
'''
MG_HEADER = '''From Coq Require Import ZArith List Bool.
From Pymoto Require Import Base.Num Model.Grid Model.MGInterp.
Import ListNotations.
Open Scope Z_scope.
'''
ERR_HEADER = '''From Coq Require Import ZArith List Bool.
From Pymoto Require Import Base.Num.
Import ListNotations.
Open Scope Z_scope.
'''
ERR_CODE = {'none': 0, 'TypeError': 1, 'ValueError': 2, 'IndexError': 3, 'AssertionError': 4, 'RuntimeError': 5, 'Other': 6}
TOL = 1e-9


def opmat(A, t):
    A = A.toarray() if sps.issparse(A) else np.asarray(A)
    return A if t == 'N' else A.T if t == 'T' else A.conj().T


# ----------------------------------------------------------------------------- (T) translator + bridges
def translate(ctx):
    ok_all = True
    jobs = [('SolverGen.v', gen_C05.gen_dense, 'SolverBridge.v', 'pymoto/solvers/dense.py + sparse.py: solve() terms'),
            ('CGGen.v', gen_C05.gen_cg, 'CGBridge.v', 'pymoto/solvers/iterative.py: CG loop body'),
            ('CGExitGen.v', gen_C05.gen_cg_exit, 'CGExitBridge.v', 'pymoto/solvers/iterative.py: CG convergence measure (per column, zero columns absolute)'),
            ('AutoGen.v', gen_C05.gen_auto, 'AutoBridge.v', 'pymoto/solvers/auto_determine.py: decision procedure'),
            ('ChecksGen.v', gen_C05.gen_checks, 'ChecksBridge.v', 'pymoto/solvers/matrix_checks.py: matrix predicates, every container branch')]
    for gname, fn, bname, what in jobs:
        err = ''
        try:
            text = fn(vlib.REPO)
            p = ctx.write_gen(gname, text)
            ok, _, err = vlib.compile_file(ctx, p, f'gen:{gname} ({what}) translates and compiles', 'translator')
        except py2coq.Unsupported as e:
            ok, err = False, str(e)
            ctx.obligation(f'gen:{gname} ({what}) translates and compiles', 'translator', False, err)
        if ok:
            ok, _, err = vlib.compile_file(ctx, os.path.join(ctx.bridge_dir, bname),
                                           f'bridge:{bname} (generated = model, all arguments)', 'bridge')
        if not ok:
            ok_all = False
            ctx.violation('proof', what, 'generated terms equal the committed model', 'translator/bridge',
                          dict(error=err[-3000:]), theorem=f'BridgeC05.{bname[:-2]}')
    return ok_all


# ----------------------------------------------------------------------------- library contracts (oracle validation)
def close(a, b, scale=None):
    a, b = np.asarray(a), np.asarray(b)
    if a.shape != b.shape:
        return False
    s = max(1.0, float(np.max(np.abs(b))) if b.size else 1.0) if scale is None else scale
    return bool(np.all(np.abs(a - b) <= TOL * s)) if a.size else True


def validate_contracts(ctx, solver, A, rng):
    """every library contract used as a hypothesis of the C05 theorems, on the solver's own stored factors.
    Returns list of failed contract names."""
    from pymoto.solvers import SolverDiagonal, SolverDenseQR, SolverDenseLU, SolverDenseCholesky, SolverDenseLDL, SolverSparseLU
    bad = []
    Ad = A.toarray() if sps.issparse(A) else np.asarray(A)
    n = Ad.shape[0]
    I = np.eye(n)
    E = np.array([[complex(rng.randint(-3, 3), rng.randint(-3, 3)) for _ in range(2)] for _ in range(n)])

    def ok(name, cond):
        ctx.oracle_validation[name] = ctx.oracle_validation.get(name, 0) + 1
        if not cond:
            bad.append(name)

    def tri(name, F, lower, unit):
        for t, tt in (('N', 0), ('T', 'T'), ('H', 'C')):
            y = spla.solve_triangular(F, E, trans=tt, lower=lower, unit_diagonal=unit)
            ok(f'solve_triangular[{name},lower={lower},unit={unit}]: op_t(F) y = b', close(opmat(F, t) @ y, E))
    if isinstance(solver, SolverDiagonal):
        ok('diagonal: A = diag(self.diag)', close(np.diag(solver.diag), Ad))
        ok('diagonal: d * (b / d) = b', close(solver.diag[:, None] * (E / solver.diag[:, None]), E))
    elif isinstance(solver, SolverDenseQR):
        q, r = solver.q, solver.r
        ok('qr: A = Q R', close(q @ r, Ad))
        ok('qr: Q^H Q = 1', close(q.conj().T @ q, I))
        ok('qr: Q Q^H = 1', close(q @ q.conj().T, I))
        tri('R', r, False, False)
    elif isinstance(solver, SolverDenseLU):
        p, l, u = solver.p, solver.l, solver.u
        ok('lu: A = P L U', close(p @ l @ u, Ad))
        ok('lu: P^T P = 1 = P P^T, P real', close(p.T @ p, I) and close(p @ p.T, I) and not np.any(np.imag(p)))
        tri('L', l, True, False)
        tri('U', u, False, False)
    elif isinstance(solver, SolverDenseCholesky) and solver.success:
        U = solver.U
        ok('cholesky: A = U^H U (upper factor)', close(U.conj().T @ U, Ad))
        tri('U', U, False, False)
    elif isinstance(solver, (SolverDenseLDL, SolverDenseCholesky)):
        s = solver if isinstance(solver, SolverDenseLDL) else solver.backup_solver
        l, d, p = s.l, s.d, s.p
        lt = l.conj().T if s.hermitian else l.T
        ok('ldl: A = L D L^H (hermitian) / L D L^T (symmetric)', close(l @ d @ lt, Ad))
        ok('ldl: p is a permutation', sorted(np.asarray(p).tolist()) == list(range(n)))
        d1 = s.dinv(np.eye(n))
        ok('ldl: d1 D = 1 = D d1', close(d1 @ d, I) and close(d @ d1, I))
        ok('ldl: dinvH(b) = d1^H b', close(s.dinvH(E), d1.conj().T @ E))
        ok('ldl: lp = L[p, :] is unit lower triangular', close(np.tril(s.lp), s.lp) and close(np.diag(s.lp), np.ones(n)))
        tri('L[p,:]', s.lp, True, True)
    elif isinstance(solver, SolverSparseLU):
        for t in 'NTH':
            try:
                b = E if np.iscomplexobj(Ad) else E.real.copy()
                y = solver.inv.solve(b, trans=t)
                ok('splu: op_t(A) solve(b, t) = b', close(opmat(Ad, t) @ y, b))
            except Exception:
                ok('splu: op_t(A) solve(b, t) = b', False)
    return bad


# ----------------------------------------------------------------------------- storage containers
SPARSE_FORMATS = ['csc', 'csr', 'coo', 'dia', 'bsr', 'lil', 'dok']
# solve correspondence: three sparse containers per matrix, rotating with the occurrence of the class, so that every
# (matrix class, container) pair is exercised on every run (quick: 3 matrices per class)
SOLVE_SCHEDULE = [['csc', 'dia', 'lil'], ['csr', 'bsr', 'dia:rev'], ['coo', 'dok', 'array']]


def dia_offsets_of(A):
    """offsets of the diagonals of A that hold a non-zero entry (sorted)"""
    ii, jj = np.nonzero(A)
    return sorted({int(j - i) for i, j in zip(ii, jj)})


def dia_with_offsets(A, offs):
    """scipy.sparse.dia_matrix of A that stores exactly the diagonals `offs`, in this order"""
    n, m = A.shape
    data = np.zeros((len(offs), m), dtype=A.dtype)
    for k, o in enumerate(offs):
        for j in range(m):
            if 0 <= j - o < n:
                data[k, j] = A[j - o, j]
    return sps.dia_matrix((data, np.array(offs, dtype=int)), shape=(n, m))


def dia_orderings(offs0, n, rng):
    """orders in which the offsets array may list the stored diagonals: all of them for <= 3 diagonals, else sorted,
    reversed, main diagonal first / last, one shuffle; plus arrays that store an additional all-zero diagonal"""
    offs0 = list(offs0)
    if len(offs0) <= 3:
        out = [list(p) for p in itertools.permutations(offs0)]
    else:
        out = [sorted(offs0), sorted(offs0, reverse=True)]
        if 0 in offs0:
            rest = [o for o in offs0 if o != 0]
            out += [[0] + rest, rest + [0], [0] + rest[::-1]]
        sh = list(offs0)
        rng.shuffle(sh)
        out.append(sh)
    extra = next((o for o in (1, -1, 2, -2) if o not in offs0 and abs(o) < n), None)
    if extra is not None:
        base = ([0] + [o for o in offs0 if o != 0]) if 0 in offs0 else list(offs0)
        out += [base + [extra], [extra] + base]          # explicit zero diagonal, main diagonal first / not first
    seen, res = set(), []
    for o in out:
        if tuple(o) not in seen and o:
            seen.add(tuple(o))
            res.append(o)
    return res


def storage(A, spec):
    """spec: 'dense' | one of SPARSE_FORMATS | 'bsr2' | '<fmt>_array' | ('dia', offsets)"""
    if spec == 'dense':
        return A
    if isinstance(spec, tuple):
        return dia_with_offsets(A, list(spec[1]))
    if spec == 'bsr2':
        return sps.bsr_matrix(A, blocksize=(2, 2))
    if spec.endswith('_array'):
        return getattr(sps, spec)(A)
    return getattr(sps, spec + '_matrix')(A)


def spec_label(spec):
    return spec if isinstance(spec, str) else 'dia' + repr(list(spec[1])).replace(' ', '')


def coq_storage(spec, As):
    """Model/MatrixChecks.v : storage term for the container (the offsets array is read from the container)"""
    if isinstance(spec, str) and spec == 'dense':
        return 'SDense'
    if isinstance(As, sps.dia_matrix):
        return '(SDiaMatrix ' + vlib.zl([int(o) for o in As.offsets]) + '%Z)'
    return 'SSparse'


def all_specs(A, rng, full):
    """every container the matrix checks / solvers accept, for one matrix"""
    n = A.shape[0]
    specs = ['dense'] + list(SPARSE_FORMATS)
    if n % 2 == 0 and A.shape[0] == A.shape[1]:
        specs.append('bsr2')
    offs0 = dia_offsets_of(A)
    if offs0 and A.shape[0] == A.shape[1]:
        specs += [('dia', tuple(o)) for o in dia_orderings(offs0, n, rng)]
    arrays = [f + '_array' for f in SPARSE_FORMATS]
    specs += arrays if full else [arrays[rng.randrange(len(arrays))], 'dia_array']
    return specs


# ----------------------------------------------------------------------------- case generation
def solver_menu(pym, cls, cplx, sparse):
    """(label, constructor) list of solvers whose documented class contains the matrix class"""
    S = pym.solvers
    menu = []
    herm = cls in lc.HERMITIAN
    if sparse:
        menu.append(('SolverSparseLU', lambda: S.SolverSparseLU()))
        if cls == 'diag':
            menu.append(('SolverDiagonal', lambda: S.SolverDiagonal()))
    else:
        menu.append(('SolverDenseQR', lambda: S.SolverDenseQR()))
        menu.append(('SolverDenseLU', lambda: S.SolverDenseLU()))
        if cls == 'diag':
            menu.append(('SolverDiagonal', lambda: S.SolverDiagonal()))
        if herm:
            menu.append(('SolverDenseCholesky', lambda: S.SolverDenseCholesky()))
            menu.append(('SolverDenseLDL(None)', lambda: S.SolverDenseLDL()))
            menu.append(('SolverDenseLDL(True)', lambda: S.SolverDenseLDL(hermitian=True)))
            if not cplx:
                menu.append(('SolverDenseLDL(False)', lambda: S.SolverDenseLDL(hermitian=False)))
        if cls == 'csym':
            menu.append(('SolverDenseLDL(None)', lambda: S.SolverDenseLDL()))
            menu.append(('SolverDenseLDL(False)', lambda: S.SolverDenseLDL(hermitian=False)))
    menu.append(('auto_determine_solver', None))
    return menu


def kind_of(solver):
    """observed result of auto_determine_solver as a Coq solver_kind term"""
    n = type(solver).__name__

    def ob(v):
        return 'None' if v is None else '(Some true)' if v else '(Some false)'
    if n == 'SolverDenseLDL':
        return f'(KDenseLDL {ob(solver.hermitian)})'
    if n == 'SolverSparsePardiso':
        return f'(KPardiso {ob(solver.kw["symmetric"])} {ob(solver.kw["hermitian"])} {ob(solver.kw["positive_definite"])})'
    return {'SolverDenseQR': 'KDenseQR', 'SolverDiagonal': 'KDiagonal', 'SolverSparseCholeskyScikit': 'KSparseCholScikit',
            'SolverSparseCholeskyCVXOPT': 'KSparseCholCVXOPT', 'SolverSparseLU': 'KSparseLU',
            'SolverDenseCholesky': 'KDenseCholesky', 'SolverDenseLU': 'KDenseLU'}[n]


def coq_opt(v):
    return 'None' if v is None else '(Some true)' if v else '(Some false)'


def coq_auto_row(avail, ov, got):
    return ('(' + ', '.join(vlib.blit(a) for a in avail) + ', (' +
            ', '.join(coq_opt(ov.get(k)) for k in ('isdiagonal', 'ishermitian', 'issymmetric', 'ispositivedefinite')) + '), ' + got + ')')


class _Stub:
    """stands for an optional-package solver whose package is absent: records constructor arguments only"""
    defined = True

    def __init__(self, **kw):
        self.kw = kw


def auto_with_availability(pym, A, avail, ov):
    """call the real auto_determine_solver with the availability flags of the optional packages patched from outside"""
    import pymoto.solvers.auto_determine as ad
    names = ['SolverSparsePardiso', 'SolverSparseCholeskyScikit', 'SolverSparseCholeskyCVXOPT']
    saved = {k: getattr(ad, k) for k in names}
    try:
        for k, a in zip(names, avail):
            if a:
                setattr(ad, k, type(k, (_Stub,), {}))
        return ad.auto_determine_solver(A, **ov)
    finally:
        for k in names:
            setattr(ad, k, saved[k])


def band_matrices(rng):
    """deliberately chosen matrices whose natural container is DIA: (class, matrix, name).  All non-singular by strict
    diagonal dominance except the last group (classification / decision table only)."""
    def ri(lo, hi, nz=False):
        v = rng.randint(lo, hi)
        while nz and v == 0:
            v = rng.randint(lo, hi)
        return v
    out = []
    n = 5
    up = np.diag([float(ri(4, 9)) for _ in range(n)]) + np.diag([float(ri(1, 3)) for _ in range(n - 1)], 1)
    out.append(('upper', up, 'band_upper_bidiagonal'))
    out.append(('lower', up.T.copy(), 'band_lower_bidiagonal'))
    tri = np.diag([float(ri(7, 9)) for _ in range(n)]) + np.diag([float(ri(1, 3)) for _ in range(n - 1)], 1) \
        + np.diag([float(-ri(1, 3)) for _ in range(n - 1)], -1)
    out.append(('general', tri, 'band_tridiagonal_nonsymmetric'))
    off = [float(ri(1, 3)) for _ in range(n - 1)]
    out.append(('spd', np.diag([float(ri(7, 9)) for _ in range(n)]) + np.diag(off, 1) + np.diag(off, -1), 'band_tridiagonal_spd'))
    out.append(('indef', np.diag([7., -8, 9, -7, 8]) + np.diag(off, 1) + np.diag(off, -1), 'band_tridiagonal_indefinite'))
    offc = np.array([complex(ri(1, 2), ri(1, 2)) for _ in range(n - 1)])
    out.append(('hpd', np.diag([complex(ri(7, 9)) for _ in range(n)]) + np.diag(offc, 1) + np.diag(offc.conj(), -1), 'band_tridiagonal_hpd'))
    out.append(('csym', np.diag([complex(ri(7, 9), ri(1, 3)) for _ in range(n)]) + np.diag(offc, 1) + np.diag(offc, -1), 'band_tridiagonal_complex_symmetric'))
    out.append(('general', np.diag([complex(ri(7, 9), ri(-3, 3)) for _ in range(n)]) + np.diag(offc, 1) + np.diag(2 * offc.conj(), -1),
                'band_tridiagonal_complex_general'))
    far = np.diag([float(ri(4, 9)) for _ in range(6)]) + np.diag([float(ri(1, 3)) for _ in range(3)], 3)
    out.append(('upper', far, 'band_far_upper'))
    far2 = np.diag([float(ri(7, 9)) for _ in range(6)]) + np.diag([float(ri(1, 3)) for _ in range(4)], 2) + np.diag([float(ri(1, 3)) for _ in range(4)], -2)
    out.append(('general', far2, 'band_offsets_0_m2_p2'))
    penta = np.diag([float(ri(12, 15)) for _ in range(6)])
    for o in (-2, -1, 1, 2):
        penta = penta + np.diag([float(ri(1, 3)) for _ in range(6 - abs(o))], o)
    out.append(('general', penta, 'band_pentadiagonal'))
    out.append(('diag', np.diag([float(ri(-9, 9, True)) for _ in range(4)]), 'band_diagonal_real'))
    out.append(('diag', np.diag([complex(ri(-9, 9, True), ri(-3, 3)) for _ in range(3)]), 'band_diagonal_complex'))
    # singular: classification and decision table only
    out.append(('singular', np.diag([float(ri(1, 3)) for _ in range(3)], 1), 'band_single_superdiagonal'))
    out.append(('singular', np.diag([float(ri(1, 3)) for _ in range(3)], -1), 'band_single_subdiagonal'))
    return out


def run(ctx):
    warnings.simplefilter('ignore')
    import pymoto as pym
    ctx.rule = ('matrices of every class (diagonal, SPD/HPD, negative definite, symmetric/Hermitian indefinite, zero-diagonal '
                '(2x2 pivots), complex symmetric, general, row-permuted, triangular; banded ones whose natural container is DIA) '
                'with integer / Gaussian-integer entries, non-singular by (permuted) strict diagonal dominance, n = 1..8.  '
                'Matrix predicates + decision table: every matrix in EVERY container (dense, csc, csr, coo, dia with every / '
                'several orders of the offsets array incl. explicit zero diagonals, bsr with 1x1 and 2x2 blocks, lil, dok, '
                'the *_array classes).  Solve: dense + three sparse containers per matrix rotating so that every class meets '
                'every container on every run; every solver whose documented class contains the matrix x trans N/T/H x '
                'right-hand sides (n), (n,1), (n,k) incl. dependent (real and non-real coefficients), duplicate, zero and n+1 '
                'columns, real and complex.  A case is non-trivial when n >= 2; distinct by (solver, class, n, container, '
                'trans, rhs kind, values).  auto_determine_solver: overrides x availability patterns per stored matrix.  '
                'Multigrid prolongation R: FE domains of the CG sweep (every nested level) + further rectangular 2-D / 3-D '
                'domains with nelx != nely != nelz, 1-3 dofs per node, exact against Model/MGInterp.v.  (CG sweep = oracle: '
'preconditioners x containers x rhs kinds x trans x initial guess, FE matrices of rectangular domains; interaction '
                'block = oracle: caller-owned arrays in every layout bit-identical after solve, one rhs object solved for all trans '
                'modes, cross-mode initial guesses, solver-object histories with matrices modified in place.)')
    ctx.assumptions += ['theorems are over exact arithmetic in an arbitrary star ring; floating-point accuracy of LAPACK/SuperLU is '
                        'validated (1e-9 relative, in exact Q inside Coq against the exact rational solution), not proved',
                        'convergence of CG / multigrid is run-time behaviour (post-condition checked), not proved',
                        'pypardiso / scikit-sparse / cvxopt are absent: only their decision-table rows are covered',
                        'matrix predicates: np.allclose(x, 0) is read as x = 0 on the integer-valued matrices (exact there: '
                        'C05_integer_entries_exact_reading); the absolute tolerance 1e-8 is explicit in atoms_of_tol for every atom with a '
                        'zero reference and compared in Coq on scaled matrices; the dense symmetric / Hermitian atoms (relative part of '
                        'np.allclose) at small magnitude are covered by the oracle only; K06 (known) = misclassification of tiny matrices']
    ctx.trusted += ['Print Assumptions: all C05 theorems are closed under the global context (mathcomp ssreflect/algebra, no axioms)',
                    'tools/gen_C05.py (T-alg / T-dec translators, fail-closed) and the reading of numpy/scipy expressions it embodies '
                    '(@ = product, .T/.conj(), x[p] = P x, u[p] = x as P^T x for a permutation p, solve_triangular flags; the '
                    'atoms of matrix_checks.py)',
                    'library contracts (scipy.linalg.qr/lu/cholesky/ldl/solve_triangular, numpy division, SuperLU solve, np.linalg.inv): '
                    'premises of the theorems, validated on every factorisation the harness creates (oracle_validation)',
                    'exact rational reference solutions are computed in Python (fractions) and CHECKED inside Coq (op_t(A) X = B exactly)',
                    'scipy DIA semantics (Model/MatrixChecks.v dia_dense) is checked inside Coq for every DIA container created']
    # at most 3 reports per (kind, call site, predicate, input class): keeps the list of violations diverse
    raw_violation, seen_v = ctx.violation, {}

    def limited(kind, call_site, predicate, input_class, *a, **kw):
        key = (kind, call_site, predicate, input_class)
        seen_v[key] = seen_v.get(key, 0) + 1
        if seen_v[key] > 3:
            return False
        return raw_violation(kind, call_site, predicate, input_class, *a, **kw)
    ctx.violation = limited
    vlib.audit(ctx)
    if not vlib.ensure_static(ctx, ['theories/Props/C05.vo', 'theories/Props/C05b.vo']):
        return
    translate(ctx)
    vlib.check_props(ctx)
    vlib.check_props(ctx, 'theories/Props/C05b.v')

    rng = ctx.rng
    import time
    tm = {'static+translate+props': round(time.time() - ctx.t0, 1)}
    t_ = time.time()
    from pymoto.solvers import auto_determine_solver
    from pymoto.solvers import matrix_is_sparse, matrix_is_diagonal, matrix_is_symmetric, matrix_is_hermitian, matrix_is_complex
    checks, labels, meta = [], [], []
    cls_checks, cls_labels = [], []
    auto_checks, auto_labels, auto_rows = [], [], []
    err_checks, err_labels = [], []
    oracle_fail = []
    nauto = 0
    inv_cache = {}

    def add_solve_case(label, A_exact, t, b, x, Ad, solver_label, cls, replay):
        """x: implementation's answer (numpy).  Adds the in-Coq check and runs the implementation-side oracle."""
        B = cq_matrix(b)
        # exact solution through the exact inverse (computed once per matrix); Coq re-checks op_t(A) X = B exactly
        kinv = id(A_exact)
        if inv_cache.get('key') != kinv:
            inv_cache['key'], inv_cache['inv'] = kinv, lc.cq_inverse(A_exact)
            assert inv_cache['inv'] is not None
        X = cq_mul(cq_op(inv_cache['inv'], t), B)
        xs = np.asarray(x)
        shape_ok = xs.shape == np.asarray(b).shape
        want_c = np.iscomplexobj(Ad) or np.iscomplexobj(b)
        dtype_ok = (xs.dtype.kind == 'c') == want_c and xs.dtype.itemsize == (16 if want_c else 8)
        if shape_ok:
            chk = coq_check_solve(A_exact, t, X, B, xs)
        else:
            chk = 'false'
        checks.append(f'({chk}) && {vlib.blit(shape_ok)} && {vlib.blit(dtype_ok)}')
        labels.append(label)
        meta.append(replay)
        ctx.case(label, len(A_exact) >= 2, sample=dict(case=str(label), coq=checks[-1][:300]))
        # implementation-side oracle: residual of the requested system, shape, dtype class
        ctx.search_evaluations += 1
        res_ok = shape_ok and close(opmat(Ad, t) @ xs, np.asarray(b, dtype=complex if want_c else float))
        if not (res_ok and shape_ok and dtype_ok):
            pred = 'op_trans(A) x = b' if not res_ok else 'x has the shape and dtype class of b'
            oracle_fail.append(len(checks) - 1)
            ctx.violation('impl-violates', solver_label.split('(')[0] + '.solve', pred, f'{cls} matrix', replay,
                          expected=[[str(v) for v in r] for r in X], got=np.asarray(x).tolist().__repr__()[:2000])

    def solve_block(cls, A, A_exact, name, spec, As, menu, kinds):
        """every solver of the menu on the stored matrix As x right-hand-side kinds x N/T/H"""
        cplx = np.iscomplexobj(A)
        sparse = spec != 'dense'
        stor = spec_label(spec)
        n = A.shape[0]
        for slabel, ctor in menu:
            try:
                solver = auto_determine_solver(As) if ctor is None else ctor()
                solver.update(As)
            except Exception as e:  # a solver that cannot factorise a matrix of its own class
                ctx.violation('impl-violates', slabel.split('(')[0] + '.update', 'factorisation of a matrix of the documented class',
                              f'{cls} matrix', dict(solver=slabel, A=A.tolist().__repr__(), storage=stor, error=repr(e)))
                continue
            ctx.count(f'solver:{slabel}')
            ctx.count(f'solve-storage:{stor.split("[")[0]}')
            if type(solver).__name__ == 'SolverDenseCholesky':
                ctx.count('cholesky:success' if solver.success else 'cholesky:fallback')
            if type(solver).__name__ == 'SolverDenseLDL' or (type(solver).__name__ == 'SolverDenseCholesky' and not solver.success):
                s_ = solver if type(solver).__name__ == 'SolverDenseLDL' else solver.backup_solver
                ctx.count('ldl:D diagonal' if np.array_equal(s_.d, np.diag(np.diag(s_.d))) else 'ldl:D with 2x2 blocks')
            badc = validate_contracts(ctx, solver, As, rng)
            for bc in badc:
                ctx.violation('correspondence', type(solver).__name__ + '.update', 'library contract: ' + bc, f'{cls} matrix',
                              dict(solver=slabel, A=A.tolist().__repr__(), storage=stor),
                              note='a premise of the C05 theorem does not hold for the factors the solver stored')
            for bk in kinds(sparse, cplx):
                # complex rhs for a real sparse matrix: malformed stream (SuperLU refuses it)
                bc_ = cplx or bk in ('cdep', 'idup') or (rng.random() < 0.3 and not sparse)
                b = lc.gen_rhs(rng, n, bk, bc_)
                for t in 'NTH':
                    replay = dict(solver=slabel, storage=stor, cls=cls, A=A.tolist().__repr__(), b=b.tolist().__repr__(), trans=t)
                    ctx.count(f'trans:{t}')
                    ctx.count(f'rhs:{bk}:{"complex" if bc_ else "real"}')
                    try:
                        if rng.random() < 0.3:   # direct solvers accept (and ignore) an initial guess
                            ctx.count('direct solver with x0')
                            x = solver.solve(b.copy(), x0=np.ones_like(b), trans=t)
                        else:
                            x = solver.solve(b.copy(), trans=t)
                    except Exception as e:
                        ctx.evaluations += 1
                        ctx.violation('impl-violates', slabel.split('(')[0] + '.solve', 'solve raises for a matrix of the documented class',
                                      f'{cls} matrix', dict(replay, error=repr(e)))
                        continue
                    add_solve_case((slabel, cls, n, stor, t, bk, name), A_exact, t, b, x, A, slabel, cls, replay)

    def std_kinds(sparse, cplx):
        second = ['col', 'blk', 'dup', 'wide', 'zero']
        if cplx or not sparse:
            second += ['cdep', 'idup']
        return ['vec', rng.choice(second)]

    def classify_and_decide(cls, A, A_exact, name, spec, As, full_rows):
        """(a) the five predicates + the two sign tests of the diagonal vs Model/MatrixChecks.v on the stored matrix;
        (b) auto_determine_solver vs Model/MatrixChecks.v auto_on for overrides x availability patterns"""
        nonlocal nauto
        cplx = bool(np.iscomplexobj(A))
        stor = spec_label(spec)
        sparse = spec != 'dense'
        square = A.shape[0] == A.shape[1]
        S = coq_storage(spec, As)
        Alit = lc.coq_cmat(A_exact)
        fl = lc.classify(A) if square else None
        ctx.count(f'container:{stor.split("[")[0]}')
        lab = dict(A=A.tolist().__repr__(), storage=stor, cls=cls, offsets=[int(o) for o in As.offsets] if hasattr(As, 'offsets') else None)
        try:
            # (the decision procedure sends non-square matrices to QR before it evaluates any predicate)
            obs = [bool(matrix_is_sparse(As)), bool(matrix_is_diagonal(As)), bool(matrix_is_symmetric(As)),
                   bool(matrix_is_hermitian(As)), bool(matrix_is_complex(As)),
                   bool(np.all(As.diagonal() > 0)), bool(np.all(As.diagonal() < 0))] if square else None
        except Exception as e:
            ctx.evaluations += 1
            ctx.violation('impl-violates', 'matrix_checks', 'the predicates evaluate on every container', f'{cls} matrix', dict(lab, error=repr(e)))
            return
        if square:
            chk = f'list_all2 Bool.eqb (mc_flags {S} {vlib.blit(cplx)} {Alit}) [' + '; '.join(vlib.blit(v) for v in obs) + ']'
            if isinstance(As, sps.dia_matrix):
                # the container denotes A (scipy DIA semantics, checked inside Coq) and stores the offsets in the order given
                Dlit = lc.coq_cmat(cq_matrix(np.asarray(As.data))) if As.data.size else '[]'
                chk += f' && meqb (dia_dense {A.shape[0]} {A.shape[1]} {vlib.zl([int(o) for o in As.offsets])}%Z {Dlit}) {Alit}'
                ctx.oracle_validation['scipy DIA container denotes the matrix (toarray)'] = \
                    ctx.oracle_validation.get('scipy DIA container denotes the matrix (toarray)', 0) + 1
                if not np.array_equal(As.toarray(), A) or (isinstance(spec, tuple) and [int(o) for o in As.offsets] != list(spec[1])):
                    ctx.violation('correspondence', 'scipy.sparse.dia_matrix', 'library contract: container denotes the matrix, offsets kept in order',
                                  'harness', lab)
            cls_checks.append(chk)
            cls_labels.append(dict(lab, observed=dict(zip(('sparse', 'diagonal', 'symmetric', 'hermitian', 'complex', 'dpos', 'dneg'), obs))))
            ctx.case(('classify', name, stor), A.shape[0] >= 2, sample=dict(case=f'classify {name} {stor}', coq=chk[:300]))
            # implementation-side oracle (testing): a predicate never reports a property the matrix does not have;
            # symmetric / Hermitian / complex are exact in every container
            ctx.search_evaluations += 1
            wrong = []
            if obs[1] and not fl['diag']:
                wrong.append(('matrix_is_diagonal', 'reports diagonal only if every off-diagonal entry is zero'))
            if obs[2] != fl['sym']:
                wrong.append(('matrix_is_symmetric', 'reports A == A^T'))
            if obs[3] != (fl['herm'] if cplx else fl['sym']):
                wrong.append(('matrix_is_hermitian', 'reports A == A^H'))
            if obs[4] != cplx or obs[0] != sparse:
                wrong.append(('matrix_is_complex', 'reports the dtype class / container kind'))
            for cs, pred in wrong:
                ctx.violation('impl-violates', cs, pred, f'{cls} matrix', lab, got=repr(obs))
        # decision table
        if square:
            ovs = [dict(), dict(ishermitian=fl['herm']), dict(issymmetric=fl['sym']), dict(isdiagonal=fl['diag']),
                   dict(ishermitian=fl['herm'], issymmetric=fl['sym']), dict(ispositivedefinite=cls in lc.DEFINITE),
                   dict(ishermitian=not fl['herm']), dict(issymmetric=not fl['sym'], ishermitian=fl['herm']),
                   dict(isdiagonal=not fl['diag']), dict(ispositivedefinite=True), dict(ispositivedefinite=False, ishermitian=True)]
            avails = list(itertools.product((False, True), repeat=3)) if sparse else [(False, False, False), (True, True, True)]
            if not full_rows:
                ovs = ovs[:3] + [ovs[5]]
                avails = [(False, False, False), (True, True, True)]
        else:
            ovs, avails = [dict()], [(False, False, False)]
        rows, rlabels = [], []
        for ov in ovs:
            for avail in avails:
                try:
                    got = kind_of(auto_with_availability(pym, As, avail, ov))
                except AssertionError:
                    got = 'KAssertionError'
                except Exception as e:
                    ctx.evaluations += 1
                    ctx.violation('impl-violates', 'auto_determine_solver', 'returns a solver for every non-singular square matrix',
                                  f'{cls} matrix', dict(lab, overrides=ov, avail=avail, error=repr(e)))
                    continue
                rows.append(coq_auto_row(avail, ov, got))
                rlabels.append(dict(lab, overrides=ov, avail=avail, got=got))
                ctx.case(('auto', name, stor, tuple(sorted(ov.items())), avail), A.shape[0] >= 2)
                ctx.count('auto:' + got.strip('()').split()[0])
                nauto += 1
        auto_checks.append(f'auto_group {S} {vlib.blit(cplx)} {Alit} [' + '; '.join(rows) + ']')
        auto_labels.append(rlabels)
        auto_rows.append((S, cplx, Alit, rows))

    # ---- corpus first
    corpus = load_corpus()
    mats = []
    for c in corpus:
        A = np.array([[complex(*v) if isinstance(v, list) else v for v in row] for row in c['A']])
        A = A.astype(complex) if np.iscomplexobj(A) and np.any(A.imag) or c.get('complex') else A.real.astype(float)
        mats.append((c.get('class', 'corpus'), A, c.get('name', 'corpus'), len(mats)))
    # ---- deliberately chosen banded matrices (natural container: DIA)
    bands = band_matrices(rng)
    # ---- generated matrices: `reps` of every class, real and complex
    reps = 3 if ctx.quick() else 24
    sizes = [1, 2, 3, 3, 4, 4, 5, 5, 6, 7, 8]
    k = 0
    for rep in range(reps):
        for cplx in (False, True):
            for cls in (lc.CLASSES_CPLX if cplx else lc.CLASSES_REAL):
                n = sizes[rng.randrange(len(sizes))]
                if cls in ('zerodiag', 'hzerodiag'):
                    n = max(2, n + n % 2)
                if cls in ('indef', 'hindef', 'general', 'permuted', 'csym', 'lower', 'upper') and n < 2:
                    n = 2
                k += 1
                mats.append((cls, lc.gen_matrix(rng, cls, n, cplx), f'gen{k}', rep))

    for (cls, A, name, occ) in mats:
        n = A.shape[0]
        cplx = np.iscomplexobj(A)
        A_exact = cq_matrix(A)
        fl = lc.classify(A)
        if cls == 'corpus':
            cls = 'diag' if fl['diag'] else ('spd' if fl['herm'] and fl['dpos'] and not cplx else 'general')
        ctx.count(f'class:{cls}')
        ctx.count(f'n:{n}')
        ctx.count('complex' if cplx else 'real')
        sched = ['dense'] + SOLVE_SCHEDULE[occ % 3]
        sched = [{'dia:rev': ('dia', tuple(sorted(dia_offsets_of(A), reverse=True))),
                  'array': SPARSE_FORMATS[(occ // 3 + k) % 7] + '_array'}.get(s, s) for s in sched]
        if n % 2 == 0 and 'bsr' in sched and occ % 2:
            sched[sched.index('bsr')] = 'bsr2'
        for si, spec in enumerate(sched):
            As = storage(A, spec)
            # dense and the first sparse container: a vector and a block; the further containers: one of them
            solve_block(cls, A, A_exact, name, spec, As, solver_menu(pym, cls, cplx, spec != 'dense'),
                        std_kinds if si < 2 else (lambda sp, cx: [rng.choice(std_kinds(sp, cx))]))
        # every container: predicates and decision table
        specs = all_specs(A, rng, full=not ctx.quick())
        full_for = {spec_label(sched[0]), spec_label(sched[1])}
        for spec in specs + [s for s in sched if s not in specs]:
            As = storage(A, spec)
            classify_and_decide(cls, A, A_exact, name, spec, As, spec_label(spec) in full_for)

    # ---- banded matrices: every order of the offsets array; auto_determine_solver + SolverSparseLU solve in each
    for (cls, A, name) in bands:
        n = A.shape[0]
        cplx = np.iscomplexobj(A)
        A_exact = cq_matrix(A)
        ctx.count(f'class:band/{cls}')
        specs = all_specs(A, rng, full=True)
        first_dia = True
        for spec in specs:
            As = storage(A, spec)
            isdia = isinstance(spec, tuple) or spec == 'dia'
            classify_and_decide(cls, A, A_exact, name, spec, As, isdia and first_dia)
            if cls != 'singular' and (isdia or spec in ('dense', 'csr', 'dia_array')):
                menu = [('auto_determine_solver', None)]
                if isdia and first_dia:
                    menu = solver_menu(pym, cls, cplx, True)
                solve_block(cls, A, A_exact, name, spec, As, menu,
                            lambda sparse, cplx_: [rng.choice(['vec', 'col', 'blk', 'dup'] + (['cdep', 'idup'] if cplx_ else []))])
            if isdia:
                first_dia = False
                ctx.count('dia offsets order:' + ('main first' if len(As.offsets) and As.offsets[0] == 0 else 'main not first')
                          + (', one diagonal' if len(As.offsets) == 1 else ', several'))

    # ---- magnitude: every class scaled by 1e-9 .. 1e9 (right-hand side alike); K06 = absolute tolerance of np.allclose
    mag_checks, mag_labels = magnitude_block(ctx, pym)

    # ---- non-square matrices go to QR, in every container
    for shp in ((2, 3), (3, 2)):
        Ans = np.arange(6, dtype=float).reshape(shp)
        for spec in ['dense'] + SPARSE_FORMATS + ['csr_array']:
            classify_and_decide('nonsquare', Ans, cq_matrix(Ans), f'nonsquare{shp}', spec, storage(Ans, spec), False)

    # ---- malformed stream: only the exception class is compared (invalid trans -> TypeError, complex rhs on real SuperLU -> TypeError)
    S = pym.solvers
    A3 = np.array([[4., 1, 0], [1, 5, 2], [0, 2, 6]])
    for ctor, arg in ((S.SolverDenseQR, A3), (S.SolverDenseLU, A3), (S.SolverDenseCholesky, A3), (S.SolverDenseLDL, A3),
                      (S.SolverSparseLU, sps.csc_matrix(A3)), (S.CG, sps.csc_matrix(A3))):
        for tr_ in ('X', 'C', 'n', None):
            try:
                ctor(arg).solve(np.ones(3), trans=tr_)
                got = 'none'
            except Exception as e:
                got = lc.exc_enum(e)
            err_checks.append(f'{ERR_CODE[got]} =? {ERR_CODE["TypeError"]}')
            err_labels.append(dict(solver=ctor.__name__, trans=tr_, got=got, expected='TypeError'))
            ctx.case(('badtrans', ctor.__name__, tr_), True)
            ctx.count('malformed:invalid trans')
    for fmt in SPARSE_FORMATS:
        try:
            S.SolverSparseLU(storage(A3, fmt)).solve(np.array([1j, 2, 3]))
            got = 'none'
        except Exception as e:
            got = lc.exc_enum(e)
        err_checks.append(f'{ERR_CODE[got]} =? {ERR_CODE["TypeError"]}')
        err_labels.append(dict(solver='SolverSparseLU', case='complex rhs for real matrix', storage=fmt, got=got, expected='TypeError'))
        ctx.case(('complex-rhs-real-sparse', fmt), True)
        ctx.count('malformed:complex rhs real sparse')

    # ---- evaluate inside Coq
    tm['python: cases'] = round(time.time() - t_, 1)
    t_ = time.time()
    failing, err = vlib.run_cases(ctx, 'solve', lc.CQ_HEADER, checks, chunk=60)
    tm['coq: solve'] = round(time.time() - t_, 1)
    t_ = time.time()
    failing1, err1 = vlib.run_cases(ctx, 'classify', CLS_HEADER, cls_checks, chunk=250)
    failing2, err2 = vlib.run_cases(ctx, 'auto', CLS_HEADER, auto_checks, chunk=250)
    failing3, err3 = vlib.run_cases(ctx, 'err', ERR_HEADER, err_checks, chunk=500)
    failing4, err4 = vlib.run_cases(ctx, 'magnitude', CLS_HEADER, mag_checks, chunk=250)
    err3 = '\n'.join(e for e in (err3, err4) if e)
    for idx in failing4[:20]:
        ctx.violation('correspondence', 'matrix_checks', 'reported predicates == Model/MatrixChecks.v with the tolerance 1e-8 explicit', 'scaled matrix',
                      mag_labels[idx], note='Coq model: ' + mag_checks[idx][:600])
    tm['coq: classify+auto+err'] = round(time.time() - t_, 1)
    allerr = '\n'.join(e for e in (err, err1, err2, err3) if e)
    ctx.obligation('correspondence:case files evaluated', 'correspondence', not allerr, allerr)
    if allerr:
        ctx.violation('correspondence', 'solvers', 'case files compile', 'harness', dict(error=allerr[-3000:]), theorem='cases')
    for idx in failing[:20]:
        if idx in oracle_fail:
            continue   # already reported with a concrete implementation-level violation
        ctx.violation('correspondence', str(labels[idx][0]) + '.solve', 'x equals the exact solution of the requested system (1e-9), shape, dtype',
                      f'{labels[idx][1]} matrix', dict(label=[str(v) for v in labels[idx]], replay=meta[idx]),
                      note='exact rational solution (checked inside Coq) and implementation differ')
    for idx in failing1[:20]:
        ctx.violation('correspondence', 'matrix_checks', 'reported predicates == Model/MatrixChecks.v on the stored matrix', 'matrix predicates',
                      cls_labels[idx], note='Coq model: ' + cls_checks[idx][:600])
    if failing2:
        # which rows of the failing groups differ
        det, detl = [], []
        for idx in failing2[:6]:
            S_, c_, Alit, rows = auto_rows[idx]
            for r, rl in zip(rows, auto_labels[idx]):
                det.append(f'auto_group {S_} {vlib.blit(c_)} {Alit} [{r}]')
                detl.append(rl)
        failing2d, err2d = vlib.run_cases(ctx, 'autodetail', CLS_HEADER, det, chunk=250)
        if err2d or not failing2d:
            ctx.violation('correspondence', 'auto_determine_solver', 'returned solver class == Model/MatrixChecks.v auto_on', 'decision table',
                          dict(groups=[auto_labels[i][:2] for i in failing2[:3]], error=err2d[-1000:]))
        for j in failing2d[:20]:
            ctx.violation('correspondence', 'auto_determine_solver', 'returned solver class == Model/MatrixChecks.v auto_on', 'decision table',
                          detl[j], note='Coq model: ' + det[j][:600])
    for idx in failing3[:20]:
        ctx.violation('impl-violates', err_labels[idx]['solver'] + '.solve', 'invalid request raises TypeError', 'malformed request',
                      err_labels[idx], expected='TypeError', got=err_labels[idx]['got'])
    ctx.extra['solve_cases'] = len(checks)
    ctx.extra['classify_cases'] = len(cls_checks)
    ctx.extra['auto_cases'] = nauto
    ctx.extra['auto_groups'] = len(auto_checks)

    # ---- (iv) CG with every preconditioner: post-condition only
    t_ = time.time()
    cg_sweep(ctx, pym)
    tm['python: cg sweep'] = round(time.time() - t_, 1)
    # ---- (v) interactions: caller-owned arrays, re-used right-hand-side objects, initial guesses, solver-object histories
    t_ = time.time()
    interaction_block(ctx, pym)
    tm['python: interactions'] = round(time.time() - t_, 1)
    ctx.extra['seconds'] = tm


K06 = ('auto_determine_solver', 'op_trans(A) x = b for the solver returned for a non-singular matrix',
       'all off-diagonal (or all unsymmetric) parts below the absolute tolerance 1e-8 of np.allclose (matrix of tiny magnitude)')
SCALES = [1e-9, 1e-6, 1.0, 1e6, 1e9]
TOLQ = vlib.qlit(Fraction(1e-8))       # the double 1e-8 (default atol of np.allclose), exactly


def magnitude_block(ctx, pym):
    """every matrix class x scale 1e-9 .. 1e9 x dense + sparse containers, through auto_determine_solver and the explicit
    solvers (oracle: residual relative to |b| at every scale; predicates report no property the matrix lacks), and the
    predicates against the model with the tolerance of np.allclose explicit (in Coq).  Returns (checks, labels)."""
    from pymoto.solvers import auto_determine_solver, matrix_is_diagonal, matrix_is_symmetric, matrix_is_hermitian
    rng = ctx.rng
    checks, labels = [], []
    mixed = np.array([[30., 5, 0], [20, 40, 5], [0, 5, 50]])     # at 1e-9: entries 5e-9 below, 2e-8 above the tolerance
    base = [('diag', lc.gen_matrix(rng, 'diag', 3, False)), ('spd', lc.gen_matrix(rng, 'spd', 4, False)),
            ('indef', lc.gen_matrix(rng, 'indef', 3, False)), ('zerodiag', lc.gen_matrix(rng, 'zerodiag', 4, False)),
            ('general', lc.gen_matrix(rng, 'general', 3, False)), ('lower', lc.gen_matrix(rng, 'lower', 3, False)),
            ('general', mixed), ('general', np.array([[4., 1, 0], [2, 5, 2], [0, 3, 6]])),      # the K06 witness
            ('diag', lc.gen_matrix(rng, 'diag', 3, True)), ('hpd', lc.gen_matrix(rng, 'hpd', 3, True)),
            ('hindef', lc.gen_matrix(rng, 'hindef', 4, True)), ('csym', lc.gen_matrix(rng, 'csym', 3, True)),
            ('general', lc.gen_matrix(rng, 'general', 4, True))]
    for bi, (cls, A0) in enumerate(base):
        n = A0.shape[0]
        cplx = bool(np.iscomplexobj(A0))
        fl = lc.classify(A0)
        b0 = lc.gen_rhs(rng, n, 'vec' if bi % 2 else 'blk', cplx)
        for scale in SCALES:
            A = A0 * scale
            b = b0 * scale
            # K06's input class, from the values: a property the matrix lacks is within np.allclose's tolerance
            off = A - np.diag(np.diag(A))
            in_k06 = bool((not fl['diag'] and np.allclose(off, 0)) or (not fl['sym'] and np.allclose(A, A.T))
                          or (cplx and not fl['herm'] and np.allclose(A, A.conj().T)))
            ctx.count(f'magnitude:scale {scale:g}' + (' (K06 class)' if in_k06 else ''))
            # a quantity the predicates compare that sits ON the tolerance (e.g. 2 * 5e-9): the outcome depends on the
            # rounding of the floating-point difference / modulus -> not compared with the exact model
            qs = np.abs(np.concatenate([off.ravel(), (A - A.T).ravel(), (A - A.conj().T).ravel()]))
            boundary = bool(np.any(np.abs(qs - 1e-8) <= 1e-8 * 1e-6))
            for spec in ('dense', 'csc', 'coo', 'dia', 'lil'):
                As = storage(A, spec)
                sparse = spec != 'dense'
                lab = dict(A0=A0.tolist().__repr__(), scale=scale, storage=spec, cls=cls)
                ctx.search_evaluations += 1
                try:
                    obs = [bool(matrix_is_diagonal(As)), bool(matrix_is_symmetric(As)), bool(matrix_is_hermitian(As))]
                except Exception as e:
                    ctx.violation('impl-violates', 'matrix_checks', 'the predicates evaluate on every container', f'{cls} matrix', dict(lab, error=repr(e)))
                    continue
                # in Coq: the predicates with the tolerance explicit, on the exact values of the floats
                S = coq_storage(spec, As)
                Alit = lc.coq_cmat(cq_matrix(A))
                if sparse:
                    chk = f'list_all2 Bool.eqb (mc_flags_tol {TOLQ} {S} {vlib.blit(cplx)} {Alit}) [' + '; '.join(vlib.blit(v) for v in obs) + ']'
                else:
                    chk = f'Bool.eqb (matrix_is_diagonal (atoms_of_tol {TOLQ} {S} {vlib.blit(cplx)} {Alit})) {vlib.blit(obs[0])}'
                if boundary:
                    ctx.count('magnitude:a compared quantity lies on the tolerance (not compared with the model)')
                else:
                    checks.append(chk)
                    labels.append(dict(lab, observed=obs))
                    ctx.case(('magnitude', bi, scale, spec), True, sample=dict(case=f'magnitude {cls} x {scale:g} {spec}', coq=chk[:300]))
                # oracle: no property the matrix lacks
                lacking = [nm for nm, o, tr_ in (('diagonal', obs[0], fl['diag']), ('symmetric', obs[1], fl['sym']),
                                                 ('hermitian', obs[2], fl['herm'] if cplx else fl['sym'])) if o and not tr_]
                if lacking:
                    if in_k06:
                        ctx.violation('impl-violates', K06[0], K06[1], K06[2], dict(lab, reported=lacking))
                    else:
                        ctx.violation('impl-violates', 'matrix_checks', 'a predicate reports only properties the matrix has', f'{cls} matrix',
                                      dict(lab, reported=lacking))
                # solve through auto_determine_solver and the explicit solvers
                for slabel, ctor in solver_menu(pym, cls, cplx, sparse):
                    uses_predicates = slabel.startswith(('auto', 'SolverDenseLDL', 'SolverDenseCholesky'))
                    for t in 'NTH':
                        ctx.search_evaluations += 1
                        ctx.count('magnitude:' + slabel)
                        replay = dict(lab, solver=slabel, trans=t, b0=b0.tolist().__repr__())
                        try:
                            with np.errstate(all='ignore'):
                                solver = auto_determine_solver(As) if ctor is None else ctor()
                                solver.update(As)
                                x = solver.solve(b.copy(), trans=t)
                            res = np.linalg.norm((opmat(A, t) @ x.reshape(n, -1) - b.reshape(n, -1)), axis=0) / np.linalg.norm(b.reshape(n, -1), axis=0)
                            ok = x.shape == b.shape and bool(np.all(np.isfinite(x))) and bool(np.all(res <= 1e-8))
                            got = dict(returned=type(solver).__name__, residual=res.tolist())
                        except Exception as e:
                            ok, got = False, dict(error=repr(e))
                        if ok:
                            continue
                        if in_k06 and uses_predicates:
                            ctx.violation('impl-violates', K06[0], K06[1], K06[2], replay, got=got)
                        else:
                            ctx.violation('impl-violates', slabel.split('(')[0] + ('' if ctor is None else '.solve'),
                                          'op_trans(A) x = b relative to |b| at every magnitude', f'{cls} matrix', replay, got=got)
    ctx.extra['magnitude_cases'] = len(checks)
    return checks, labels


# ----------------------------------------------------------------------------- interactions (testing: search_evaluations)
def _snap(a):
    """bit-level snapshot of a caller-owned array / sparse matrix"""
    if a is None:
        return None
    if sps.issparse(a):
        c = a.tocoo()
        return ('sp', type(a).__name__, a.shape, str(a.dtype), np.asarray(c.row).tobytes(), np.asarray(c.col).tobytes(), np.asarray(c.data).tobytes())
    return ('nd', a.shape, a.strides, str(a.dtype), a.tobytes())


def rhs_layouts(b1, bk):
    """the same right-hand-side values in every memory layout: (name, array)"""
    n = b1.shape[0]
    out = [('1-D', b1.copy())]
    big = np.zeros(2 * n, dtype=b1.dtype)
    big[::2] = b1
    out.append(('1-D strided', big[::2]))
    out.append(('(n,1) C', np.ascontiguousarray(b1.reshape(n, 1))))
    out.append(('(n,1) F', np.asfortranarray(b1.reshape(n, 1))))
    out.append(('(n,1) column of a block', np.asfortranarray(np.stack([b1, 2 * b1], axis=1))[:, :1]))
    out.append(('(n,k) C', np.ascontiguousarray(bk)))
    out.append(('(n,k) F', np.asfortranarray(bk)))
    wide = np.zeros((n, 2 * bk.shape[1]), dtype=bk.dtype)
    wide[:, ::2] = bk
    out.append(('(n,k) strided', wide[:, ::2]))
    return out


def interaction_block(ctx, pym):
    """Scenarios a one-solver-one-call check cannot see (the property's 'for every solver ... every matrix ... every
    right-hand side / initial guess' clause applied to RE-USED objects):
    (a) the arrays the caller owns (rhs in every layout, x0, the matrix) are bit-identical after update()/solve(), and the
        SAME rhs object is solved again for the other trans modes (state solve, then adjoint solve with one load vector);
    (b) initial guesses: exact solutions of the N system as guess for T / H and vice versa, the solution of another
        right-hand side, zero, random -- the residual of the RETURNED x is checked against the requested trans;
    (c) solver-object histories: several update() calls on one solver object with the same matrix object modified in
        place between them, with fresh objects and objects of equal values, interleaved with solves in all trans modes:
        every answer must solve the CURRENT matrix (solver-level analogue of C03's history independence)."""
    S = pym.solvers
    rng = ctx.rng
    from pymoto.solvers import auto_determine_solver
    nint = 0

    def gen_nd(cls, n, cplx):
        """matrix of the class that is not accidentally diagonal: a re-used (auto-determined) solver object must stay
        inside the class it was determined for (LinearSolver.update documents 'same structure')"""
        while True:
            A = lc.gen_matrix(rng, cls, n, cplx)
            if cls == 'diag' or not lc.classify(A)['diag']:
                return A

    def resid(Aref, t, x, bref):
        n = Aref.shape[0]
        r = opmat(Aref, t) @ np.asarray(x).reshape(n, -1) - bref.reshape(n, -1)
        bn = np.linalg.norm(bref.reshape(n, -1), axis=0)
        return np.linalg.norm(r, axis=0) / np.where(bn == 0, 1.0, bn)

    def solvers_for(cls, cplx, sparse):
        """(label, constructor taking the matrix, tolerance)"""
        out = [(lab, (lambda A, c=c: (auto_determine_solver(A) if c is None else c()).update(A) or None), 1e-9)
               for lab, c in solver_menu(pym, cls, cplx, sparse)]
        return out

    def build(lab_ctor, A):
        lab, ctor = lab_ctor
        s_ = auto_determine_solver(A) if ctor is None else ctor()
        s_.update(A)
        return s_

    def cg_menu(sparse):
        m = [('CG', lambda: S.CG(tol=1e-9, maxit=2000)), ('CG+DampedJacobi', lambda: S.CG(preconditioner=S.DampedJacobi(), tol=1e-9, maxit=2000))]
        if sparse:
            m += [('CG+SOR', lambda: S.CG(preconditioner=S.SOR(), tol=1e-9, maxit=2000)), ('CG+ILU', lambda: S.CG(preconditioner=S.ILU(), tol=1e-9, maxit=2000))]
        return m

    def tol_of(lab):
        return 1e-7 if lab.startswith('CG') else 1e-9

    def report(call_site, pred, cls, case, **kw):
        ctx.violation('impl-violates', call_site, pred, cls, case, **kw)

    # ------------------------------------------------------------------ (a) caller-owned arrays, re-used rhs objects
    mats = [('general', lc.gen_matrix(rng, 'general', 4, False)), ('general', lc.gen_matrix(rng, 'general', 3, True)),
            ('spd', lc.gen_matrix(rng, 'spd', 4, False)), ('hpd', lc.gen_matrix(rng, 'hpd', 3, True)),
            ('indef', lc.gen_matrix(rng, 'indef', 3, False)), ('csym', lc.gen_matrix(rng, 'csym', 3, True)),
            ('diag', lc.gen_matrix(rng, 'diag', 3, False)), ('permuted', lc.gen_matrix(rng, 'permuted', 4, False))]
    orders = ['TNH', 'HTN', 'NHT']
    for mi, (cls, A0) in enumerate(mats):
        cplx = bool(np.iscomplexobj(A0))
        n = A0.shape[0]
        for spec in ('dense', 'csc', 'csr'):
            sparse = spec != 'dense'
            menu = [(lab, c) for lab, c in solver_menu(pym, cls, cplx, sparse)]
            if cls in ('spd', 'hpd'):
                menu += cg_menu(sparse)
            for lab, ctor in menu:
                # rhs of the dtype of the factors (what LAPACK can use in place), and a real rhs for a complex matrix
                for rdt in ([complex] if cplx else [float]) + ([float] if cplx and not sparse else []):
                    b1 = lc.gen_rhs(rng, n, 'vec', rdt is complex).astype(rdt)
                    bk = lc.gen_rhs(rng, n, 'blk', rdt is complex).astype(rdt)
                    for li, (lname, b) in enumerate(rhs_layouts(b1, bk)):
                        Aown = storage(A0.copy(), spec)
                        Aref = A0.copy()
                        a_before = _snap(Aown)
                        try:
                            solver = auto_determine_solver(Aown) if ctor is None else ctor()
                            solver.update(Aown)
                        except Exception as e:
                            report(lab.split('(')[0] + '.update', 'factorisation of a matrix of the documented class', f'{cls} matrix',
                                   dict(solver=lab, A=A0.tolist().__repr__(), storage=spec, error=repr(e)))
                            break
                        bref = b.copy()
                        b_before = _snap(b)
                        case = dict(solver=lab, storage=spec, cls=cls, A=A0.tolist().__repr__(), rhs_layout=lname, rhs_dtype=str(b.dtype),
                                    b=bref.tolist().__repr__())
                        for t in orders[(mi + li) % 3]:
                            nint += 1
                            ctx.search_evaluations += 1
                            ctx.count('interaction:a:rhs ' + lname)
                            try:
                                x = solver.solve(b, trans=t)          # the caller's array itself, not a copy
                            except Exception as e:
                                report(lab.split('(')[0] + '.solve', 'solve raises for a matrix of the documented class', f'{cls} matrix',
                                       dict(case, trans=t, order=orders[(mi + li) % 3], error=repr(e)))
                                break
                            if _snap(b) != b_before:
                                report(lab.split('(')[0] + '.solve', 'the caller-owned right-hand side is bit-identical after solve', f'{cls} matrix',
                                       dict(case, trans=t, order=orders[(mi + li) % 3]), expected=bref.tolist().__repr__()[:600], got=b.tolist().__repr__()[:600])
                                break
                            if _snap(Aown) != a_before:
                                report(lab.split('(')[0] + '.solve', 'the caller-owned matrix is bit-identical after update and solve', f'{cls} matrix',
                                       dict(case, trans=t))
                                break
                            res = resid(Aref, t, x, bref)
                            if np.asarray(x).shape != bref.shape or not np.all(np.isfinite(x)) or not np.all(res <= 10 * tol_of(lab)):
                                report(lab.split('(')[0] + '.solve', 'op_trans(A) x = b when the same right-hand-side object is solved for several trans modes',
                                       f'{cls} matrix', dict(case, trans=t, order=orders[(mi + li) % 3]), got=res.tolist().__repr__())
                                break

    # ------------------------------------------------------------------ (b) initial guesses
    for gi, (cls, cplx) in enumerate((('hpd', True), ('spd', False), ('hpd', True))):
        n = 4 + gi
        A0 = lc.gen_matrix(rng, cls, n, cplx)
        for spec in ('dense', 'csc', SPARSE_FORMATS[1 + (ctx.seed + gi) % 6]):
            sparse = spec != 'dense'
            A = storage(A0.copy(), spec)
            menu = cg_menu(sparse) + [(lab, c) for lab, c in solver_menu(pym, cls, cplx, sparse) if not lab.startswith('auto')][:2]
            for kind in ('vec', 'blk'):
                b = lc.gen_rhs(rng, n, kind, cplx)
                b2 = lc.gen_rhs(rng, n, kind, cplx)
                exact = {t: np.linalg.solve(opmat(A0, t), b.reshape(n, -1)).reshape(b.shape) for t in 'NTH'}
                guesses = [('exact N', exact['N']), ('exact T', exact['T']), ('exact H', exact['H']),
                           ('solution of another rhs', np.linalg.solve(A0, b2.reshape(n, -1)).reshape(b.shape)),
                           ('zero', np.zeros_like(b)), ('random', lc.gen_rhs(rng, n, kind, cplx).reshape(b.shape))]
                for lab, ctor in menu:
                    try:
                        solver = ctor()
                        solver.update(A)
                    except Exception as e:
                        report(lab.split('(')[0].split('+')[0] + '.update', 'set-up succeeds for a Hermitian positive definite matrix', f'{cls} matrix',
                               dict(solver=lab, A=A0.tolist().__repr__(), storage=spec, error=repr(e)))
                        continue
                    for gname, g in guesses:
                        for t in 'NTH':
                            nint += 1
                            ctx.search_evaluations += 1
                            ctx.count(f'interaction:b:guess {gname} for trans {t}')
                            g_own, b_own = g.copy(), b.copy()
                            gs, bs = _snap(g_own), _snap(b_own)
                            case = dict(solver=lab, storage=spec, cls=cls, A=A0.tolist().__repr__(), b=b.tolist().__repr__(), trans=t,
                                        guess=gname, x0=g.tolist().__repr__()[:1500])
                            try:
                                x = solver.solve(b_own, x0=g_own, trans=t)
                            except Exception as e:
                                report(lab.split('+')[0].split('(')[0] + '.solve', 'solve raises for a Hermitian positive definite matrix', f'{cls} matrix', dict(case, error=repr(e)))
                                continue
                            if _snap(g_own) != gs or _snap(b_own) != bs:
                                report(lab.split('+')[0].split('(')[0] + '.solve', 'the caller-owned initial guess and right-hand side are bit-identical after solve',
                                       f'{cls} matrix', case)
                            res = resid(A0, t, x, b)
                            if np.asarray(x).shape != b.shape or not np.all(np.isfinite(x)) or not np.all(res <= 10 * tol_of(lab)):
                                report(lab.split('+')[0].split('(')[0] + '.solve', 'the RETURNED x solves the requested op_trans system for every initial guess',
                                       f'{cls} matrix', case, got=res.tolist().__repr__())

    # ------------------------------------------------------------------ (c) solver-object histories
    def modifications(cls, cplx, n):
        """in-place modifications that keep the matrix inside the documented class of the solvers of `cls`"""
        def shift(M):
            # away from zero along the phase of every diagonal entry: keeps the (permuted) diagonal dominance, the class
            # (real phases for Hermitian matrices) and the definiteness
            d = np.diag(M).copy()
            M[np.arange(n), np.arange(n)] += (3 + rng.randint(0, 3)) * d / np.abs(d)
        mods = [('diagonal shift', shift),
                ('scaling', lambda M: M.__imul__(2.0)),
                ('changed entries', None)]
        if cls not in ('spd', 'hpd/cg'):
            mods.append(('changed definiteness (sign flip)', lambda M: M.__imul__(-1.0)))
        return mods

    def change_entries(M, cls):
        n = M.shape[0]
        if n < 2:
            M[0, 0] += 1
            return
        if cls == 'diag':
            M[0, 0] += 2
            return
        d = 1.0
        if cls in ('lower',):
            M[1, 0] += d
        elif cls in ('general', 'permuted'):
            M[0, 1] += d
            M[1, 1] += 0.5 if M[1, 1].real >= 0 else -0.5
        else:                       # symmetric / Hermitian classes stay symmetric / Hermitian; dominance kept by the diagonal
            M[0, 1] += d
            M[1, 0] += d
            for i in (0, 1):
                M[i, i] += 2 * (1 if M[i, i].real >= 0 else -1)

    hist = [('general', False, False), ('general', True, False), ('spd', False, False), ('hpd', True, False), ('indef', False, False),
            ('csym', True, False), ('diag', False, False), ('spd', False, True), ('hpd', True, True), ('general', False, True)]
    for hi, (cls, cplx, sparse) in enumerate(hist):
        n = 4
        menu = [(lab, c) for lab, c in solver_menu(pym, cls, cplx, sparse)]
        if cls in ('spd', 'hpd'):
            menu += cg_menu(sparse)
        for lab, ctor in menu:
            iscg = lab.startswith('CG')
            A0 = gen_nd(cls, n, cplx)
            M = A0.copy()                       # the dense master copy of the CURRENT values
            Aown = sps.csc_matrix(M) if sparse else M
            try:
                solver = auto_determine_solver(Aown) if ctor is None else ctor()
            except Exception as e:
                report(lab + '.update', 'construction', f'{cls} matrix', dict(solver=lab, error=repr(e)))
                continue
            trail = []
            mods = modifications('hpd/cg' if iscg else cls, cplx, n)
            steps = ['first', 'same object modified', 'same object modified', 'fresh copy', 'same object modified', 'equal values new object',
                     'same object unmodified', 'same object modified']
            bfix = lc.gen_rhs(rng, n, 'vec', cplx)           # one load vector kept for the whole history
            for si, step in enumerate(steps):
                if step == 'same object modified':
                    mname, f = mods[(si + hi) % len(mods)]
                    if f is None:
                        change_entries(M, cls)
                    else:
                        f(M)
                    if sparse:               # write the new values into the SAME sparse object
                        new = sps.csc_matrix(M)
                        if new.nnz == Aown.nnz and np.array_equal(new.indices, Aown.indices) and np.array_equal(new.indptr, Aown.indptr):
                            Aown.data[:] = new.data
                        else:
                            Aown = new
                            mname += ' (pattern changed: new object)'
                    trail.append(mname)
                elif step == 'fresh copy':
                    M = M.copy()
                    Aown = sps.csc_matrix(M) if sparse else M
                    trail.append('fresh copy')
                elif step == 'equal values new object':
                    M = np.array(M.tolist(), dtype=M.dtype)
                    Aown = sps.csc_matrix(M) if sparse else M
                    trail.append('equal values, new object')
                else:
                    trail.append(step)
                cur = M.copy()
                a_before = _snap(Aown)
                try:
                    solver.update(Aown)
                except Exception as e:
                    report(lab.split('(')[0].split('+')[0] + '.update', 'update() of a re-used solver object succeeds for a matrix of the documented class',
                           f'{cls} matrix', dict(solver=lab, history=list(trail), A=cur.tolist().__repr__(), error=repr(e)))
                    break
                bad = False
                for t in ('NTH', 'THN', 'HNT')[si % 3]:
                    nint += 1
                    ctx.search_evaluations += 1
                    ctx.count('interaction:c:' + trail[-1].split(' (')[0])
                    b = bfix if t != 'N' or si % 2 else lc.gen_rhs(rng, n, 'blk', cplx)
                    bs, bref = _snap(b), b.copy()
                    case = dict(solver=lab, storage='csc' if sparse else 'dense', cls=cls, A_first=A0.tolist().__repr__(), history=list(trail),
                                A_current=cur.tolist().__repr__(), b=bref.tolist().__repr__(), trans=t)
                    try:
                        x = solver.solve(b, trans=t)
                    except Exception as e:
                        report(lab.split('(')[0].split('+')[0] + '.solve', 'solve of a re-used solver object raises', f'{cls} matrix', dict(case, error=repr(e)))
                        bad = True
                        break
                    res = resid(cur, t, x, bref)
                    if _snap(b) != bs or _snap(Aown) != a_before:
                        report(lab.split('(')[0].split('+')[0] + '.solve', 'the caller-owned right-hand side and matrix are bit-identical after update and solve',
                               f'{cls} matrix', case)
                        bad = True
                        break
                    if np.asarray(x).shape != bref.shape or not np.all(np.isfinite(x)) or not np.all(res <= 10 * tol_of(lab)):
                        report(lab.split('(')[0].split('+')[0] + '.solve',
                               'after update() every answer solves the CURRENT matrix (same matrix object modified in place, fresh and equal-valued objects)',
                               f'{cls} matrix', case, got=res.tolist().__repr__())
                        bad = True
                        break
                if bad:
                    break
    # two solver objects sharing one matrix object, one solver object alternating between two matrices
    for cls, cplx in (('spd', False), ('hpd', True), ('general', False)):
        A = gen_nd(cls, 4, cplx)
        B = gen_nd(cls, 4, cplx)
        menu = [(lab, c) for lab, c in solver_menu(pym, cls, cplx, False)]
        objs = [(lab, auto_determine_solver(A) if c is None else c()) for lab, c in menu]
        b = lc.gen_rhs(rng, 4, 'vec', cplx)
        for rnd, Mx in enumerate((A, B, A, A, B)):
            if rnd == 3:
                dA = np.diag(A).copy()              # in place (away from zero: keeps the diagonal dominance), then the same object again
                A[np.arange(4), np.arange(4)] += 2 * dA / np.abs(dA)
            cur = Mx.copy()
            for lab, so in (objs if rnd % 2 == 0 else objs[::-1]):
                so.update(Mx)
            for lab, so in objs:
                for t in 'NTH':
                    nint += 1
                    ctx.search_evaluations += 1
                    ctx.count('interaction:c:several solver objects on shared matrix objects')
                    try:
                        x = so.solve(b, trans=t)
                        res = resid(cur, t, x, b)
                    except Exception as e:
                        res = np.array([np.inf])
                    if not np.all(res <= 1e-8):
                        report(lab.split('(')[0] + '.solve',
                               'after update() every answer solves the CURRENT matrix (same matrix object modified in place, fresh and equal-valued objects)',
                               f'{cls} matrix', dict(solver=lab, scenario='solver objects sharing matrix objects A, B, A, A (modified in place), B', round=rnd,
                                                     A_current=cur.tolist().__repr__(), b=b.tolist().__repr__(), trans=t), got=res.tolist().__repr__())
    ctx.extra['interaction_runs'] = nint
    ctx.extra['interaction_note'] = ("interaction block = the property's 'for every solver / matrix / right-hand side / initial guess' clause applied to "
                                     "re-used solver objects, re-used right-hand-side objects and matrices modified in place (solver-level analogue of "
                                     "C03's history independence); oracle only (search evaluations)")


def load_corpus():
    d = os.path.join(vlib.ROOT, 'corpus', 'C05')
    out = []
    if os.path.isdir(d):
        for fn in sorted(os.listdir(d)):
            if fn.endswith('.json'):
                with open(os.path.join(d, fn)) as f:
                    j = json.load(f)
                out += j if isinstance(j, list) else [j]
    return out


def load_cg_corpus():
    p = os.path.join(vlib.ROOT, 'corpus', 'C05', 'cg', 'witnesses.json')
    if not os.path.exists(p):
        return []
    with open(p) as f:
        return json.load(f)


def _cnum(v):
    return complex(*v) if isinstance(v, list) else v


# ----------------------------------------------------------------------------- CG sweep (testing: search_evaluations)
def multigrid(S, dom, levels, **kw):
    """GeometricMultigrid on `dom` with `levels` nested multigrid levels (each one on the sub-domain of the previous),
    built the way examples/topology_optimization/ex_compliance_multigrid.py does; the innermost coarse solver is the
    automatically determined direct solver"""
    top = S.GeometricMultigrid(dom, **{k: (v() if callable(v) else v) for k, v in kw.items()})
    cur = top
    for _ in range(levels - 1):
        nxt = S.GeometricMultigrid(cur.sub_domain, **{k: (v() if callable(v) else v) for k, v in kw.items()})
        cur.inner_level = nxt
        cur = nxt
    return top


def cg_sweep(ctx, pym):
    S = pym.solvers
    rng = ctx.rng
    tol = 1e-7
    nrun = 0
    mg_checks, mg_labels, mg_seen = [], [], set()

    def observe_interp(mg, sizes, ndof, how):
        """the prolongation R of every nested multigrid level vs Model/MGInterp.v (exact, in Coq)"""
        nx, ny, nz = sizes
        while type(mg).__name__ == 'GeometricMultigrid':
            key = (nx, ny, nz, ndof)
            R = getattr(mg, 'R', None)
            if R is not None and key not in mg_seen:
                mg_seen.add(key)
                Rc = sps.coo_matrix(R)
                Rc.sum_duplicates()
                v8 = np.asarray(Rc.data).real * 8
                lab = dict(domain=[nx, ny, nz], ndof=ndof, shape=list(Rc.shape), how=how)
                ctx.case(('mg-interp', key), True, sample=dict(case=f'prolongation of domain {key}'))
                ctx.count(f'mg-interp:{"2-D" if nz == 0 else "3-D"} {"square/cubic" if nx == ny and nz in (0, nx) else "rectangular"}, ndof={ndof}')
                ctx.search_evaluations += 1
                colmax = np.asarray(abs(Rc).max(axis=0).todense()).ravel() if Rc.nnz else np.zeros(Rc.shape[1])
                if np.any(colmax == 0):
                    # plain statement on the implementation: no coarse dof is left out (an empty column of R makes the
                    # Galerkin coarse matrix R^T A R singular, so the preconditioner cannot be applied)
                    ctx.violation('impl-violates', 'GeometricMultigrid.setup_interpolation', 'every coarse dof has an entry in R',
                                  f'{"2-D" if nz == 0 else "3-D"} domain', lab,
                                  got=dict(empty_columns=np.nonzero(colmax == 0)[0].tolist()[:20]))
                keys = Rc.row.astype(np.int64) * Rc.shape[1] + Rc.col.astype(np.int64)
                o = np.argsort(keys, kind='stable')
                obs = '[' + '; '.join(f'({int(keys[t])}, {int(round(v8[t]))})' for t in o) + ']'
                shape_ok = Rc.shape == (ndof * (nx + 1) * (ny + 1) * (nz + 1), ndof * (nx // 2 + 1) * (ny // 2 + 1) * (nz // 2 + 1))
                exact8 = bool(np.array_equal(v8, np.round(v8)) and not np.any(np.imag(np.asarray(Rc.data))))   # multiples of 1/8
                mg_checks.append(f'interp_matches {{| nelx := {nx}; nely := {ny}; nelz := {nz} |}} {ndof} {obs} && {vlib.blit(shape_ok)} && {vlib.blit(exact8)}')
                mg_labels.append(lab)
            mg = getattr(mg, 'inner_level', None)
            nx, ny, nz = nx // 2, ny // 2, nz // 2

    def container(A, kind):
        if kind == 'dense':
            return A
        return getattr(sps, kind if '_' in kind else kind + '_matrix')(A)

    def make(label, cls, A, pc, replay, **kw):
        """CG(A, preconditioner): set-up failures are failures of the property (a solver that cannot be built cannot solve)"""
        ctx.search_evaluations += 1
        try:
            return S.CG(A, preconditioner=pc(), tol=tol, **kw)
        except Exception as e:
            ctx.violation('impl-violates', label.split('+')[0].split('[')[0] + '.update', 'preconditioner set-up succeeds for a Hermitian positive definite matrix',
                          cls, dict(replay, error=repr(e)))
            return None

    def check(label, A, solver, b, t, x0, cls, extra=None, narrow=False):
        nonlocal nrun
        nrun += 1
        ctx.search_evaluations += 1
        ctx.count('cg:' + label)
        ctx.count('cg:trans:' + t)
        ctx.count('cg:x0' if x0 is not None else 'cg:no x0')
        replay = dict(solver='CG', preconditioner=label, A=(A.toarray() if sps.issparse(A) else A).tolist().__repr__()[:6000],
                      b=b.tolist().__repr__()[:3000], trans=t, x0=None if x0 is None else x0.tolist().__repr__()[:3000])
        if extra:
            replay = dict(extra, preconditioner=label, b=b.tolist().__repr__()[:3000], trans=t, x0=replay['x0'])
        with warnings.catch_warnings(record=True) as w:
            warnings.simplefilter('always')
            try:
                x = solver.solve(b.copy(), x0=None if x0 is None else x0.copy(), trans=t)
            except Exception as e:
                if narrow and type(e).__name__ == 'UFuncTypeError':
                    # F31 (fixed): x kept the dtype of the guess, `x += p @ alpha` could not cast
                    ctx.violation('impl-violates', 'CG.solve', 'solve accepts an initial guess of narrower dtype than the solution',
                                  'x0 real/integer, system complex/float', dict(replay, error=repr(e)))
                elif type(A).__name__.startswith('dok') and x0 is None and isinstance(e, (IndexError, ValueError)) \
                        and not isinstance(e, np.linalg.LinAlgError):
                    # F29 (fixed): np.result_type received the DOK container itself
                    ctx.violation('impl-violates', 'CG.solve', 'solve returns for a Hermitian positive definite matrix in DOK storage without initial guess',
                                  'DOK container, x0=None', dict(replay, error=repr(e)))
                else:
                    ctx.violation('impl-violates', 'CG.solve', 'solve raises for a Hermitian positive definite matrix', cls, dict(replay, error=repr(e)))
                return
        warned = any('Maximum iterations' in str(m.message) for m in w)
        Ao = opmat(A, t)
        r = Ao @ (x.reshape(x.shape[0], -1)) - b.reshape(b.shape[0], -1)
        # per column, relative to |b_j|; a zero column (solution zero) is measured absolutely (Model/CGExit.v)
        bn = np.linalg.norm(b.reshape(b.shape[0], -1), axis=0)
        nzero = int(np.sum(bn == 0))
        ctx.count('cg:zero columns in b:' + ('none' if nzero == 0 else 'all' if nzero == bn.size else 'some'))
        rel = np.linalg.norm(r, axis=0) / np.where(bn == 0, 1.0, bn)
        want_c = np.iscomplexobj(Ao) or np.iscomplexobj(b)
        if nzero == bn.size and x0 is None and x.shape == b.shape and (not np.all(np.isfinite(x)) or np.any(x != 0)):
            # C05_cg_zero_rhs: zero right-hand side without initial guess returns exactly zero
            ctx.violation('impl-violates', 'CG.solve', 'zero right-hand side without initial guess returns x = 0', cls, replay,
                          expected='zeros', got=x.tolist().__repr__()[:500])
        elif x.shape != b.shape or (x.dtype.kind == 'c') != want_c:
            ctx.violation('impl-violates', 'CG.solve', 'x has the shape and dtype class of b', cls, replay, expected=str(b.shape), got=str(x.shape) + str(x.dtype))
        elif warned or not np.all(np.isfinite(x)) or not np.all(rel <= 10 * tol):
            ctx.violation('impl-violates', 'CG.solve', '||op_trans(A) x - b|| <= 10 tol ||b|| without max-iteration warning', cls,
                          replay, expected=f'<= {10 * tol}', got=rel.tolist().__repr__())

    def rhs(n, kind, cplx):
        return lc.gen_rhs(rng, n, kind, cplx)

    def zero_rhs(n, zk, cplx):
        """zero right-hand sides and blocks with an all-zero column: alone, first, middle, last"""
        c0, c1 = lc.gen_rhs(rng, n, 'vec', cplx), lc.gen_rhs(rng, n, 'vec', cplx)
        z = np.zeros_like(c0)
        return {'zero vec': z, 'zero col': z.reshape(n, 1), 'zero block': np.stack([z, z], axis=1),
                'zero first': np.stack([z, c0, c1], axis=1), 'zero middle': np.stack([c0, z, c1], axis=1),
                'zero last': np.stack([c0, c1, z], axis=1)}[zk]
    ZERO_KINDS = ['zero vec', 'zero col', 'zero block', 'zero first', 'zero middle', 'zero last']

    def guess(b, cplx):
        n = b.shape[0]
        return (lc.gen_rhs(rng, n, 'vec', cplx) if b.ndim == 1 else
                np.stack([lc.gen_rhs(rng, n, 'vec', cplx) for _ in range(b.shape[1])], axis=1))

    def pcs_for(stor):
        pcs = [('Preconditioner', lambda: S.Preconditioner()), ('DampedJacobi', lambda: S.DampedJacobi(w=rng.choice([0.5, 1.0])))]
        if stor != 'dense':
            pcs += [('SOR', lambda: S.SOR(w=rng.choice([0.8, 1.0, 1.3]))), ('ILU', lambda: S.ILU())]
        return pcs
    PCS = {'Preconditioner': lambda: S.Preconditioner(), 'DampedJacobi': lambda: S.DampedJacobi(), 'SOR': lambda: S.SOR(), 'ILU': lambda: S.ILU()}

    # ---- corpus: witnesses of repaired defects and deliberately chosen dependent blocks, every run
    for c in load_cg_corpus():
        A = np.array([[_cnum(v) for v in row] for row in c['A']])
        A = A.astype(complex) if np.iscomplexobj(A) else A.astype(float)
        b = np.array([[_cnum(v) for v in row] if isinstance(row, list) else row for row in c['b']])
        b = b.astype(complex) if (np.iscomplexobj(b) or c.get('cdep') or c.get('idup')) else b.astype(float)
        if c.get('cdep'):
            b[:, 2] = (1 + 2j) * b[:, 0] - 1j * b[:, 1]
        if c.get('idup'):
            b[:, 1] = 1j * b[:, 0]
        for cont in c['containers']:
            As = container(A, cont)
            for pl in c['preconditioners']:
                if cont == 'dense' and pl in ('SOR', 'ILU'):
                    continue
                cls = f'corpus {c["name"]}, {cont}'
                solver = make(pl, cls, As, PCS[pl], dict(A=A.tolist().__repr__(), container=cont, preconditioner=pl))
                if solver is None:
                    continue
                x0 = None if c.get('x0') is None else np.array(c['x0'], dtype=c.get('x0_dtype', 'float'))
                for t in 'NTH':
                    check(pl, As, solver, b, t, x0, cls, narrow=x0 is not None)

    # ---- an initial guess of narrower dtype than the solution (real guess for a complex system, integer guess):
    #      witnesses of F31 (fixed), vector and block
    Ac_ = np.array([[6, 1 + 1j, 0], [1 - 1j, 7, 2 - 1j], [0, 2 + 1j, 8]])
    Ar_ = np.array([[4., 1, 0], [1, 5, 2], [0, 2, 6]])
    for nm_, A, b, x0 in (('real x0, complex matrix, real rhs', Ac_, np.array([1., 2, 3]), np.ones(3)),
                          ('real x0, complex matrix, complex block', Ac_, np.array([[1j, 1], [2, 0], [3, -1j]]), np.ones((3, 2))),
                          ('real x0, real matrix, complex rhs', Ar_, np.array([1j, 2, 3]), np.ones(3)),
                          ('integer x0, real matrix, real rhs', Ar_, np.array([1., 2, 3]), np.ones(3, dtype=int))):
        for cont in ('dense', 'csc'):
            if cont == 'csc' and not np.iscomplexobj(A) and np.iscomplexobj(b):
                continue
            As = container(A, cont)
            for pl in ('Preconditioner', 'DampedJacobi') + (('SOR',) if cont == 'csc' else ()):
                solver = make(pl, nm_, As, PCS[pl], dict(A=A.tolist().__repr__(), container=cont, preconditioner=pl))
                if solver is None:
                    continue
                for t in 'NTH':
                    check(pl, As, solver, b, t, x0, 'narrow x0: ' + nm_, narrow=True)

    # ---- random HPD / SPD matrices: dense + two sparse containers (every container on every run) x preconditioners
    nm = 10 if ctx.quick() else 60
    for k in range(nm):
        cplx = k % 2 == 1
        n = rng.choice([2, 3, 4, 5, 6, 8, 12])
        A = lc.gen_matrix(rng, 'hpd' if cplx else 'spd', n, cplx)
        stors = ['dense', SPARSE_FORMATS[k % 7], SPARSE_FORMATS[(k + 3) % 7]]
        if k % 5 == 4:
            stors.append(SPARSE_FORMATS[(k + 5) % 7] + '_array')
        for stor in stors:
            As = container(A, stor)
            ctx.count('cg:container:' + stor)
            for pl, pc in pcs_for(stor):
                cls = ('complex ' if cplx else 'real ') + 'HPD matrix, ' + stor
                solver = make(pl, cls, As, pc, dict(A=A.tolist().__repr__(), container=stor, preconditioner=pl),
                              maxit=1000, restart=rng.choice([1, 3, 50]))
                if solver is None:
                    continue
                for t in 'NTH':
                    kinds = ['vec', 'col', 'blk', 'dup', 'wide', 'zero']
                    # a real matrix takes complex right-hand sides too (x gets the result type), unless the preconditioner is
                    # built on a real SuperLU factorisation (refuses complex data: malformed stream)
                    bc_ = cplx or (pl in ('Preconditioner', 'DampedJacobi') and rng.random() < 0.3)
                    if bc_:
                        kinds += ['cdep', 'idup']
                    kind = rng.choice(kinds)
                    ctx.count('cg:rhs:' + kind)
                    b = rhs(n, kind, bc_)
                    x0 = guess(b, bc_) if rng.random() < 0.5 else None
                    check(pl, As, solver, b, t, x0, cls)
    # ---- deliberately chosen: columns that depend on each other through NON-REAL coefficients, every preconditioner,
    #      with and without initial guess, every trans, every run
    for cplx in (True, False):
        n = 6
        A = lc.gen_matrix(rng, 'hpd' if cplx else 'spd', n, cplx)
        for si, stor in enumerate(('dense', 'csc', SPARSE_FORMATS[2 + (ctx.seed + (1 if cplx else 4)) % 5])):
            As = container(A, stor)
            for pl, pc in pcs_for(stor):
                if not cplx and pl in ('SOR', 'ILU'):
                    continue    # real SuperLU factors refuse complex right-hand sides
                cls = ('complex ' if cplx else 'real ') + 'HPD matrix, ' + stor + ', non-real dependency between columns'
                solver = make(pl, cls, As, pc, dict(A=A.tolist().__repr__(), container=stor, preconditioner=pl), maxit=1000)
                if solver is None:
                    continue
                for kind in ('cdep', 'idup'):
                    for t in 'NTH':
                        b = rhs(n, kind, True)
                        ctx.count('cg:rhs:' + kind)
                        check(pl, As, solver, b, t, guess(b, True) if (si + len(kind) + 'NTH'.index(t)) % 2 else None, cls)

    # ---- deliberately chosen: zero right-hand sides and all-zero columns (alone, first, middle, last), every
    #      preconditioner, every trans, with and without initial guess, every run (F34)
    for cplx in (False, True):
        n = 5
        A = lc.gen_matrix(rng, 'hpd' if cplx else 'spd', n, cplx)
        for si, stor in enumerate(('dense', 'csc', SPARSE_FORMATS[1 + (ctx.seed + (2 if cplx else 5)) % 6])):
            As = container(A, stor)
            for pl, pc in pcs_for(stor):
                cls = ('complex ' if cplx else 'real ') + 'HPD matrix, ' + stor + ', zero right-hand side / zero column'
                solver = make(pl, cls, As, pc, dict(A=A.tolist().__repr__(), container=stor, preconditioner=pl), maxit=1000,
                              restart=rng.choice([1, 3, 50]))
                if solver is None:
                    continue
                for zi, zk in enumerate(ZERO_KINDS):
                    for ti, t in enumerate('NTH'):
                        b = zero_rhs(n, zk, cplx)
                        ctx.count('cg:rhs:' + zk)
                        for x0 in ((None, guess(b, cplx)) if zi < 3 else ((None,) if (zi + ti + si) % 2 else (guess(b, cplx),))):
                            check(pl, As, solver, b, t, x0, cls)

    # ---- FE matrices on rectangular domains (nelx != nely != nelz): geometric multigrid with nested levels, and the
    #      one-level preconditioners; every sparse container
    fe = [((4, 4, 0), 'stiff', 1), ((6, 4, 0), 'poisson', 1), ((4, 6, 0), 'stiff', 1), ((8, 4, 0), 'stiff', 2), ((4, 8, 0), 'poisson', 2),
          ((16, 8, 0), 'poisson', 3), ((4, 12, 0), 'stiff', 2),
          ((2, 2, 2), 'stiff', 1), ((4, 2, 2), 'poisson', 1), ((2, 4, 6), 'poisson', 1), ((6, 2, 4), 'stiff', 1), ((8, 4, 4), 'poisson', 2),
          ((4, 8, 4), 'poisson', 2)]
    if not ctx.quick():
        fe += [((8, 8, 0), 'stiff', 2), ((10, 6, 0), 'poisson', 1), ((12, 4, 0), 'poisson', 2), ((8, 16, 0), 'stiff', 3), ((24, 8, 0), 'poisson', 3),
               ((4, 4, 4), 'stiff', 2), ((4, 4, 2), 'poisson', 1), ((4, 8, 12), 'poisson', 2), ((4, 8, 4), 'stiff', 2), ((2, 6, 4), 'stiff', 1),
               ((8, 4, 12), 'poisson', 2)]
    for fi, ((nx, ny, nz), kind, levels) in enumerate(fe):
        dom = pym.DomainDefinition(nx, ny, nz)
        ndof = 1 if kind == 'poisson' else dom.dim
        nodes = dom.nodes[0, ...].flatten()
        bc = np.concatenate([nodes * ndof + d for d in range(ndof)])
        xval = np.array([0.2 + 0.8 * rng.random() for _ in range(dom.nel)])
        sx = pym.Signal('x', xval)
        m = (pym.AssemblePoisson if kind == 'poisson' else pym.AssembleStiffness)(sx, domain=dom, bc=bc)
        m.response()
        K0 = m.sig_out[0].state
        n = K0.shape[0]
        fmt = SPARSE_FORMATS[(fi + ctx.seed) % 7]
        kc = fi % 4 == 1            # complex dtype (real values): complex right-hand sides pass through SuperLU-based parts
        K0 = K0.astype(complex) if kc else K0
        K = K0 if fi % 3 == 0 else container(K0, fmt)
        ctx.count('cg:fe-container:' + type(K).__name__)
        ctx.count(f'cg:fe-domain:{"square/cubic" if (nx == ny and (nz in (0, nx))) else "rectangular"} {dom.dim}-D, {levels} multigrid level(s)')
        base = dict(domain=[nx, ny, nz], kind=kind, levels=levels, container=type(K).__name__, complex_dtype=kc, x=xval.tolist().__repr__()[:4000])
        cls = f'FE {kind} matrix {dom.dim}-D'

        def fe_rhs():
            kb = rng.choice([1, 2, 3])
            cb = kc and rng.random() < 0.7
            b = np.array([[complex(rng.randint(-5, 5), rng.randint(-5, 5)) if cb else rng.randint(-5, 5) for _ in range(kb)] for _ in range(n)],
                         dtype=complex if cb else float)
            b[bc, :] = 0
            if not np.all(np.any(b, axis=0)):
                b[-1, :] = 1
            if kb == 3 and cb:
                b[:, 2] = (1 + 2j) * b[:, 0] - 1j * b[:, 1]      # non-real dependency
            if kb >= 2 and rng.random() < 0.25:
                b[:, rng.randrange(kb)] = 0                      # an all-zero column
            if kb == 1 and rng.random() < 0.5:
                b = b[:, 0].copy()
            return b
        for cyc in ('V', 'W'):
            for pl, kw in ((f'GeometricMultigrid[{levels}]', dict(cycle=cyc)),
                           (f'GeometricMultigrid[{levels}]+SOR', dict(cycle=cyc, smoother=lambda: S.SOR(w=1.0), smooth_steps=2))):
                built = []

                def build():
                    built.append(multigrid(S, dom, levels, **kw))
                    return built[0]
                solver = make(pl, cls, K, build, dict(base, preconditioner=pl, cycle=cyc), maxit=1000)
                if built:
                    observe_interp(built[0], (nx, ny, nz), ndof, 'CG set-up on the FE matrix')
                if solver is None:
                    continue
                for t in 'NTH':
                    b = fe_rhs()
                    if cyc == 'V' and t == 'NTH'[fi % 3]:
                        b = np.zeros_like(b)                     # zero right-hand side through the multigrid levels
                    x0 = None if rng.random() < 0.5 else np.array(np.random.default_rng(ctx.seed + nrun).standard_normal(b.shape))
                    if x0 is not None and kc:
                        x0 = x0 + 0j       # guess of the result type (narrower guesses: see the dedicated probe above)
                    check(pl, K, solver, b, t, x0, cls, extra=dict(base, cycle=cyc))
        # one-level preconditioners on the same rectangular-domain matrix (one trans each, rotating)
        for pi, (pl, pc) in enumerate((('DampedJacobi', lambda: S.DampedJacobi(w=1.0)), ('SOR', lambda: S.SOR(w=1.2)), ('ILU', lambda: S.ILU()))):
            if n > 400 and pl == 'DampedJacobi':
                continue
            solver = make(pl, cls, K, pc, dict(base, preconditioner=pl), maxit=3000)
            if solver is None:
                continue
            b = fe_rhs()
            check(pl, K, solver, b, 'NTH'[(pi + fi) % 3], None, cls, extra=base)
    # ---- further domains, prolongation only (set-up through the public constructor on an identity matrix)
    more = [((2, 6, 0), 1), ((10, 4, 0), 2), ((4, 10, 0), 1), ((2, 2, 4), 1), ((4, 2, 6), 2), ((6, 4, 2), 1), ((2, 6, 4), 3), ((12, 2, 0), 3)]
    if not ctx.quick():
        more += [((2 * rng.randint(1, 8), 2 * rng.randint(1, 8), 0), rng.randint(1, 3)) for _ in range(12)]
        more += [((2 * rng.randint(1, 4), 2 * rng.randint(1, 4), 2 * rng.randint(1, 4)), rng.randint(1, 3)) for _ in range(10)]
    for (nx, ny, nz), ndof in more:
        dom = pym.DomainDefinition(nx, ny, nz)
        mg = None
        ctx.search_evaluations += 1
        try:
            mg = S.GeometricMultigrid(dom)
            mg.update(sps.identity(ndof * dom.nnodes, format='csc'))
        except Exception as e:
            ctx.violation('impl-violates', 'GeometricMultigrid.update', 'preconditioner set-up succeeds for a Hermitian positive definite matrix',
                          f'identity matrix on a {dom.dim}-D domain', dict(domain=[nx, ny, nz], ndof=ndof, error=repr(e)))
        if mg is not None:
            observe_interp(mg, (nx, ny, nz), ndof, 'update(identity)')
    failing, err = vlib.run_cases(ctx, 'mginterp', MG_HEADER, mg_checks, chunk=6)
    ctx.obligation('correspondence:multigrid prolongation case files evaluated', 'correspondence', not err, err)
    if err:
        ctx.violation('correspondence', 'GeometricMultigrid.setup_interpolation', 'case files compile', 'harness', dict(error=err[-3000:]), theorem='cases')
    for idx in failing[:20]:
        ctx.violation('correspondence', 'GeometricMultigrid.setup_interpolation', 'R == Model/MGInterp.v interp_triples (exact)', 'prolongation',
                      mg_labels[idx], note='Coq model: ' + mg_checks[idx][:300])
    ctx.extra['mg_interp_cases'] = len(mg_checks)
    ctx.extra['cg_runs'] = nrun


if __name__ == '__main__':
    vlib.main(run, 'C05')
