"""C05 — every linear solver solves the requested (transposed/adjoint) system."""
import os, json, warnings, itertools
from fractions import Fraction
import numpy as np
import scipy.sparse as sps
import scipy.linalg as spla
import vlib
import py2coq
import gen_C05
import linsys_common as lc
from linsys_common import CQ, cq_matrix, cq_op, cq_solve, cq_mul, coq_check_solve, TCODE

AUTO_HEADER = '''From Coq Require Import ZArith List Bool.
From Pymoto Require Import Base.Num Model.AutoSolver.
Import ListNotations.
Definition o (z : Z) : option bool := if (z =? 0)%Z then Some false else if (z =? 1)%Z then Some true else None.
'''
CLS_HEADER = '''From Coq Require Import ZArith QArith List Bool.
From Pymoto Require Import Base.Num Base.CQMat Model.AutoSolver Model.MatrixChecks.
Import ListNotations.
Open Scope Q_scope.
'''
ERR_HEADER = '''From Coq Require Import ZArith List Bool.
From Pymoto Require Import Base.Num.
Import ListNotations.
Open Scope Z_scope.
'''
ERR_CODE = {'none': 0, 'TypeError': 1, 'ValueError': 2, 'IndexError': 3, 'AssertionError': 4, 'RuntimeError': 5, 'Other': 6}
TOL = 1e-9


def opmat(A, t):
    A = A.toarray() if sps.issparse(A) else np.asarray(A)
    return A if t == 'N' else A.T if t == 'T' else A.conj().T


# ----------------------------------------------------------------------------- (T) translator + bridges
def translate(ctx):
    ok_all = True
    jobs = [('SolverGen.v', gen_C05.gen_dense, 'SolverBridge.v', 'pymoto/solvers/dense.py + sparse.py: solve() terms'),
            ('CGGen.v', gen_C05.gen_cg, 'CGBridge.v', 'pymoto/solvers/iterative.py: CG loop body'),
            ('AutoGen.v', gen_C05.gen_auto, 'AutoBridge.v', 'pymoto/solvers/auto_determine.py: decision procedure'),
            ('ChecksGen.v', gen_C05.gen_checks, 'ChecksBridge.v', 'pymoto/solvers/matrix_checks.py: matrix predicates, every container branch')]
    for gname, fn, bname, what in jobs:
        err = ''
        try:
            text = fn(vlib.REPO)
            p = ctx.write_gen(gname, text)
            ok, _, err = vlib.compile_file(ctx, p, f'gen:{gname} ({what}) translates and compiles', 'translator')
        except py2coq.Unsupported as e:
            ok, err = False, str(e)
            ctx.obligation(f'gen:{gname} ({what}) translates and compiles', 'translator', False, err)
        if ok:
            ok, _, err = vlib.compile_file(ctx, os.path.join(ctx.bridge_dir, bname),
                                           f'bridge:{bname} (generated = model, all arguments)', 'bridge')
        if not ok:
            ok_all = False
            ctx.violation('proof', what, 'generated terms equal the committed model', 'translator/bridge',
                          dict(error=err[-3000:]), theorem=f'BridgeC05.{bname[:-2]}')
    return ok_all


# ----------------------------------------------------------------------------- library contracts (oracle validation)
def close(a, b, scale=None):
    a, b = np.asarray(a), np.asarray(b)
    if a.shape != b.shape:
        return False
    s = max(1.0, float(np.max(np.abs(b))) if b.size else 1.0) if scale is None else scale
    return bool(np.all(np.abs(a - b) <= TOL * s)) if a.size else True


def validate_contracts(ctx, solver, A, rng):
    """every library contract used as a hypothesis of the C05 theorems, on the solver's own stored factors.
    Returns list of failed contract names."""
    from pymoto.solvers import SolverDiagonal, SolverDenseQR, SolverDenseLU, SolverDenseCholesky, SolverDenseLDL, SolverSparseLU
    bad = []
    Ad = A.toarray() if sps.issparse(A) else np.asarray(A)
    n = Ad.shape[0]
    I = np.eye(n)
    E = np.array([[complex(rng.randint(-3, 3), rng.randint(-3, 3)) for _ in range(2)] for _ in range(n)])

    def ok(name, cond):
        ctx.oracle_validation[name] = ctx.oracle_validation.get(name, 0) + 1
        if not cond:
            bad.append(name)

    def tri(name, F, lower, unit):
        for t, tt in (('N', 0), ('T', 'T'), ('H', 'C')):
            y = spla.solve_triangular(F, E, trans=tt, lower=lower, unit_diagonal=unit)
            ok(f'solve_triangular[{name},lower={lower},unit={unit}]: op_t(F) y = b', close(opmat(F, t) @ y, E))
    if isinstance(solver, SolverDiagonal):
        ok('diagonal: A = diag(self.diag)', close(np.diag(solver.diag), Ad))
        ok('diagonal: d * (b / d) = b', close(solver.diag[:, None] * (E / solver.diag[:, None]), E))
    elif isinstance(solver, SolverDenseQR):
        q, r = solver.q, solver.r
        ok('qr: A = Q R', close(q @ r, Ad))
        ok('qr: Q^H Q = 1', close(q.conj().T @ q, I))
        ok('qr: Q Q^H = 1', close(q @ q.conj().T, I))
        tri('R', r, False, False)
    elif isinstance(solver, SolverDenseLU):
        p, l, u = solver.p, solver.l, solver.u
        ok('lu: A = P L U', close(p @ l @ u, Ad))
        ok('lu: P^T P = 1 = P P^T, P real', close(p.T @ p, I) and close(p @ p.T, I) and not np.any(np.imag(p)))
        tri('L', l, True, False)
        tri('U', u, False, False)
    elif isinstance(solver, SolverDenseCholesky) and solver.success:
        U = solver.U
        ok('cholesky: A = U^H U (upper factor)', close(U.conj().T @ U, Ad))
        tri('U', U, False, False)
    elif isinstance(solver, (SolverDenseLDL, SolverDenseCholesky)):
        s = solver if isinstance(solver, SolverDenseLDL) else solver.backup_solver
        l, d, p = s.l, s.d, s.p
        lt = l.conj().T if s.hermitian else l.T
        ok('ldl: A = L D L^H (hermitian) / L D L^T (symmetric)', close(l @ d @ lt, Ad))
        ok('ldl: p is a permutation', sorted(np.asarray(p).tolist()) == list(range(n)))
        d1 = s.dinv(np.eye(n))
        ok('ldl: d1 D = 1 = D d1', close(d1 @ d, I) and close(d @ d1, I))
        ok('ldl: dinvH(b) = d1^H b', close(s.dinvH(E), d1.conj().T @ E))
        ok('ldl: lp = L[p, :] is unit lower triangular', close(np.tril(s.lp), s.lp) and close(np.diag(s.lp), np.ones(n)))
        tri('L[p,:]', s.lp, True, True)
    elif isinstance(solver, SolverSparseLU):
        for t in 'NTH':
            try:
                b = E if np.iscomplexobj(Ad) else E.real.copy()
                y = solver.inv.solve(b, trans=t)
                ok('splu: op_t(A) solve(b, t) = b', close(opmat(Ad, t) @ y, b))
            except Exception:
                ok('splu: op_t(A) solve(b, t) = b', False)
    return bad


