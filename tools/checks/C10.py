"""C10 -- MMA iterates respect bounds and move limits and converge on convex problems.

(T) tools/gen_C10.py regenerates the formulas of MMA.mmasub / residual / subsolv from pymoto/common/mma.py into
    coq/gen/C10/MMAGen.v; bridge/C10/MMABridge.v proves generated = Model/MMAform.v (reflexivity, every numeric instance).
(H) pymoto.minimize_mma is run on generated convex problems with MMA.mmasub, subsolv and residual wrapped FROM OUTSIDE;
    every recorded call is compared inside Coq with the model evaluated over Q (1e-9 relative), the variable handling
    (concatenate, bound expansion, write-back) exactly.
Oracle: the stated inequalities on the implementation, approximation value/gradient reproduction, KKT residual of the
    subproblem, interiority of every line-search trial point, distance to the analytic optimum and constraint
    satisfaction after N iterations (convergence is validated, not proved).
"""
import os, io, json, glob, contextlib
from fractions import Fraction
import numpy as np
import vlib
from vlib import ql, qlit, zl

F = Fraction


# ======================================================================================== test problems
class Fn:
    """f(x) = sum_j q_j (x_j - t_j)^2 + c_j / x_j + w_j x_j  +  s (v.x - rho)^2 + k      (convex for q, c, s >= 0, x > 0)"""

    def __init__(self, q, t, c, w, s, v, rho, k):
        self.q, self.t, self.c, self.w = [np.asarray(a, dtype=float) for a in (q, t, c, w)]
        self.s, self.v, self.rho, self.k = float(s), np.asarray(v, dtype=float), float(rho), float(k)
        self.recip = bool(np.any(self.c != 0))

    def val(self, x):
        f = np.sum(self.q * (x - self.t) ** 2 + self.w * x) + self.s * (np.dot(self.v, x) - self.rho) ** 2 + self.k
        if self.recip:
            f = f + np.sum(self.c / x)
        return f

    def grad(self, x):
        gr = 2 * self.q * (x - self.t) + self.w + 2 * self.s * (np.dot(self.v, x) - self.rho) * self.v
        if self.recip:
            gr = gr - self.c / x ** 2
        return gr

    def scale(self, x):
        a = np.abs(self.q * (x - self.t) ** 2).sum() + np.abs(self.w * x).sum() + abs(self.s) * (np.dot(self.v, x) - self.rho) ** 2 + abs(self.k)
        b = np.abs(2 * self.q * (x - self.t)).max() + np.abs(self.w).max() + abs(2 * self.s * (np.dot(self.v, x) - self.rho)) * np.abs(self.v).max()
        if self.recip:
            a += np.abs(self.c / x).sum()
            b += np.abs(self.c / x ** 2).max()
        return float(max(1.0, a, b))

    def coq(self):
        return (f'(mkfn {ql(fr(self.q))} {ql(fr(self.t))} {ql(fr(self.c))} {ql(fr(self.w))} {qlit(F(self.s))} {ql(fr(self.v))} '
                f'{qlit(F(self.rho))} {qlit(F(self.k))})')

    def tojson(self):
        return dict(q=self.q.tolist(), t=self.t.tolist(), c=self.c.tolist(), w=self.w.tolist(), s=self.s, v=self.v.tolist(),
                    rho=self.rho, k=self.k)


def fr(a):
    return [F(float(v)) for v in np.asarray(a, dtype=float).ravel()]


def rnd(rng, lo, hi, digits=3):
    return round(rng.uniform(lo, hi), digits)


def gen_problem(rng, tier_big=False):
    """random convex problem with known optimum (KKT construction); returns a JSON-able dict"""
    nsig = rng.choice((1, 1, 2, 2, 3))
    shapes = []
    for _ in range(nsig):
        shapes.append(0 if rng.random() < 0.35 else rng.choice((1, 2, 3, 4, 5) if not tier_big else (1, 2, 3, 5, 8, 12)))  # 0 = scalar
    lens = [1 if s == 0 else s for s in shapes]
    n = sum(lens)
    cum = np.concatenate([[0], np.cumsum(lens)])
    positive = rng.random() < 0.6
    spell = {k: rng.choice(('scalar', 'signal', 'variable')) for k in ('xmin', 'xmax', 'move')}
    lo0 = rnd(rng, 0.2, 1.0) if positive else rnd(rng, -2.0, 1.0)

    def bound(kind, base, width):
        if kind == 'scalar':
            return base(), None
        if kind == 'signal':
            vals = [base() for _ in range(nsig)]
            return vals, np.concatenate([np.full(l, v) for l, v in zip(lens, vals)])
        vals = [base() for _ in range(n)]
        return vals, np.array(vals)
    xmin_spec, xmin = bound(spell['xmin'], lambda: round(lo0 + rnd(rng, 0.0, 0.5), 3), None)
    if xmin is None:
        xmin = np.full(n, xmin_spec)
    top = float(xmin.max())
    xmax_spec, xmax = bound(spell['xmax'], lambda: round(top + rnd(rng, 0.5, 3.0), 3), None)
    if xmax is None:
        xmax = np.full(n, xmax_spec)
    move_spec, move = bound(spell['move'], lambda: rnd(rng, 0.08, 0.6), None)
    if move is None:
        move = np.full(n, move_spec)
    dx = xmax - xmin
    # optimum: interior or on a bound
    xs = np.empty(n)
    at = np.zeros(n, dtype=int)
    for j in range(n):
        u = rng.random()
        if u < 0.2:
            xs[j], at[j] = xmin[j], -1
        elif u < 0.4:
            xs[j], at[j] = xmax[j], 1
        else:
            xs[j] = xmin[j] + dx[j] * rnd(rng, 0.15, 0.85)
    m = rng.choice((1, 1, 2, 3))
    cons, lam = [], []
    for i in range(m):
        kind = rng.choice(('lin', 'lin', 'quad', 'recip', 'sqlin') if positive else ('lin', 'lin', 'quad', 'sqlin'))
        z = np.zeros(n)
        dep = np.ones(n, dtype=bool)
        if nsig > 1 and rng.random() < 0.3:       # a response that does not depend on one of the signals
            k = rng.randrange(nsig)
            dep[cum[k]:cum[k + 1]] = False
        if kind == 'lin':
            w = np.array([rnd(rng, 0.2, 2.0) * rng.choice((1, 1, -1)) for _ in range(n)]) * dep
            f = Fn(z, z, z, w, 0, z, 0, 0)
        elif kind == 'quad':
            q = np.array([rnd(rng, 0.2, 2.0) for _ in range(n)]) * dep
            t = np.array([rnd(rng, float(xmin[j]) - 0.5, float(xmax[j]) + 0.5) for j in range(n)])
            f = Fn(q, t, z, z, 0, z, 0, 0)
        elif kind == 'recip':
            c = np.array([rnd(rng, 0.2, 2.0) for _ in range(n)]) * dep
            f = Fn(z, z, c, z, 0, z, 0, 0)
        else:
            v = np.array([rnd(rng, 0.2, 1.5) * rng.choice((1, -1)) for _ in range(n)]) * dep
            w = np.array([rnd(rng, -0.5, 0.5) for _ in range(n)]) * dep
            f = Fn(z, z, z, w, rnd(rng, 0.3, 1.5), v, rnd(rng, -1.0, 1.0), 0)
        active = rng.random() < 0.6
        slack = 0.0 if active else rnd(rng, 0.2, 1.5)
        # scale the constraint to O(1) gradients, then shift so that f(x*) = -slack
        gsc = max(1e-3, float(np.abs(f.grad(xs)).max()))
        sc = round(1.0 / gsc, 3) if gsc > 4 or gsc < 0.25 else 1.0
        f = Fn(f.q * sc, f.t, f.c * sc, f.w * sc, f.s * sc, f.v, f.rho, 0)
        f.k = -slack - f.val(xs)
        cons.append(f)
        lam.append(rnd(rng, 0.3, 2.0) if active else 0.0)
    # objective: strictly convex separable + optional coupling; the linear part is solved from stationarity
    q = np.array([rnd(rng, 0.3, 2.0) for _ in range(n)])
    t = np.array([rnd(rng, float(xmin[j]) - 1.0, float(xmax[j]) + 1.0) for j in range(n)])
    c = np.array([rnd(rng, 0.0, 1.5) if positive and rng.random() < 0.6 else 0.0 for _ in range(n)])
    s = rnd(rng, 0.2, 1.0) if rng.random() < 0.4 else 0.0
    v = np.array([rnd(rng, -1.0, 1.0) for _ in range(n)]) if s else np.zeros(n)
    rho = rnd(rng, -1.0, 1.0) if s else 0.0
    f0 = Fn(q, t, c, np.zeros(n), s, v, rho, rnd(rng, 1.0, 3.0))
    need = -sum(l * g.grad(xs) for l, g in zip(lam, cons))          # required objective gradient at x* (free variables)
    nu = np.array([rnd(rng, 0.2, 1.5) if a != 0 else 0.0 for a in at])  # bound multipliers
    need = need + np.where(at == -1, nu, 0) - np.where(at == 1, nu, 0)
    f0.w = need - f0.grad(xs)
    # starting point
    x0 = np.array([float(xmin[j]) if (u := rng.random()) < 0.12 else float(xmax[j]) if u < 0.24 else
                   float(xmin[j] + dx[j] * rnd(rng, 0.05, 0.95)) for j in range(n)])
    ver = rng.choice(('Svanberg2007', 'Svanberg2007', 'Svanberg1987', '1987', 'MMA-2007x'))
    kw = dict(mmaversion=ver)
    if rng.random() < 0.6:
        kw.update(asyinit=rnd(rng, 0.2, 0.9), asyincr=rnd(rng, 1.05, 1.4), asydecr=rnd(rng, 0.55, 0.9),
                  asybound=rnd(rng, 2.0, 20.0), albefa=rnd(rng, 0.05, 0.4))
    if rng.random() < 0.3:
        kw['epsimin'] = rng.choice((1e-7, 1e-8, 3e-9, 1e-9))
    return dict(shapes=shapes, xmin=xmin_spec, xmax=xmax_spec, move=move_spec, spell=spell, x0=x0.tolist(),
                xstar=xs.tolist(), f=[f0.tojson()] + [g.tojson() for g in cons], kw=kw, maxit=rng.choice((40, 60)),
                verbosity=rng.choice((0, 0, 0, 2, 3, 4)), none_sens=rng.random() < 0.5)


# ======================================================================================== running the implementation
class Rec:
    pass


def run_problem(pym, prob, maxit=None):
    """run pymoto.minimize_mma on the problem with mmasub / subsolv / residual wrapped from outside"""
    import pymoto.common.mma as mma
    shapes = prob['shapes']
    lens = [1 if s == 0 else s for s in shapes]
    cum = np.concatenate([[0], np.cumsum(lens)]).astype(int)
    n = int(cum[-1])
    fns = [Fn(**f) for f in prob['f']]
    x0 = np.array(prob['x0'], dtype=float)
    variables = []
    for i, s in enumerate(shapes):
        st = float(x0[cum[i]]) if s == 0 else x0[cum[i]:cum[i + 1]].copy()
        variables.append(pym.Signal(f'x{i}', state=st))
    none_sens = prob.get('none_sens', False)

    class Resp(pym.Module):
        def _prepare(self, fn):
            self.fn = fn

        def _response(self, *xs):
            self.x = np.concatenate([np.atleast_1d(np.asarray(v, dtype=float)).ravel() for v in xs])
            return self.fn.val(self.x)

        def _sensitivity(self, df):
            gr = self.fn.grad(self.x) * df
            out = []
            for i, s in enumerate(shapes):
                part = gr[cum[i]:cum[i + 1]]
                if none_sens and not np.any(part):
                    out.append(None)                     # exercises the `0 * v.state` branch of MMA.response
                else:
                    out.append(float(part[0]) if s == 0 else part.copy())
            return out
    responses = [pym.Signal(f'g{i}') for i in range(len(fns))]
    net = pym.Network([Resp(variables, responses[i], fns[i]) for i in range(len(fns))])

    rec = Rec()
    rec.calls, rec.callbacks, rec.sub, rec.first = [], [], [], None
    cur = {}

    def cb():
        rec.callbacks.append([(np.ndim(v.state) == 0, np.array(v.state, dtype=float).ravel().copy(),
                               type(v.state).__name__) for v in variables])

    orig_mmasub, orig_subsolv, orig_residual = mma.MMA.mmasub, mma.subsolv, mma.residual

    def w_mmasub(self, xval, g, dg):
        c = Rec()
        c.xval, c.g, c.dg = xval.copy(), np.array(g, dtype=float).copy(), np.array(dg, dtype=float).copy()
        c.xold1 = None if self.xold1 is None else self.xold1.copy()
        c.xold2 = None if self.xold2 is None else self.xold2.copy()
        c.offset0 = None if self.offset is None else np.array(self.offset, dtype=float).copy()
        if rec.first is None:
            f = Rec()
            f.cumlens = np.array(self.cumlens).astype(int).tolist()
            f.xmin = np.array(np.broadcast_to(self.xmin, (self.n,)), dtype=float).copy()
            f.xmax = np.array(np.broadcast_to(self.xmax, (self.n,)), dtype=float).copy()
            f.move = np.array(np.broadcast_to(self.move, (self.n,)), dtype=float).copy()
            f.par = dict(asyinit=self.asyinit, asyincr=self.asyincr, asydecr=self.asydecr, asybound=self.asybound,
                         albefa=self.albefa, epsimin=self.epsimin, version=self.mmaversion, n=self.n, m=self.m,
                         a0=self.a0, a=np.array(self.a, dtype=float).copy(), c=np.array(self.c, dtype=float).copy(),
                         d=np.array(self.d, dtype=float).copy())
            rec.first = f
        cur['call'] = c
        ret = orig_mmasub(self, xval, g, dg)
        c.offset, c.low, c.upp = self.offset.copy(), self.low.copy(), self.upp.copy()
        c.xnew = np.array(ret[0], dtype=float).copy()
        c.xold1_after = None if self.xold1 is None else self.xold1.copy()
        c.xold2_after = None if self.xold2 is None else self.xold2.copy()
        rec.calls.append(c)
        return ret

    def w_residual(*args):
        r = orig_residual(*args)
        s = cur.get('sub')
        if s is not None:
            x, y, z, lam, xsi, eta, mu, zet, sl = args[:9]
            alfa, beta = args[21], args[22]
            epsi = args[15]
            s.nres += 1
            ok = bool(np.all(x > alfa) and np.all(x < beta) and np.all(y > 0) and z > 0 and np.all(lam > 0) and
                      np.all(xsi > 0) and np.all(eta > 0) and np.all(mu > 0) and zet > 0 and np.all(sl > 0))
            if not ok and s.bad_point is None:
                s.bad_point = dict(x=np.array(x).tolist(), alfa=np.array(alfa).tolist(), beta=np.array(beta).tolist(),
                                   y=np.array(y).tolist(), z=float(z), lam=np.array(lam).tolist(), epsi=float(epsi))
            snap = ([np.array(a, dtype=float).copy() for a in args[:9]], float(epsi), np.array(r, dtype=float).copy())
            if s.first_res is None:
                s.first_res = snap
            s.last_res = snap
            if not s.epsis or s.epsis[-1] != float(epsi):
                s.epsis.append(float(epsi))
        return r

    def w_subsolv(epsimin, low, upp, alfa, beta, P, Q, a0, a, b, c, d, x0=None):
        s = Rec()
        s.epsimin = float(epsimin)
        s.low, s.upp, s.alfa, s.beta = [np.array(v, dtype=float).copy() for v in (low, upp, alfa, beta)]
        s.P, s.Q, s.b = np.array(P, dtype=float).copy(), np.array(Q, dtype=float).copy(), np.array(b, dtype=float).copy()
        s.a0, s.a, s.c, s.d = float(a0), np.array(a, dtype=float).copy(), np.array(c, dtype=float).copy(), np.array(d, dtype=float).copy()
        s.x0 = None if x0 is None else np.array(x0, dtype=float).copy()
        s.nres, s.bad_point, s.first_res, s.last_res, s.epsis = 0, None, None, None, []
        cur['sub'] = s
        buf = io.StringIO()
        with contextlib.redirect_stdout(buf):
            ret = orig_subsolv(epsimin, low, upp, alfa, beta, P, Q, a0, a, b, c, d, x0=x0)
        cur['sub'] = None
        s.msgs = buf.getvalue().count('MMA Subsolver')
        s.ret = [np.array(v, dtype=float).copy() for v in ret]
        if 'call' in cur:
            cur['call'].sub = s
        rec.sub.append(s)
        return ret

    kw = dict(prob['kw'])
    kw.update(xmin=spec_value(prob['xmin'], prob['spell']['xmin']), xmax=spec_value(prob['xmax'], prob['spell']['xmax']),
              move=spec_value(prob['move'], prob['spell']['move']), maxit=maxit or prob['maxit'], tolx=0.0, tolf=0.0,
              verbosity=prob.get('verbosity', 0), fn_callback=cb)
    rec.error = None
    mma.MMA.mmasub, mma.subsolv, mma.residual = w_mmasub, w_subsolv, w_residual
    out = io.StringIO()
    try:
        with contextlib.redirect_stdout(out), np.errstate(all='ignore'):
            pym.minimize_mma(net, variables, responses, **kw)
    except Exception as e:          # noqa
        rec.error = e
    finally:
        mma.MMA.mmasub, mma.subsolv, mma.residual = orig_mmasub, orig_subsolv, orig_residual
    rec.variables, rec.responses, rec.fns, rec.cum, rec.n = variables, responses, fns, cum, n
    rec.final = np.concatenate([np.atleast_1d(np.asarray(v.state, dtype=float)).ravel() for v in variables])
    return rec


def spec_value(spec, spell):
    """JSON spec -> the python object handed to minimize_mma: scalar -> float, per signal -> list, per variable -> ndarray"""
    if spell == 'scalar':
        return float(spec)
    if spell == 'signal':
        return [float(v) for v in spec]
    return np.array(spec, dtype=float)



# ======================================================================================== Coq side
HEADER = """From Coq Require Import ZArith QArith String List Bool.
From Pymoto Require Import Base.Num Base.Cmp Base.MMANum Model.MMAform Model.MMAvars Model.MMAcorr.
Import ListNotations.
Open Scope Q_scope.
Definition mkD low upp alfa beta P Q a0 a b c d : sdata Q :=
  {| d_low := low; d_upp := upp; d_alfa := alfa; d_beta := beta; d_P := P; d_Q := Q; d_a0 := a0; d_a := a; d_b := b;
     d_c := c; d_d := d |}.
Definition mkS x y z lam xsi eta mu zet s : sstate Q :=
  {| sx := x; sy := y; sz := z; slam := lam; sxsi := xsi; seta := eta; smu := mu; szet := zet; ss := s |}.
Definition mkP a b c d e : asypar Q := {| asyinit := a; asyincr := b; asydecr := c; asybound := d; albefa := e |}.
Definition all (l : list bool) : bool := forallb (fun b => b) l.
"""

K_STALL = ('subsolv', 'returned point satisfies max|residual| <= 0.9*epsi_last',
           'inner Newton loop reached maxittt = 400 (message "MMA Subsolver: itt = ..." printed)')
K_STALL_TEXT = ('subsolv gives up after maxittt = 400 Newton steps per epsi level and returns a point whose KKT residual exceeds '
                'the requested accuracy (only a message is printed); frequent when no constraint is active at the subproblem '
                'optimum; inherited from the reference algorithm (undamped Newton + residual-norm backtracking), no small patch')


def qv(a):
    return ql(fr(a))


def qm(a):
    return ql([fr(r) for r in np.asarray(a, dtype=float)])


def qopt(a):
    return 'None' if a is None else f'(Some {qv(a)})'


def qf(x):
    return qlit(F(float(x)))


def sdata_coq(s):
    return (f'(mkD {qv(s.low)} {qv(s.upp)} {qv(s.alfa)} {qv(s.beta)} {qm(s.P)} {qm(s.Q)} {qf(s.a0)} {qv(s.a)} {qv(s.b)} '
            f'{qv(s.c)} {qv(s.d)})')


def state_coq(st):
    x, y, z, lam, xsi, eta, mu, zet, sl = st
    return f'(mkS {qv(x)} {qv(y)} {qf(z)} {qv(lam)} {qv(xsi)} {qv(eta)} {qv(mu)} {qf(zet)} {qv(sl)})'


def sval_coq(is_scalar, vals):
    return f'(Scal {qf(vals[0])})' if is_scalar else f'(Arr {qv(vals)})'


def bspec_coq(spec, spell):
    return f'(BScal {qf(spec)})' if spell == 'scalar' else f'(BList {qv(spec)})'


def version_flags(v):
    return ('true' if '1987' in v else 'false', 'true' if '2007' in v else 'false')


def normal_exit(s):
    """did the inner loop of the last epsi level end because the residual test failed?  From outside: no message for that
    level (the message is printed exactly when ittt > maxittt - 2)"""
    return float(np.abs(s.last_res[2]).max()) <= 0.9 * s.last_res[1]


def iteration_checks(rec, prob, k):
    """Coq boolean expressions (aspect name, expression) for iteration k of a recorded run"""
    f, c = rec.first, rec.calls[k]
    s = c.sub
    par = f.par
    h87, h07 = version_flags(par['version'])
    n = rec.n
    X = lambda a: float(np.abs(a).max()) if np.size(a) else 0.0
    sX = max(1.0, X(c.xval), X(f.xmin), X(f.xmax), X(c.low), X(c.upp))
    sP = max(X(s.P), X(s.Q), 1e-300)
    shift = c.offset * (f.xmax - f.xmin)
    sB = max(1.0, X(c.g), X(s.b), float(((np.abs(s.P) + np.abs(s.Q)) / np.abs(shift)).sum(axis=1).max()))
    out = []
    pre = (f'let xval := {qv(c.xval)} in let xmin := {qv(f.xmin)} in let xmax := {qv(f.xmax)} in let move := {qv(f.move)} in '
           f'let g := {qv(c.g)} in let dg := {qm(c.dg)} in let xold1 := {qopt(c.xold1)} in '
           f'let low := {qv(c.low)} in let upp := {qv(c.upp)} in let alfa := {qv(s.alfa)} in let beta := {qv(s.beta)} in '
           f'let P := {qm(s.P)} in let Q := {qm(s.Q)} in let b := {qv(s.b)} in let D := {sdata_coq(s)} in '
           f'let ret := {state_coq(s.ret)} in ')
    scales = [rec.fns[i].scale(c.xval) for i in range(len(rec.fns))]
    out.append(('responses', f'responses_ok [{"; ".join(fn.coq() for fn in rec.fns)}] xval {ql([F(v) for v in scales])} g dg'))
    out.append(('mmasub', f'mmasub_ok (mkP {qf(par["asyinit"])} {qf(par["asyincr"])} {qf(par["asydecr"])} {qf(par["asybound"])} '
                f'{qf(par["albefa"])}) {h87} {h07} xval xmin xmax move xold1 {qopt(c.xold2)} {qopt(c.offset0)} g dg '
                f'{qf(sX)} {qf(sP)} {qf(sB)} {qv(c.offset)} low upp alfa beta P Q b'))
    out.append(('history', f'history_ok xval xold1 {qopt(c.xold1_after)} {qopt(c.xold2_after)}'))
    out.append(('handover', f'handover_ok low upp alfa beta P Q b xval D {qv(s.x0)}'))
    out.append(('init', f'init_ok D {qv(s.x0)} {qf(sX)} {state_coq(s.first_res[0])}'))
    sR0 = max(1.0, X(s.first_res[2]))
    out.append(('residual_first', f'residual_ok D {qf(s.first_res[1])} {state_coq(s.first_res[0])} {qf(sR0)} {qv(s.first_res[2])}'))
    # scale of the residual at the returned point: the largest term that enters it
    x = s.ret[0]
    big = max(1.0, X(s.P / (s.upp - x) ** 2), X(s.Q / (x - s.low) ** 2), X(s.c), X(s.b), X(s.ret[4]), X(s.ret[5]), X(s.ret[6]),
              float((np.abs(s.P) / np.abs(s.upp - x) + np.abs(s.Q) / np.abs(x - s.low)).sum(axis=1).max()))
    out.append(('residual_last', f'residual_ok D {qf(s.last_res[1])} ret {qf(big)} {qv(s.last_res[2])}'))
    out.append(('levels', f'levels_ok {qf(s.epsimin)} {qv(s.epsis)}'))
    if normal_exit(s):
        out.append(('exit', f'exit_ok {qf(s.last_res[1])} {qf(0.9 * s.last_res[1])} {qv(s.last_res[2])}'))
    out.append(('interior', 'interior_ok D ret'))
    return pre + 'all [' + '; '.join(e for _, e in out) + ']', [a for a, _ in out], pre, out


def vars_checks(rec, prob):
    f = rec.first
    shapes = prob['shapes']
    cum0 = [int(v) for v in rec.cum]
    nsig = len(shapes)
    x0 = np.array(prob['x0'], dtype=float)
    init = [sval_coq(s == 0, x0[cum0[i]:cum0[i + 1]]) for i, s in enumerate(shapes)]
    out = [('concat', f'concat_ok [{"; ".join(init)}] {qv(rec.calls[0].xval if rec.calls else x0)} {zl(f.cumlens)}%nat')]
    for nm in ('xmin', 'xmax', 'move'):
        out.append((f'expand_{nm}', f'expand_ok {rec.n}%nat {nsig}%nat {zl(f.cumlens)}%nat {bspec_coq(prob[nm], prob["spell"][nm])} '
                    f'(Some {qv(getattr(f, nm))})'))
    # states seen by the callback of iteration k are the write-back of the design of iteration k
    ks = list(range(min(len(rec.callbacks), 6))) + ([len(rec.callbacks) - 1] if len(rec.callbacks) > 6 else [])
    for k in ks:
        xk = x0 if k == 0 else rec.calls[k - 1].xnew
        obs = '; '.join(sval_coq(sc, v) for sc, v, _ in rec.callbacks[k])
        out.append((f'writeback{k}', f'writeback_ok {qv(xk)} {zl(f.cumlens)}%nat [{obs}]'))
        if k < len(rec.calls):   # the design handed to mmasub is the concatenation of those states (read back after response())
            out.append((f'readback{k}', f'concat_ok [{obs}] {qv(rec.calls[k].xval)} {zl(f.cumlens)}%nat'))
    return 'all [' + '; '.join(e for _, e in out) + ']', [a for a, _ in out], '', out


if __name__ == '__main__':
    vlib.main(lambda ctx: run(ctx), 'C10')
