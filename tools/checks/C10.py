"""C10 -- MMA iterates respect bounds and move limits and converge on convex problems.

(T) tools/gen_C10.py regenerates the formulas of MMA.mmasub / residual / subsolv from pymoto/common/mma.py into
    coq/gen/C10/MMAGen.v; bridge/C10/MMABridge.v proves generated = Model/MMAform.v (reflexivity, every numeric instance).
(H) pymoto.minimize_mma is run on generated convex problems with MMA.mmasub, subsolv and residual wrapped FROM OUTSIDE;
    every recorded call is compared inside Coq with the model evaluated over Q (1e-9 relative), the variable handling
    (concatenate, bound expansion, write-back) exactly.
Oracle: the stated inequalities on the implementation, approximation value/gradient reproduction, KKT residual of the
    subproblem, interiority of every line-search trial point, distance to the analytic optimum and constraint
    satisfaction after N iterations (convergence is validated, not proved).
"""
import os, io, json, glob, contextlib, signal, time
from fractions import Fraction
import numpy as np
import vlib
from vlib import ql, qlit, zl

F = Fraction


# ======================================================================================== test problems
class Fn:
    """f(x) = sum_j q_j (x_j - t_j)^2 + c_j / x_j + w_j x_j  +  s (v.x - rho)^2 + k      (convex for q, c, s >= 0, x > 0)
              + sum_j h_j max(0, sg_j (x_j - u_j))^2     (hinge terms, h >= 0, sg = +-1: convex and continuously differentiable; the
                                                         gradient with respect to x_j is identically zero while the term is inactive)"""

    def __init__(self, q, t, c, w, s, v, rho, k, h=None, u=None, sg=None):
        self.q, self.t, self.c, self.w = [np.asarray(a, dtype=float) for a in (q, t, c, w)]
        self.s, self.v, self.rho, self.k = float(s), np.asarray(v, dtype=float), float(rho), float(k)
        self.recip = bool(np.any(self.c != 0))
        n = self.q.size
        self.h = np.zeros(n) if h is None else np.asarray(h, dtype=float)
        self.u = np.zeros(n) if u is None else np.asarray(u, dtype=float)
        self.sg = np.ones(n) if sg is None else np.asarray(sg, dtype=float)
        self.hinged = h is not None

    def hpos(self, x):
        return np.maximum(0.0, self.sg * (x - self.u))

    def val(self, x):
        f = np.sum(self.q * (x - self.t) ** 2 + self.w * x) + self.s * (np.dot(self.v, x) - self.rho) ** 2 + self.k
        if self.recip:
            f = f + np.sum(self.c / x)
        if self.hinged:
            f = f + np.sum(self.h * self.hpos(x) ** 2)
        return f

    def grad(self, x):
        gr = 2 * self.q * (x - self.t) + self.w + 2 * self.s * (np.dot(self.v, x) - self.rho) * self.v
        if self.recip:
            gr = gr - self.c / x ** 2
        if self.hinged:
            gr = gr + 2 * self.h * self.sg * self.hpos(x)
        return gr

    def scale(self, x):
        a = np.abs(self.q * (x - self.t) ** 2).sum() + np.abs(self.w * x).sum() + abs(self.s) * (np.dot(self.v, x) - self.rho) ** 2 + abs(self.k)
        b = np.abs(2 * self.q * (x - self.t)).max() + np.abs(self.w).max() + abs(2 * self.s * (np.dot(self.v, x) - self.rho)) * np.abs(self.v).max()
        if self.recip:
            a += np.abs(self.c / x).sum()
            b += np.abs(self.c / x ** 2).max()
        if self.hinged:
            a += np.abs(self.h * self.hpos(x) ** 2).sum()
            b += np.abs(2 * self.h * self.hpos(x)).max()
        return float(max(1.0, a, b))

    def coq(self):
        return (f'(mkfn {ql(fr(self.q))} {ql(fr(self.t))} {ql(fr(self.c))} {ql(fr(self.w))} {qlit(F(self.s))} {ql(fr(self.v))} '
                f'{qlit(F(self.rho))} {qlit(F(self.k))})')

    def coq_h(self):
        return f'({self.coq()}, mkh {ql(fr(self.h))} {ql(fr(self.u))} {ql(fr(self.sg))})'

    def tojson(self):
        d = dict(q=self.q.tolist(), t=self.t.tolist(), c=self.c.tolist(), w=self.w.tolist(), s=self.s, v=self.v.tolist(),
                 rho=self.rho, k=self.k)
        if self.hinged:
            d.update(h=self.h.tolist(), u=self.u.tolist(), sg=self.sg.tolist())
        return d

    def copy(self):
        return Fn(**self.tojson())


def fr(a):
    return [F(float(v)) for v in np.asarray(a, dtype=float).ravel()]


def rnd(rng, lo, hi, digits=3):
    return round(rng.uniform(lo, hi), digits)


# ---- the Python / numpy kinds in which states, bounds and move limits are handed over
#   a state:  scalar signal -> Python float / int or a numpy scalar;  array signal -> a 1-D array of that dtype
#   a bound:  {'container': 'scalar' | 'list' | 'tuple' | 'array', 'num': <kind of the numbers>}
INT_KINDS = ('pyint', 'i64', 'i32')
SCALAR_KINDS = ('pyfloat', 'pyint', 'f64', 'f32', 'i64', 'i32')
ARRAY_KINDS = ('f64', 'f32', 'i64', 'i32')
KIND_TAG = dict(pyfloat='F64', f64='F64', pyint='I64', i64='I64', f32='F32', i32='I32')     # dtype after np.asarray


def np_type(kind):
    return dict(f64=np.float64, f32=np.float32, i64=np.int64, i32=np.int32)[kind]


def legacy_kinds(shapes, spell):
    """how the check spelled everything before kinds were explored: Python floats, float64 arrays, lists of floats"""
    return dict(states=['pyfloat' if s == 0 else 'f64' for s in shapes],
                **{k: dict(container={'scalar': 'scalar', 'signal': 'list', 'variable': 'array'}[spell[k]],
                           num='f64' if spell[k] == 'variable' else 'pyfloat') for k in ('xmin', 'xmax', 'move')})


def random_kinds(rng, shapes, spell, profile):
    """profile: 'legacy' | 'mixed' (every operand draws its own kind) | 'allint' / 'allf32' / 'alli32' (every state of that family)"""
    if profile == 'legacy':
        return legacy_kinds(shapes, spell)
    fam = dict(allint=(('pyint', 'i64'), ('i64',)), alli32=(('i32',), ('i32',)), allf32=(('f32',), ('f32',)),
               mixed=(SCALAR_KINDS, ARRAY_KINDS))[profile]
    out = dict(states=[rng.choice(fam[0]) if s == 0 else rng.choice(fam[1]) for s in shapes])
    for k in ('xmin', 'xmax', 'move'):
        if spell[k] == 'scalar':
            out[k] = dict(container='scalar', num=rng.choice(('pyfloat', 'pyfloat', 'f64', 'f32', 'pyint', 'i64', 'i32')))
        else:
            cont = rng.choice(('list', 'list', 'tuple', 'array', 'array'))
            out[k] = dict(container=cont, num=rng.choice(('f64', 'f64', 'f32', 'i64', 'i32')) if cont == 'array'
                          else rng.choice(('pyfloat', 'pyfloat', 'pyint')))
    return out


def quantise(kind, v, how):
    """a value the kind can hold exactly: integers for the integer kinds, multiples of 1/64 for float32"""
    if kind in INT_KINDS:
        return float({'floor': np.floor, 'ceil': np.ceil, 'round': np.round}[how](v))
    if kind == 'f32':
        return float(np.round(v * 64) / 64)
    return float(v)


def both_sequences_per_variable(spell, kinds, n, nsig):
    """xmin and xmax both handed over as Python lists / tuples with one entry per variable (the class of fixed finding F35)"""
    return n != nsig and all(spell[k] == 'variable' and kinds[k]['container'] in ('list', 'tuple') for k in ('xmin', 'xmax'))


PATTERN_MODES = ('off-at-optimum', 'on-at-optimum', 'mirror-off', 'schedule-off', 'schedule-on', 'schedule-blink')
SCHEDULES = {'schedule-off': [1.0, 1.0, 1.0, 0.5, 0.0], 'schedule-on': [0.0, 0.0, 0.0, 0.5, 1.0],
             'schedule-blink': [1.0, 0.0, 0.0, 1.0, 0.0, 1.0, 1.0, 0.0, 0.5, 1.0]}


def gen_problem(rng, tier_big=False, shapes=None, profile='legacy', spell=None, kinds=None, pattern=None, m=None, lo_range=None, all_active=False):
    """random convex problem with known optimum (KKT construction); returns a JSON-able dict.
    pattern = dict(mode, response, signal): response `response` (0 = objective, k = k-th constraint, clamped to the last one) depends on
    the variable signal `signal` ONLY through hinge terms  h_j max(0, sg_j (x_j - u_j))^2, so that its sensitivity with respect to
    that signal is an array in some iterations and None (module reports a vanishing block as None) in others:
      off-at-optimum / mirror-off   the term is active at the start and inactive at the optimum (history: array, then None)
      on-at-optimum                 inactive at the start, active at the optimum (history: None, then array)
      schedule-off / -on / -blink   the term is always active (a plain quadratic) and its weight is set by fn_callback per iteration
                                    (continuation: 1 1 1 .5 0 / 0 0 0 .5 1 / 1 0 0 1 0 1 1 0 .5 1; the last value stays)"""
    nsig = rng.choice((1, 1, 2, 2, 3))
    if shapes is None:
        shapes = []
        for _ in range(nsig):
            shapes.append(0 if rng.random() < 0.35 else rng.choice((1, 2, 3, 4, 5) if not tier_big else (1, 2, 3, 5, 8, 12)))  # 0 = scalar
    nsig = len(shapes)
    lens = [1 if s == 0 else max(s, 0) for s in shapes]           # 0 = scalar, k > 0 = array of k, -1 = empty array
    n = sum(lens)
    cum = np.concatenate([[0], np.cumsum(lens)])
    positive = rng.random() < 0.6
    spell = dict(spell) if spell else {k: rng.choice(('scalar', 'signal', 'variable')) for k in ('xmin', 'xmax', 'move')}
    if kinds is None:
        kinds = random_kinds(rng, shapes, spell, profile)
    int_state = any(k in INT_KINDS for k in kinds['states'])
    lo0 = rnd(rng, 0.2, 1.0) if positive else rnd(rng, -2.0, 1.0)
    if lo_range is not None:
        lo0 = rnd(rng, *lo_range)
        positive = positive and lo0 > 0

    def bound(nm, base):
        kind = spell[nm]
        if kind == 'scalar':
            return base(), None
        if kind == 'signal':
            vals = [base() for _ in range(nsig)]
            return vals, np.concatenate([np.full(l, v) for l, v in zip(lens, vals)] + [np.zeros(0)])
        vals = [base() for _ in range(n)]
        return vals, np.array(vals)

    def lo_value():
        v = quantise(kinds['xmin']['num'], round(lo0 + rnd(rng, 0.0, 0.5), 3), 'floor')
        return max(v, 1.0) if positive and kinds['xmin']['num'] in INT_KINDS else max(v, 1 / 64) if positive else v
    xmin_spec, xmin = bound('xmin', lo_value)
    if xmin is None:
        xmin = np.full(n, xmin_spec)
    top = float(xmin.max()) if n else 0.0
    # integer-typed states need an integer inside every [xmin, xmax]
    xmax_spec, xmax = bound('xmax', lambda: quantise(kinds['xmax']['num'], round(top + rnd(rng, 1.05 if int_state else 0.5, 3.0), 3), 'ceil'))
    if xmax is None:
        xmax = np.full(n, xmax_spec)
    move_spec, move = bound('move', lambda: max(quantise(kinds['move']['num'], rnd(rng, 0.08, 0.6), 'ceil'), 1 / 64))
    if move is None:
        move = np.full(n, move_spec)
    dx = xmax - xmin
    # optimum: interior or on a bound
    xs = np.empty(n)
    at = np.zeros(n, dtype=int)
    for j in range(n):
        u = rng.random()
        if u < 0.2:
            xs[j], at[j] = xmin[j], -1
        elif u < 0.4:
            xs[j], at[j] = xmax[j], 1
        else:
            xs[j] = xmin[j] + dx[j] * rnd(rng, 0.15, 0.85)
    m = m or rng.choice((1, 1, 2, 3))
    psig, presp, pmode, x0frac, hinge = None, None, None, None, None
    if pattern is not None:
        pmode = pattern['mode']
        psig = range(int(cum[pattern['signal']]), int(cum[pattern['signal'] + 1]))
        presp = min(int(pattern['response']), m)
        hu, hsg = np.zeros(n), np.ones(n)
        x0frac = {}
        for j in psig:
            at[j] = 0
            if pmode == 'off-at-optimum':
                xs[j], x0frac[j], hu[j] = xmin[j] + dx[j] * rnd(rng, 0.15, 0.35), rnd(rng, 0.8, 0.95), xmin[j] + dx[j] * 0.55
            elif pmode == 'on-at-optimum':
                xs[j], x0frac[j], hu[j] = xmin[j] + dx[j] * rnd(rng, 0.7, 0.85), rnd(rng, 0.05, 0.2), xmin[j] + dx[j] * 0.45
            elif pmode == 'mirror-off':
                xs[j], x0frac[j], hu[j], hsg[j] = xmin[j] + dx[j] * rnd(rng, 0.7, 0.85), rnd(rng, 0.05, 0.2), xmin[j] + dx[j] * 0.45, -1.0
            else:
                xs[j], hu[j] = xmin[j] + dx[j] * rnd(rng, 0.3, 0.7), xmin[j] - 1.0
        hh = np.zeros(n)
        for j in psig:
            hh[j] = rnd(rng, 0.5, 3.0)
        wend = SCHEDULES[pmode][-1] if pmode in SCHEDULES else 1.0
        hinge = dict(h=hh, u=np.round(hu, 6), sg=hsg, wend=wend)
    cons, lam = [], []
    for i in range(m):
        kind = rng.choice(('lin', 'lin', 'quad', 'recip', 'sqlin') if positive else ('lin', 'lin', 'quad', 'sqlin'))
        z = np.zeros(n)
        dep = np.ones(n, dtype=bool)
        if nsig > 1 and rng.random() < 0.3:       # a response that does not depend on one of the signals
            k = rng.randrange(nsig)
            dep[cum[k]:cum[k + 1]] = False
        if presp == i + 1:                        # ... depends on the pattern signal through the hinge terms only
            dep[list(psig)] = False
        if kind == 'lin':
            w = np.array([rnd(rng, 0.2, 2.0) * rng.choice((1, 1, -1)) for _ in range(n)]) * dep
            f = Fn(z, z, z, w, 0, z, 0, 0)
        elif kind == 'quad':
            q = np.array([rnd(rng, 0.2, 2.0) for _ in range(n)]) * dep
            t = np.array([rnd(rng, float(xmin[j]) - 0.5, float(xmax[j]) + 0.5) for j in range(n)])
            f = Fn(q, t, z, z, 0, z, 0, 0)
        elif kind == 'recip':
            c = np.array([rnd(rng, 0.2, 2.0) for _ in range(n)]) * dep
            f = Fn(z, z, c, z, 0, z, 0, 0)
        else:
            v = np.array([rnd(rng, 0.2, 1.5) * rng.choice((1, -1)) for _ in range(n)]) * dep
            w = np.array([rnd(rng, -0.5, 0.5) for _ in range(n)]) * dep
            f = Fn(z, z, z, w, rnd(rng, 0.3, 1.5), v, rnd(rng, -1.0, 1.0), 0)
        active = rng.random() < 0.6 or all_active
        slack = 0.0 if active else rnd(rng, 0.2, 1.5)
        # scale the constraint to O(1) gradients, then shift so that f(x*) = -slack
        gsc = max(1e-3, float(np.abs(f.grad(xs)).max()))
        sc = round(1.0 / gsc, 3) if gsc > 4 or gsc < 0.25 else 1.0
        f = Fn(f.q * sc, f.t, f.c * sc, f.w * sc, f.s * sc, f.v, f.rho, 0)
        if presp == i + 1:
            f = Fn(f.q, f.t, f.c, f.w, f.s, f.v, f.rho, 0, h=hinge['h'] * hinge['wend'], u=hinge['u'], sg=hinge['sg'])     # as it is in the end
        f.k = -slack - f.val(xs)
        cons.append(f)
        lam.append(rnd(rng, 0.3, 2.0) if active else 0.0)
    # objective: strictly convex separable + optional coupling; the linear part is solved from stationarity
    q = np.array([rnd(rng, 0.3, 2.0) for _ in range(n)])
    t = np.array([rnd(rng, float(xmin[j]) - 1.0, float(xmax[j]) + 1.0) for j in range(n)])
    c = np.array([rnd(rng, 0.0, 1.5) if positive and rng.random() < 0.6 else 0.0 for _ in range(n)])
    s = rnd(rng, 0.2, 1.0) if rng.random() < 0.4 else 0.0
    v = np.array([rnd(rng, -1.0, 1.0) for _ in range(n)]) if s else np.zeros(n)
    rho = rnd(rng, -1.0, 1.0) if s else 0.0
    f0 = Fn(q, t, c, np.zeros(n), s, v, rho, rnd(rng, 1.0, 3.0))
    need = -sum(l * g.grad(xs) for l, g in zip(lam, cons))          # required objective gradient at x* (free variables)
    nu = np.array([rnd(rng, 0.2, 1.5) if a != 0 else 0.0 for a in at])  # bound multipliers
    need = need + np.where(at == -1, nu, 0) - np.where(at == 1, nu, 0)
    f0.w = need - f0.grad(xs)
    if presp == 0:        # the objective depends on the pattern signal through the hinge terms only (the optimum is then not unique in
        for a in (f0.q, f0.c, f0.v, f0.w):      # those variables when the terms are inactive: convergence is not demanded)
            a[list(psig)] = 0.0
        f0 = Fn(f0.q, f0.t, f0.c, f0.w, f0.s, f0.v, f0.rho, f0.k, h=hinge['h'] * hinge['wend'], u=hinge['u'], sg=hinge['sg'])
    # starting point
    x0 = np.array([float(xmin[j]) if (u := rng.random()) < 0.12 else float(xmax[j]) if u < 0.24 else
                   float(xmin[j] + dx[j] * rnd(rng, 0.05, 0.95)) for j in range(n)])
    if x0frac:
        for j, fr_ in x0frac.items():
            x0[j] = float(xmin[j] + dx[j] * fr_)
    # ... held exactly by the kind of its signal (an integer / a float32 number inside the bounds)
    kinds = dict(kinds, states=list(kinds['states']))
    for i, k in enumerate(kinds['states']):
        a, b = int(cum[i]), int(cum[i + 1])
        if k in INT_KINDS and any(np.ceil(xmin[j]) > np.floor(xmax[j]) for j in range(a, b)):
            k = kinds['states'][i] = 'pyfloat' if shapes[i] == 0 else 'f64'          # no integer inside: keep floats
        for j in range(a, b):
            if k in INT_KINDS:
                x0[j] = min(max(np.round(x0[j]), np.ceil(xmin[j])), np.floor(xmax[j])) + 0.0      # (+ 0.0: no negative zero)
            elif k == 'f32':
                q = quantise(k, x0[j], 'round')
                x0[j] = q + 1 / 64 if q < xmin[j] else q - 1 / 64 if q > xmax[j] else q
    ver = rng.choice(('Svanberg2007', 'Svanberg2007', 'Svanberg1987', '1987', 'MMA-2007x'))
    kw = dict(mmaversion=ver)
    if rng.random() < 0.6:
        kw.update(asyinit=rnd(rng, 0.2, 0.9), asyincr=rnd(rng, 1.05, 1.4), asydecr=rnd(rng, 0.55, 0.9),
                  asybound=rnd(rng, 2.0, 20.0), albefa=rnd(rng, 0.05, 0.4))
    if rng.random() < 0.3:
        kw['epsimin'] = rng.choice((1e-7, 1e-8, 3e-9, 1e-9))
    out = dict(shapes=shapes, xmin=xmin_spec, xmax=xmax_spec, move=move_spec, spell=spell, kinds=kinds, x0=x0.tolist(),
               xstar=xs.tolist(), f=[f0.tojson()] + [g.tojson() for g in cons], kw=kw, maxit=rng.choice((40, 60)),
               verbosity=rng.choice((0, 0, 0, 2, 3, 4)), none_sens=rng.random() < 0.5)
    if pattern is not None:
        out['f'][presp]['h'] = hinge['h'].tolist()           # base weights; the weight of iteration k multiplies them
        out.update(pattern=dict(mode=pmode, response=presp, signal=int(pattern['signal'])), none_sens=True)
        if pmode in SCHEDULES:
            out['schedule'] = {str(presp): SCHEDULES[pmode]}
    return out


# ======================================================================================== running the implementation
RUN_TIMEOUT = [90.0]        # seconds per minimize_mma run (a normal run of 40-60 iterations takes a few seconds at most)


class Rec:
    pass


def run_problem(pym, prob, maxit=None):
    """run pymoto.minimize_mma on the problem with mmasub / subsolv / residual wrapped from outside"""
    import pymoto.common.mma as mma
    shapes = prob['shapes']
    lens = [1 if s == 0 else max(s, 0) for s in shapes]          # 0 = scalar, k > 0 = array of k, -1 = empty array
    cum = np.concatenate([[0], np.cumsum(lens)]).astype(int)
    n = int(cum[-1])
    fns = [Fn(**f) for f in prob['f']]
    x0 = np.array(prob['x0'], dtype=float)
    kinds = prob.get('kinds') or legacy_kinds(shapes, prob['spell'])
    variables = []
    for i, s in enumerate(shapes):
        variables.append(pym.Signal(f'x{i}', state=state_value(x0[cum[i]:cum[i + 1]], s == 0, kinds['states'][i])))
    if prob.get('_none_state'):
        variables[-1].state = None
    none_sens = prob.get('none_sens', False)
    schedule = {int(k): list(v) for k, v in (prob.get('schedule') or {}).items()}
    base_h = {i: fns[i].h.copy() for i in schedule}

    class Resp(pym.Module):
        def _prepare(self, fn):
            self.fn = fn

        def _response(self, *xs):
            self.x = np.concatenate([np.atleast_1d(np.asarray(v, dtype=float)).ravel() for v in xs])
            if prob.get('_vector_response') and self.fn is fns[-1]:
                return np.array([self.fn.val(self.x), 0.0])
            return self.fn.val(self.x)

        def _sensitivity(self, df):
            gr = self.fn.grad(self.x) * df
            out = []
            for i, s in enumerate(shapes):
                part = gr[cum[i]:cum[i + 1]]
                if none_sens and not np.any(part):
                    out.append(None)                     # exercises the `0 * v.state` branch of MMA.response
                else:
                    out.append(float(part[0]) if s == 0 else part.copy())
            rec.sens_log.append((fns.index(self.fn), [None if o is None else np.array(o, dtype=float).copy() for o in out]))
            return out
    responses = [pym.Signal(f'g{i}') for i in range(len(fns))]
    net = pym.Network([Resp(variables, responses[i], fns[i]) for i in range(len(fns))])

    rec = Rec()
    rec.calls, rec.callbacks, rec.sub, rec.first = [], [], [], None
    rec.sens_log, rec.fns_at, rec.sens_mark, rec.held = [], [], [], []
    cur = {}

    def cb():
        k = len(rec.callbacks)
        rec.callbacks.append([(np.ndim(v.state) == 0, np.array(v.state, dtype=float).ravel().copy(),
                               type(v.state).__name__, np.asarray(v.state).dtype) for v in variables])
        # the state objects themselves (what a user's callback may keep, e.g. a design history), re-inspected later
        rec.held += [[f'state of variable signal x{i} seen by the callback of iteration {k}', v.state, np.array(v.state).copy(), 'minimize_mma',
                      'a design seen in the variable signals is not modified afterwards (state object held by the caller, re-inspected later)']
                     for i, v in enumerate(variables) if isinstance(v.state, np.ndarray)]
        # continuation: the weights of the hinge terms of this iteration (what a user's callback does between iterations)
        for i, ws in schedule.items():
            fns[i].h = base_h[i] * ws[min(k, len(ws) - 1)]
        rec.fns_at.append([fn.copy() for fn in fns] if schedule else fns)       # the responses as they are in this iteration
        rec.sens_mark.append(len(rec.sens_log))

    orig_mmasub, orig_subsolv, orig_residual = mma.MMA.mmasub, mma.subsolv, mma.residual

    def w_mmasub(self, xval, g, dg):
        c = Rec()
        c.xval, c.g, c.dg = np.array(xval, dtype=float), np.array(g, dtype=float).copy(), np.array(dg, dtype=float).copy()
        c.xval_dt = np.asarray(xval).dtype
        c.xold1 = None if self.xold1 is None else self.xold1.copy()
        c.xold2 = None if self.xold2 is None else self.xold2.copy()
        c.offset0 = None if self.offset is None else np.array(self.offset, dtype=float).copy()
        c.fns = rec.fns_at[-1] if rec.fns_at else fns
        c.sens = rec.sens_log[rec.sens_mark[-1]:] if rec.sens_mark else []      # what the modules reported in this iteration
        c.states = rec.callbacks[-1] if rec.callbacks else None
        if rec.first is None:
            f = Rec()
            f.cumlens = np.array(self.cumlens).astype(int).tolist()
            f.xmin = np.array(np.broadcast_to(self.xmin, (self.n,)), dtype=float).copy()
            f.xmax = np.array(np.broadcast_to(self.xmax, (self.n,)), dtype=float).copy()
            f.move = np.array(np.broadcast_to(self.move, (self.n,)), dtype=float).copy()
            # the dtypes in which MMA.response left them (a per-variable sequence is kept as it was given)
            f.xmin_dt, f.xmax_dt, f.move_dt = (np.asarray(v).dtype for v in (self.xmin, self.xmax, self.move))
            f.par = dict(asyinit=self.asyinit, asyincr=self.asyincr, asydecr=self.asydecr, asybound=self.asybound,
                         albefa=self.albefa, epsimin=self.epsimin, version=self.mmaversion, n=self.n, m=self.m,
                         a0=self.a0, a=np.array(self.a, dtype=float).copy(), c=np.array(self.c, dtype=float).copy(),
                         d=np.array(self.d, dtype=float).copy())
            rec.first = f
        cur['call'] = c
        ret = orig_mmasub(self, xval, g, dg)
        c.offset, c.low, c.upp = self.offset.copy(), self.low.copy(), self.upp.copy()
        c.xnew = np.array(ret[0], dtype=float).copy()
        c.xold1_after = None if self.xold1 is None else self.xold1.copy()
        c.xold2_after = None if self.xold2 is None else self.xold2.copy()
        rec.calls.append(c)
        return ret

    def w_residual(*args):
        r = orig_residual(*args)
        s = cur.get('sub')
        if s is not None:
            x, y, z, lam, xsi, eta, mu, zet, sl = args[:9]
            alfa, beta = args[21], args[22]
            epsi = args[15]
            s.nres += 1
            ok = bool(np.all(x > alfa) and np.all(x < beta) and np.all(y > 0) and z > 0 and np.all(lam > 0) and
                      np.all(xsi > 0) and np.all(eta > 0) and np.all(mu > 0) and zet > 0 and np.all(sl > 0))
            if not ok and s.bad_point is None:
                s.bad_point = dict(x=np.array(x).tolist(), alfa=np.array(alfa).tolist(), beta=np.array(beta).tolist(),
                                   y=np.array(y).tolist(), z=float(z), lam=np.array(lam).tolist(), epsi=float(epsi))
            snap = ([np.array(a, dtype=float).copy() for a in args[:9]], float(epsi), np.array(r, dtype=float).copy())
            if s.first_res is None:
                s.first_res = snap
            s.last_res = snap
            if not s.epsis or s.epsis[-1] != float(epsi):
                s.epsis.append(float(epsi))
        return r

    def w_subsolv(epsimin, low, upp, alfa, beta, P, Q, a0, a, b, c, d, x0=None):
        s = Rec()
        s.epsimin = float(epsimin)
        s.low, s.upp, s.alfa, s.beta = [np.array(v, dtype=float).copy() for v in (low, upp, alfa, beta)]
        s.P, s.Q, s.b = np.array(P, dtype=float).copy(), np.array(Q, dtype=float).copy(), np.array(b, dtype=float).copy()
        s.a0, s.a, s.c, s.d = float(a0), np.array(a, dtype=float).copy(), np.array(c, dtype=float).copy(), np.array(d, dtype=float).copy()
        s.x0 = None if x0 is None else np.array(x0, dtype=float).copy()
        s.nres, s.bad_point, s.first_res, s.last_res, s.epsis = 0, None, None, None, []
        cur['sub'] = s
        buf = io.StringIO()
        with contextlib.redirect_stdout(buf):
            ret = orig_subsolv(epsimin, low, upp, alfa, beta, P, Q, a0, a, b, c, d, x0=x0)
        cur['sub'] = None
        s.msgs = buf.getvalue().count('MMA Subsolver')
        s.ret = [np.array(v, dtype=float).copy() for v in ret]
        # the objects themselves, held by reference and re-inspected later (after the following subproblems, after the run, after later runs)
        rec.held += [[f'subsolv result {nm} of iteration {len(rec.sub)}', v, np.array(v).copy(), 'subsolv',
                      'the solution returned by subsolv is not modified afterwards (object held by the caller, re-inspected later)']
                     for nm, v in zip(('x', 'y', 'z', 'lam', 'xsi', 'eta', 'mu', 'zet', 's'), ret) if isinstance(v, np.ndarray)]
        if 'call' in cur:
            cur['call'].sub = s
        rec.sub.append(s)
        return ret

    kw = dict(prob['kw'])
    rec.owned = [[f'initial state of x{i}', v.state, np.array(v.state).copy()] for i, v in enumerate(variables) if isinstance(v.state, np.ndarray)]
    kw.update(xmin=spec_value(prob['xmin'], prob['spell']['xmin'], kinds['xmin']),
              xmax=spec_value(prob['xmax'], prob['spell']['xmax'], kinds['xmax']),
              move=spec_value(prob['move'], prob['spell']['move'], kinds['move']), maxit=maxit or prob['maxit'], tolx=0.0, tolf=0.0,
              verbosity=prob.get('verbosity', 0), fn_callback=cb)
    rec.owned += [[nm, kw[nm], np.array(kw[nm], dtype=float).copy()] for nm in ('xmin', 'xmax', 'move') if isinstance(kw[nm], (np.ndarray, list, tuple))]
    rec.error = None
    mma.MMA.mmasub, mma.subsolv, mma.residual = w_mmasub, w_subsolv, w_residual
    out = io.StringIO()
    def on_alarm(*a):
        raise TimeoutError(f'minimize_mma did not return within {RUN_TIMEOUT[0]} s')
    old_handler = signal.signal(signal.SIGALRM, on_alarm)
    signal.setitimer(signal.ITIMER_REAL, RUN_TIMEOUT[0])
    t_run = time.time()
    try:
        with contextlib.redirect_stdout(out), np.errstate(all='ignore'):
            pym.minimize_mma(net, variables, responses, **kw)
    except TimeoutError as e:
        rec.error = e
        RUN_TIMEOUT[0] = min(RUN_TIMEOUT[0], 15.0)        # a tree in which runs hang: do not wait that long again
    except Exception as e:          # noqa
        rec.error = e
    finally:
        signal.setitimer(signal.ITIMER_REAL, 0)
        signal.signal(signal.SIGALRM, old_handler)
        mma.MMA.mmasub, mma.subsolv, mma.residual = orig_mmasub, orig_subsolv, orig_residual
    rec.seconds = time.time() - t_run
    rec.variables, rec.responses, rec.fns, rec.cum, rec.n = variables, responses, fns, cum, n
    rec.final = np.concatenate([np.atleast_1d(np.asarray(v.state, dtype=float)).ravel() for v in variables])
    for i, ws in schedule.items():
        fns[i].h = base_h[i] * ws[-1]               # the problem as it is in the end (its optimum is prob['xstar'])
    rec.final_states = [None if v.state is None else np.array(v.state).copy() for v in variables]
    return rec


def number(v, kind):
    """the value v (exactly representable in that kind) as a Python float / int or a numpy scalar"""
    if kind == 'pyfloat':
        return float(v)
    if kind == 'pyint':
        assert float(v) == int(v)
        return int(v)
    r = np_type(kind)(v)
    assert float(r) == float(v), (v, kind)
    return r


def state_value(vals, is_scalar, kind):
    """initial state of a variable signal in the requested kind"""
    if is_scalar:
        return number(vals[0], kind)
    a = np.array(vals, dtype=np_type(kind))
    assert np.array_equal(a.astype(float), np.asarray(vals, dtype=float)), (vals, kind)
    return a


def spec_value(spec, spell, kind=None):
    """JSON spec -> the python object handed to minimize_mma: a scalar, a list / tuple of Python numbers or an ndarray"""
    if kind is None:
        kind = dict(container={'scalar': 'scalar', 'signal': 'list', 'variable': 'array'}[spell],
                    num='f64' if spell == 'variable' else 'pyfloat')
    if spell == 'scalar':
        return number(spec, kind['num'])
    if kind['container'] == 'array':
        a = np.array(spec, dtype=np_type(kind['num']))
        assert np.array_equal(a.astype(float), np.asarray(spec, dtype=float)), (spec, kind)
        return a
    vals = [number(v, kind['num']) for v in spec]
    return tuple(vals) if kind['container'] == 'tuple' else vals



# ======================================================================================== Coq side
HEADER = """From Coq Require Import ZArith QArith String List Bool.
From Pymoto Require Import Base.Num Base.Cmp Base.MMANum Model.MMAform Model.MMAvars Model.MMAcorr.
Import ListNotations.
Open Scope Q_scope.
Definition mkD low upp alfa beta Pm Qm a0 a b c d : sdata Q :=
  {| d_low := low; d_upp := upp; d_alfa := alfa; d_beta := beta; d_P := Pm; d_Q := Qm; d_a0 := a0; d_a := a; d_b := b;
     d_c := c; d_d := d |}.
Definition mkS x y z lam xsi eta mu zet s : sstate Q :=
  {| sx := x; sy := y; sz := z; slam := lam; sxsi := xsi; seta := eta; smu := mu; szet := zet; ss := s |}.
Definition mkP a b c d e : asypar Q := {| asyinit := a; asyincr := b; asydecr := c; asybound := d; albefa := e |}.
Definition all (l : list bool) : bool := forallb (fun b => b) l.
"""

K_STALL = ('subsolv', 'returned point satisfies max|residual| <= 0.9*epsi_last',
           'inner Newton loop reached maxittt = 400 (message "MMA Subsolver: itt = ..." printed)')
K_STALL_TEXT = ('subsolv gives up after maxittt = 400 Newton steps per epsi level and returns a point whose KKT residual exceeds '
                'the requested accuracy (only a message is printed); frequent when no constraint is active at the subproblem '
                'optimum; inherited from the reference algorithm (undamped Newton + residual-norm backtracking), no small patch')


# class of the fixed finding F35 (54bd286): reported with its original triple when it comes back
K_SEQ_CLASS = 'xmin and xmax both given per variable as Python lists / tuples (more variables than signals)'


def kinds_class(kinds):
    fam = lambda k: 'int' if k in INT_KINDS else 'float32' if k == 'f32' else 'float'
    st = sorted({fam(k) for k in kinds['states']})
    return 'states:' + '+'.join(st) + ' ' + ' '.join(f"{nm}:{kinds[nm]['container']}/{fam(kinds[nm]['num'])}" for nm in ('xmin', 'xmax', 'move'))


K_CYCLE = ('minimize_mma', 'iterates approach the known optimum and the constraints end up satisfied',
           'asybound < 6 (asymptote offset clamped from below at 1/asybound^2 > 1/36)')
K_CYCLE_TEXT = ('MMA (no globalisation) cycles with constant amplitude on convex problems once the asymptote offset sits on its lower clamp '
                '1/asybound^2: observed for asybound < 6 (2-cycle, constraint violated at both points); smaller amplitude with the default '
                'asybound = 10; no small patch')


def qv(a):
    return ql(fr(a))


def qm(a):
    return ql([fr(r) for r in np.asarray(a, dtype=float)])


def qopt(a):
    return 'None' if a is None else f'(Some {qv(a)})'


def qf(x):
    return qlit(F(float(x)))


def sdata_coq(s):
    return (f'(mkD {qv(s.low)} {qv(s.upp)} {qv(s.alfa)} {qv(s.beta)} {qm(s.P)} {qm(s.Q)} {qf(s.a0)} {qv(s.a)} {qv(s.b)} '
            f'{qv(s.c)} {qv(s.d)})')


def state_coq(st):
    x, y, z, lam, xsi, eta, mu, zet, sl = st
    return f'(mkS {qv(x)} {qv(y)} {qf(z)} {qv(lam)} {qv(xsi)} {qv(eta)} {qv(mu)} {qf(zet)} {qv(sl)})'


def sval_coq(is_scalar, vals):
    return f'(Scal {qf(vals[0])})' if is_scalar else f'(Arr {qv(vals)})'


def bspec_coq(spec, spell):
    return f'(BScal {qf(spec)})' if spell == 'scalar' else f'(BList {qv(spec)})'


DT_TAG = {'int32': 'I32', 'int64': 'I64', 'float32': 'F32', 'float64': 'F64'}


def dt_tag(dtype):
    """numpy dtype -> the model's tag (None: a dtype outside the model, reported by the oracle)"""
    return DT_TAG.get(np.dtype(dtype).name)


def tarr_coq(dtype, vals):
    return f'({dt_tag(dtype) or "F64"}, {qv(vals)})'


def tstate_coq(tag, is_scalar, vals):
    return f'(TVal {tag} {sval_coq(is_scalar, vals)})'


def tbspec_coq(spec, spell, kind):
    tag = KIND_TAG[kind['num']]
    return f'(TBScal {tag} {qf(spec)})' if spell == 'scalar' else f'(TBList {tag} {qv(spec)})'


def prob_kinds(prob):
    return prob.get('kinds') or legacy_kinds(prob['shapes'], prob['spell'])


def version_flags(v):
    return ('true' if '1987' in v else 'false', 'true' if '2007' in v else 'false')


def normal_exit(s):
    """did the inner loop of the last epsi level end because the residual test failed?  From outside: no message for that
    level (the message is printed exactly when ittt > maxittt - 2)"""
    return float(np.abs(s.last_res[2]).max()) <= 0.9 * s.last_res[1]


def iteration_checks(rec, prob, k, full=True):
    """Coq boolean expressions (aspect name, expression) for iteration k of a recorded run"""
    f, c = rec.first, rec.calls[k]
    s = c.sub
    par = f.par
    h87, h07 = version_flags(par['version'])
    n = rec.n
    X = lambda a: float(np.abs(a).max()) if np.size(a) else 0.0
    sX = max(1.0, X(c.xval), X(f.xmin), X(f.xmax), X(c.low), X(c.upp))
    sP = max(X(s.P), X(s.Q), 1e-300)
    shift = c.offset * (f.xmax - f.xmin)
    sB = max(1.0, X(c.g), X(s.b), float(((np.abs(s.P) + np.abs(s.Q)) / np.abs(shift)).sum(axis=1).max()))
    out = []
    D = f'(mkD low upp alfa beta Pm Qm {qf(s.a0)} {qv(s.a)} b {qv(s.c)} {qv(s.d)})'
    pre = (f'let xval := {qv(c.xval)} in let xmin := {qv(f.xmin)} in let xmax := {qv(f.xmax)} in let move := {qv(f.move)} in '
           f'let g := {qv(c.g)} in let dg := {qm(c.dg)} in let xold1 := {qopt(c.xold1)} in '
           f'let low := {qv(c.low)} in let upp := {qv(c.upp)} in let alfa := {qv(s.alfa)} in let beta := {qv(s.beta)} in '
           f'let Pm := {qm(s.P)} in let Qm := {qm(s.Q)} in let b := {qv(s.b)} in let D := {D} in '
           f'let st0 := {state_coq(s.first_res[0])} in let ret := {state_coq(s.ret)} in let rl := {qv(s.last_res[2])} in ')
    for nm, a, b2 in (('low', s.low, c.low), ('upp', s.upp, c.upp)):
        if not np.array_equal(a, b2):       # (also an oracle statement) the stored asymptotes are the ones handed over
            pre += f'let {nm} := {qv(a)} in '
    fns = getattr(c, 'fns', None) or rec.fns            # the responses as they are in this iteration
    if full:
        scales = [fn.scale(c.xval) for fn in fns]
        if any(fn.hinged for fn in fns):
            out.append(('responses', f'responses_h_ok [{"; ".join(fn.coq_h() for fn in fns)}] xval {ql([F(v) for v in scales])} g dg'))
        else:
            out.append(('responses', f'responses_ok [{"; ".join(fn.coq() for fn in fns)}] xval {ql([F(v) for v in scales])} g dg'))
    # the rows of dg are built from what the modules reported in THIS iteration (None -> 0*state), exactly
    sens = sorted(getattr(c, 'sens', []), key=lambda t: t[0])
    if c.states is not None and [i for i, _ in sens] == list(range(len(fns))):
        st = '[' + '; '.join(sval_coq(sc, v) for sc, v, _, _ in c.states) + ']'
        rows = '[' + '; '.join('[' + '; '.join('None' if o is None else f'(Some {sval_coq(o.ndim == 0, o.ravel())})' for o in outs) + ']' for _, outs in sens) + ']'
        out.append(('sensitivity_rows', f'sensrows_ok {st} {rows} dg'))
    out.append(('mmasub', f'mmasub_ok (mkP {qf(par["asyinit"])} {qf(par["asyincr"])} {qf(par["asydecr"])} {qf(par["asybound"])} '
                f'{qf(par["albefa"])}) {h87} {h07} xval xmin xmax move xold1 {qopt(c.xold2)} {qopt(c.offset0)} g dg '
                f'{qf(sX)} {qf(sP)} {qf(sB)} {qv(c.offset)} low upp alfa beta Pm Qm b'))
    out.append(('history', f'history_ok xval xold1 {qopt(c.xold1_after)} {qopt(c.xold2_after)}'))
    out.append(('handover', f'Ql_eqb {qv(s.x0)} xval'))
    out.append(('init', f'init_ok D (Some xval) {qf(sX)} st0'))
    if full:
        sR0 = max(1.0, X(s.first_res[2]))
        out.append(('residual_first', f'residual_ok D {qf(s.first_res[1])} st0 {qf(sR0)} {qv(s.first_res[2])}'))
        # scale of the residual at the returned point: the largest term that enters it
        x = s.ret[0]
        big = max(1.0, X(s.P / (s.upp - x) ** 2), X(s.Q / (x - s.low) ** 2), X(s.c), X(s.b), X(s.ret[4]), X(s.ret[5]), X(s.ret[6]),
                  float((np.abs(s.P) / np.abs(s.upp - x) + np.abs(s.Q) / np.abs(x - s.low)).sum(axis=1).max()))
        out.append(('residual_last', f'residual_ok D {qf(s.last_res[1])} ret {qf(big)} rl'))
    out.append(('levels', f'levels_ok {qf(s.epsimin)} {qv(s.epsis)}'))
    if normal_exit(s):
        out.append(('exit', f'exit_ok {qf(s.last_res[1])} {qf(0.9 * s.last_res[1])} rl'))
    out.append(('interior', 'interior_ok D ret'))
    return pre + 'all [' + '; '.join(e for _, e in out) + ']', [a for a, _ in out], pre, out


def vars_checks(rec, prob):
    f = rec.first
    shapes = prob['shapes']
    cum0 = [int(v) for v in rec.cum]
    nsig = len(shapes)
    x0 = np.array(prob['x0'], dtype=float)
    init = [sval_coq(s == 0, x0[cum0[i]:cum0[i + 1]]) for i, s in enumerate(shapes)]
    out = [('concat', f'concat_ok [{"; ".join(init)}] {qv(rec.calls[0].xval if rec.calls else x0)} {zl(f.cumlens)}%nat')]
    for nm in ('xmin', 'xmax', 'move'):
        out.append((f'expand_{nm}', f'expand_ok {rec.n}%nat {nsig}%nat {zl(f.cumlens)}%nat {bspec_coq(prob[nm], prob["spell"][nm])} '
                    f'(Some {qv(getattr(f, nm))})'))
    # the same with the dtype of every operand: initial states of the given kinds -> dtype and values of the design vector, of the
    # expanded xmin / xmax / move as MMA.response left them, and of the written-back states
    kinds = prob_kinds(prob)
    tinit = [tstate_coq(KIND_TAG[kinds['states'][i]], s == 0, x0[cum0[i]:cum0[i + 1]]) for i, s in enumerate(shapes)]
    if rec.calls:
        out.append(('typed_vars', f'tvars_ok [{"; ".join(tinit)}] ' + ' '.join(tbspec_coq(prob[nm], prob['spell'][nm], kinds[nm]) for nm in ('xmin', 'xmax', 'move'))
                    + f' {tarr_coq(rec.calls[0].xval_dt, rec.calls[0].xval)} {zl(f.cumlens)}%nat '
                    + ' '.join(f'(Some {tarr_coq(getattr(f, nm + "_dt"), getattr(f, nm))})' for nm in ('xmin', 'xmax', 'move'))))
    # states seen by the callback of iteration k are the write-back of the design of iteration k
    ks = list(range(min(len(rec.callbacks), 6))) + ([len(rec.callbacks) - 1] if len(rec.callbacks) > 6 else [])
    for k in ks:
        xk = x0 if k == 0 else rec.calls[k - 1].xnew
        obs = '; '.join(sval_coq(sc, v) for sc, v, _, _ in rec.callbacks[k])
        out.append((f'writeback{k}', f'writeback_ok {qv(xk)} {zl(f.cumlens)}%nat [{obs}]'))
        tobs = '; '.join(tstate_coq(dt_tag(dt) or 'F64', sc, v) for sc, v, _, dt in rec.callbacks[k])
        out.append((f'typed_writeback{k}', f'twriteback_ok (F64, {qv(xk)}) {zl(f.cumlens)}%nat [{tobs}]'))
        if k < len(rec.calls):   # the design handed to mmasub is the concatenation of those states (read back after response())
            out.append((f'readback{k}', f'concat_ok [{obs}] {qv(rec.calls[k].xval)} {zl(f.cumlens)}%nat'))
    return 'all [' + '; '.join(e for _, e in out) + ']', [a for a, _ in out], '', out



# ======================================================================================== implementation-side oracle
def kkt_residual(s, st, epsi):
    """perturbed KKT system of the MMA subproblem (written from its definition, independent of mma.residual)"""
    x, y, z, lam, xsi, eta, mu, zet, sl = st
    P0, P1, Q0, Q1 = s.P[0], s.P[1:], s.Q[0], s.Q[1:]
    ux, xl = s.upp - x, x - s.low
    dpsi = (P0 + lam @ P1) / ux ** 2 - (Q0 + lam @ Q1) / xl ** 2
    gv = P1 @ (1 / ux) + Q1 @ (1 / xl)
    return np.concatenate([dpsi - xsi + eta, s.c + s.d * y - mu - lam, [s.a0 - zet - s.a @ lam], gv - s.a * z - y + sl - s.b,
                           xsi * (x - s.alfa) - epsi, eta * (s.beta - x) - epsi, mu * y - epsi, [zet * z - epsi], lam * sl - epsi])


def vclass(prob):
    return 'Svanberg1987' if '1987' in prob['kw'].get('mmaversion', 'Svanberg2007') else 'Svanberg2007'


def oracle_run(ctx, rec, prob, label, check_convergence=True):
    """the statements of C10 evaluated on the recorded run of the implementation"""
    f = rec.first
    cls = vclass(prob)
    pj = dict(label=label, problem=prob)

    def bad(site, pred, k, expected=None, got=None, icls=None, **extra):
        ctx.violation('impl-violates', site, pred, icls or cls, dict(pj, iteration=k, **extra), expected=expected, got=got)
    kinds = prob_kinds(prob)
    kcls = kinds_class(kinds)
    if rec.error is not None:
        # (fixed finding F35 had the class 'xmin and xmax both given per variable as Python lists / tuples (more variables than signals)')
        seq = both_sequences_per_variable(prob['spell'], kinds, rec.n, len(prob['shapes'])) and isinstance(rec.error, TypeError)
        bad('minimize_mma', 'runs without raising on a valid convex problem', None, got=repr(rec.error)[:500], kinds=kcls,
            icls=K_SEQ_CLASS if seq else None)
    if f is None:
        return
    lens = [1 if sh == 0 else max(sh, 0) for sh in prob['shapes']]
    given = {}
    for nm in ('xmin', 'xmax', 'move'):
        spec, spell = prob[nm], prob['spell'][nm]
        exp = np.full(rec.n, float(spec)) if spell == 'scalar' else np.array(spec, dtype=float) if spell == 'variable' else \
            np.concatenate([np.full(ln, float(v)) for ln, v in zip(lens, spec)] + [np.zeros(0)])
        given[nm] = exp
        if not np.array_equal(exp, getattr(f, nm)):
            bad('MMA.response', f'{nm} given as {spell} lands on the right variables', None, expected=exp.tolist(),
                got=getattr(f, nm).tolist(), icls='bounds:' + spell, kinds=kcls)
        # MMA.response leaves float64 vectors, whatever the kinds of the states and of the specification (a scalar move stays a scalar)
        dt = getattr(f, nm + '_dt')
        if dt_tag(dt) is None or (not (spell == 'scalar' and nm == 'move') and dt != np.float64):
            bad('MMA.response', f'expanded {nm} is a float64 vector', None, expected='float64', got=str(dt), icls='bounds:' + spell, kinds=kcls)
    if f.cumlens != [int(v) for v in rec.cum]:
        bad('MMA.response', 'cumulative lengths of the variable signals', None, expected=[int(v) for v in rec.cum], got=f.cumlens)
    if rec.error is not None:
        return
    # the statements of the property are about the bounds and the move limit AS GIVEN
    gxmin, gxmax, gmove = given['xmin'], given['xmax'], given['move']
    dx = gxmax - gxmin
    par = f.par
    sc = max(1.0, np.abs(gxmin).max(), np.abs(gxmax).max())
    e = 1e-12 * sc
    if len(rec.callbacks) < len(rec.calls):
        bad('MMA.response', 'fn_callback is called before every response', None, expected=len(rec.calls), got=len(rec.callbacks))
    for k, c in enumerate(rec.calls):
        ctx.search_evaluations += 1
        s = c.sub
        # ---- variables: what the callback saw is the design, signal by signal
        xk = np.array(prob['x0'], dtype=float) if k == 0 else rec.calls[k - 1].xnew
        if c.xval_dt != np.float64:
            bad('MMA.response', 'design vector handed to mmasub is float64', k, expected='float64', got=str(c.xval_dt), kinds=kcls)
        for i, (is_scalar, vals, tname, sdt) in enumerate(rec.callbacks[k]):
            a, b = int(rec.cum[i]), int(rec.cum[i + 1])
            if sdt != np.float64:
                bad('MMA.response', 'written-back state is a float64 scalar / array', k, expected='float64', got=f'{tname} of {sdt}', signal=i, kinds=kcls)
            if not np.array_equal(vals, xk[a:b]):
                bad('MMA.response', 'variable signal holds its own range of the design vector', k, expected=xk[a:b].tolist(), got=vals.tolist(), signal=i)
            if is_scalar != (b - a == 1):
                bad('MMA.response', 'one-value signal gets a scalar state, others a 1-D array', k, expected=(b - a == 1), got=is_scalar, signal=i)
        if not np.array_equal(c.xval, xk):
            bad('MMA.response', 'design handed to mmasub is the design written to the signals', k, expected=xk.tolist(), got=c.xval.tolist())
        # ---- responses and sensitivities: against the functions as they are in THIS iteration (a callback may have changed weights),
        #      evaluated independently; a block the module reported as None counts as zero
        if c.dg.shape != (len(c.fns), rec.n):
            bad('MMA.response', 'dg handed to mmasub has one row per response and one column per design variable', k,
                expected=[len(c.fns), rec.n], got=list(c.dg.shape))
            continue
        for i, fn in enumerate(c.fns):
            t = 1e-9 * fn.scale(c.xval)
            if abs(c.g[i] - fn.val(c.xval)) > t:
                bad('MMA.response', 'g handed to mmasub is the response value', k, expected=float(fn.val(c.xval)), got=float(c.g[i]), response=i)
            if np.abs(c.dg[i] - fn.grad(c.xval)).max() > t:
                bad('MMA.response', 'dg handed to mmasub is the response gradient (sensitivities reset between responses)', k,
                    expected=fn.grad(c.xval).tolist(), got=c.dg[i].tolist(), response=i, none_pattern=none_pattern(c), icls=hist_class(rec, k, cls))
        note_patterns(ctx, rec, k)
        # ---- box, move limit, asymptotes
        if np.any(c.xval < gxmin - e) or np.any(c.xval > gxmax + e):
            bad('minimize_mma', 'design stays within [xmin, xmax]', k, got=c.xval.tolist())
        if np.any(s.alfa < gxmin) or np.any(s.alfa > c.xval + e) or np.any(s.beta < c.xval - e) or np.any(s.beta > gxmax):
            bad('MMA.mmasub', 'xmin <= alfa <= xval <= beta <= xmax', k, got=dict(alfa=s.alfa.tolist(), beta=s.beta.tolist(), xval=c.xval.tolist()))
        if np.any(s.alfa < c.xval - gmove * dx - e) or np.any(s.beta > c.xval + gmove * dx + e):
            bad('MMA.mmasub', 'alfa/beta within the move limit', k, got=dict(alfa=s.alfa.tolist(), beta=s.beta.tolist(), xval=c.xval.tolist()))
        if not (np.all(c.low < s.alfa) and np.all(s.beta < c.upp) and np.all(s.alfa < s.beta)):
            bad('MMA.mmasub', 'low < alfa < beta < upp', k, got=dict(low=c.low.tolist(), alfa=s.alfa.tolist(), beta=s.beta.tolist(), upp=c.upp.tolist()))
        if not np.array_equal(c.low, s.low) or not np.array_equal(c.upp, s.upp):
            bad('MMA.mmasub', 'asymptotes handed to subsolv are the stored ones', k)
        if np.any(c.offset <= 0) or (k >= 2 and par['asybound'] >= 1 and
                                     (np.any(c.offset < 1 / par['asybound'] ** 2 * (1 - 1e-12)) or np.any(c.offset > par['asybound'] * (1 + 1e-12)))):
            bad('MMA.mmasub', 'offset positive and clamped to [1/asybound^2, asybound] once adapted', k, got=c.offset.tolist())
        # ---- approximation reproduces value and gradient, is convex
        ux, xl = c.upp - c.xval, c.xval - c.low
        val = (s.P / ux + s.Q / xl).sum(axis=1)
        sB = max(1.0, np.abs(c.g).max(), np.abs(s.b).max(), val.max())
        if np.abs(val[1:] - s.b - c.g[1:]).max() > 1e-9 * sB:
            bad('MMA.mmasub', 'approximation value at xval equals g', k, expected=c.g[1:].tolist(), got=(val[1:] - s.b).tolist())
        gr = s.P / ux ** 2 - s.Q / xl ** 2
        if np.abs(gr - c.dg).max() > 1e-9 * max(1.0, np.abs(c.dg).max(), (s.P / ux ** 2).max()):
            bad('MMA.mmasub', 'approximation gradient at xval equals dg', k, expected=c.dg.tolist(), got=gr.tolist())
        # the clause of the property itself: the approximations handed to subsolv reproduce the gradient of every response at the
        # current design (gradient evaluated independently of what MMA.response collected)
        gtrue = np.array([fn.grad(c.xval) for fn in c.fns])
        gsc = np.array([fn.scale(c.xval) for fn in c.fns])[:, None]
        if (np.abs(gr - gtrue) > 1e-8 * np.maximum(gsc, (s.P / ux ** 2).max())).any():
            bad('MMA.mmasub', 'approximations handed to subsolv reproduce the gradient of every response at the current design', k,
                expected=gtrue.tolist(), got=gr.tolist(), none_pattern=none_pattern(c), icls=hist_class(rec, k, cls))
        if np.any(s.P < 0) or np.any(s.Q < 0):
            bad('MMA.mmasub', 'P, Q >= 0', k)
        # ---- subproblem solution
        x = s.ret[0]
        if not (np.all(x > s.alfa) and np.all(x < s.beta)):
            bad('subsolv', 'returned x strictly inside (alfa, beta)', k, got=dict(x=x.tolist(), alfa=s.alfa.tolist(), beta=s.beta.tolist()))
        if np.any(x < gxmin) or np.any(x > gxmax) or np.any(np.abs(x - c.xval) > gmove * dx + e):
            bad('minimize_mma', 'new design within [xmin, xmax] and within move*(xmax-xmin) of the old one', k,
                got=dict(x=x.tolist(), xval=c.xval.tolist()))
        if not np.array_equal(c.xnew, x):
            bad('MMA.mmasub', 'mmasub returns the x of subsolv', k)
        if s.bad_point is not None:
            bad('subsolv', 'every line-search trial point is strictly interior (x in (alfa,beta), multipliers and slacks > 0)', k, got=s.bad_point)
        for a, b in zip(s.last_res[0], s.ret):
            if not np.array_equal(a, b):
                bad('subsolv', 'returned point is the last evaluated point', k)
                break
        el = s.last_res[1]
        if not (s.epsimin < el <= 10 * s.epsimin * (1 + 1e-9)) and s.epsimin < 1:
            bad('subsolv', 'epsimin < epsi_last <= 10*epsimin', k, got=dict(epsi_last=el, epsimin=s.epsimin))
        r = kkt_residual(s, s.ret, el)
        rmax = float(np.abs(r).max())
        noise = 1e-13 * max(1.0, np.abs(s.P / (s.upp - x) ** 2).max(), np.abs(s.Q / (x - s.low) ** 2).max(), np.abs(s.c).max())
        if rmax > 0.9 * el + noise:
            if s.msgs > 0:       # the solver itself reported that it ran out of Newton iterations
                ctx.count('subsolv_gave_up')
                ctx.violation('impl-violates', *K_STALL, dict(pj, iteration=k, sub=sub_json(s)), expected=f'<= {0.9 * el}', got=rmax)
            else:
                bad('subsolv', 'KKT residual of the returned point <= 0.9*epsi_last', k, expected=0.9 * el, got=rmax, sub=sub_json(s))
    # ---- what the recorder holds by reference is still what it was: the arrays subsolv returned in EARLIER iterations, the caller's
    #      bound / move-limit objects and initial state arrays
    inspect_held(ctx, rec, prob, label, 'the end of its own run')
    # ---- convergence (validated, not proved)
    if check_convergence and rec.calls and float(np.max(gmove)) >= 1.0:
        ctx.count('convergence_not_demanded(move>=1: no effective move limit)')      # integer-typed move limits are 1
    elif check_convergence and rec.calls:
        ctx.search_evaluations += 1
        xs = np.array(prob['xstar'])
        d0 = float((np.abs(rec.calls[0].xval - xs) / dx).max())
        d1 = float((np.abs(rec.final - xs) / dx).max())
        gmax = max(float(fn.val(rec.final)) / fn.scale(rec.final) for fn in rec.fns[1:])
        ctx.extra.setdefault('convergence_distances', []).append(round(d1, 6))
        if d1 > max(CONV_ABS, CONV_REL * d0) or gmax > CONV_G:
            small = prob['kw'].get('asybound', 10.0) < 6
            if small:
                ctx.count('mma_did_not_converge(asybound<6)')
            ctx.violation('impl-violates', K_CYCLE[0], K_CYCLE[1], K_CYCLE[2] if small else cls,
                          dict(pj, iterations=len(rec.calls), xfinal=rec.final.tolist()),
                          expected=f'distance <= {max(CONV_ABS, CONV_REL * d0)} and scaled constraint violation <= {CONV_G}',
                          got=dict(distance=d1, initial_distance=d0, constraint=gmax))


def none_pattern(c):
    """per response: which variable signals the module reported no sensitivity for (None) in this iteration"""
    return [[o is None for o in out] for _, out in sorted(c.sens, key=lambda t: t[0])]


def hist_class(rec, k, cls):
    """input class of a gradient failure: did the None pattern of the sensitivities change before this iteration?"""
    pats = [none_pattern(c) for c in rec.calls[:k + 1]]
    return cls + (': None pattern of the sensitivities changed during the run' if any(p != pats[0] for p in pats) else '')


def note_patterns(ctx, rec, k):
    """input distribution: transitions of the None pattern between consecutive iterations, per (response, signal) block"""
    if k == 0 or k >= len(rec.calls):
        return
    a, b = none_pattern(rec.calls[k - 1]), none_pattern(rec.calls[k])
    for ra, rb in zip(a, b):
        for x, y in zip(ra, rb):
            if x != y:
                ctx.count('sensitivity_block:' + ('array->None' if y else 'None->array'))


def inspect_held(ctx, rec, prob, label, when):
    """objects held by reference (arrays returned by subsolv, final states in the variable signals, caller-owned bounds / move limits /
    initial state arrays) still hold what they held when they were recorded"""
    ctx.search_evaluations += 1
    case = dict(label=label, problem=prob, reinspected_after=when)
    for item in rec.held:
        name, obj, snap, site, pred = item
        if not np.array_equal(obj, snap, equal_nan=True):
            ctx.violation('impl-violates', site, pred,
                          'several subproblem solves / optimisations in one process', dict(case, object=name), expected=snap.tolist(), got=np.array(obj).tolist())
            item[2] = np.array(obj).copy()
            break
    for item in rec.owned:
        name, obj, snap = item
        if not np.array_equal(np.array(obj, dtype=float), np.array(snap, dtype=float)):
            ctx.violation('impl-violates', 'minimize_mma', 'caller-owned arrays (bounds, move limits, initial states) are not modified',
                          'caller-owned arrays', dict(case, object=name), expected=np.array(snap, dtype=float).tolist(), got=np.array(obj, dtype=float).tolist())
            item[2] = np.array(obj).copy()
    if rec.error is None and getattr(rec, 'final_states', None) is not None:
        for i, (v, snap) in enumerate(zip(rec.variables, rec.final_states)):
            now = None if v.state is None else np.array(v.state)
            same = (now is None and snap is None) or (now is not None and snap is not None and now.shape == snap.shape and np.array_equal(now, snap, equal_nan=True))
            if not same:
                f = rec.first
                ctx.violation('impl-violates', 'minimize_mma', 'variable signals of a finished optimisation keep its final design (re-inspected after later runs)',
                              'several optimisations in one process', dict(case, signal=i, xmin=None if f is None else f.xmin.tolist(), xmax=None if f is None else f.xmax.tolist()),
                              expected=None if snap is None else snap.tolist(), got=None if now is None else now.tolist())
                rec.final_states[i] = None if now is None else now.copy()


class Ledger:
    """the runs of this process: re-inspected after later runs (of equal and of different sizes)"""

    def __init__(self):
        self.items = []

    def add(self, label, prob, rec):
        rec.calls_n = len(rec.calls)
        self.items.append((label, prob, rec))

    def inspect(self, ctx, last=None, when=''):
        items = self.items[:-1] if last is None else self.items[-last - 1:-1]
        for label, prob, rec in items:
            inspect_held(ctx, rec, prob, label, when)


CONV_ABS, CONV_REL, CONV_G = 0.1, 0.3, 1e-4
# kinds of the operands of the generated problems (the corpus holds one deliberately chosen problem per family, run on every seed)
PROFILES = ('legacy', 'legacy', 'mixed', 'mixed', 'mixed', 'allint', 'allf32', 'alli32')


def sub_json(s):
    return dict(epsimin=s.epsimin, low=s.low.tolist(), upp=s.upp.tolist(), alfa=s.alfa.tolist(), beta=s.beta.tolist(),
                P=s.P.tolist(), Q=s.Q.tolist(), a0=s.a0, a=s.a.tolist(), b=s.b.tolist(), c=s.c.tolist(), d=s.d.tolist(),
                x0=None if s.x0 is None else s.x0.tolist())



# ======================================================================================== the check
def translate(ctx):
    """(T) regenerate coq/gen/C10/MMAGen.v from the source, compile it and the bridge lemmas"""
    import gen_C10
    import py2coq
    err = ''
    ok = True
    try:
        text = gen_C10.generate(vlib.REPO)
        pth = ctx.write_gen('MMAGen.v', text)
        ok, _, err = vlib.compile_file(ctx, pth, 'gen:MMAGen.v (translated from pymoto/common/mma.py) compiles', 'translator')
    except py2coq.Unsupported as e:
        ctx.obligation('gen:MMAGen.v translation of pymoto/common/mma.py', 'translator', False, str(e))
        ok, err = False, str(e)
    if ok:
        bp = os.path.join(ctx.bridge_dir, 'MMABridge.v')
        ok, _, err = vlib.compile_file(ctx, bp, 'bridge:MMABridge (generated formulas = Model/MMAform.v, all arguments, every numeric instance)', 'bridge')
    if not ok:
        ctx.violation('proof', 'pymoto/common/mma.py', 'generated formulas equal Model/MMAform.v', 'translator/bridge',
                      dict(error=err[-3000:]), theorem='BridgeC10.MMABridge')
    # ---- pymoto/utils.py: _concatenate_to_array / _split_from_array (typed model of Model/MMAvars.v)
    import gen_utils
    ok2, err2 = True, ''
    try:
        pth = ctx.write_gen('UtilsGen.v', gen_utils.generate(vlib.REPO))
        ok2, _, err2 = vlib.compile_file(ctx, pth, 'gen:UtilsGen.v (translated from pymoto/utils.py) compiles', 'translator')
    except py2coq.Unsupported as e:
        ctx.obligation('gen:UtilsGen.v translation of pymoto/utils.py', 'translator', False, str(e))
        ok2, err2 = False, str(e)
    if ok2:
        bp = os.path.join(ctx.bridge_dir, 'UtilsBridge.v')
        ok2, _, err2 = vlib.compile_file(ctx, bp, 'bridge:UtilsBridge (generated _concatenate_to_array / _split_from_array = Model/MMAvars.v typed model; '
                                         'the generated concatenation is float64 for entries of every dtype)', 'bridge')
    if not ok2:
        ctx.violation('proof', 'pymoto/utils.py', 'generated _concatenate_to_array / _split_from_array equal the typed model of Model/MMAvars.v '
                      '(result float64 whatever the dtypes of the entries)', 'translator/bridge', dict(error=err2[-3000:]),
                      theorem='BridgeC10.UtilsBridge.gen_concat_dtype_float64')
    # ---- MMA.response: expansion of xmin / xmax / move, float conversion, write-back (typed model of Model/MMAvars.v)
    ok3, err3 = True, ''
    try:
        pth = ctx.write_gen('VarsGen.v', gen_C10.generate_vars(vlib.REPO))
        ok3, _, err3 = vlib.compile_file(ctx, pth, 'gen:VarsGen.v (translated from MMA.response in pymoto/common/mma.py) compiles', 'translator')
    except py2coq.Unsupported as e:
        ctx.obligation('gen:VarsGen.v translation of MMA.response', 'translator', False, str(e))
        ok3, err3 = False, str(e)
    if ok3:
        bp = os.path.join(ctx.bridge_dir, 'VarsBridge.v')
        ok3, _, err3 = vlib.compile_file(ctx, bp, 'bridge:VarsBridge (generated bound / move-limit expansion and write-back of MMA.response = Model/MMAvars.v '
                                         'typed model; expanded bounds float64, per-signal values land untruncated on a float64 design vector)', 'bridge')
    if not ok3:
        ctx.violation('proof', 'pymoto/common/mma.py', 'generated variable handling of MMA.response equals the typed model of Model/MMAvars.v',
                      'translator/bridge', dict(error=err3[-3000:]), theorem='BridgeC10.VarsBridge')
    return ok and ok2 and ok3


def load_corpus():
    out = []
    for pth in sorted(glob.glob(os.path.join(vlib.ROOT, 'corpus', 'C10', '*.json'))):
        with open(pth) as fh:
            d = json.load(fh)
        d['_file'] = os.path.basename(pth)
        out.append(d)
    return out


def all_inactive(prob):
    xs = np.array(prob['xstar'])
    return all(Fn(**f).val(xs) < -1e-6 for f in prob['f'][1:])


def run(ctx):
    import pymoto as pym
    import pymoto.common.mma as mma
    import pymoto.utils as putils
    quick = ctx.quick()
    ctx.rule = ('runs of pymoto.minimize_mma on random convex problems with a known optimum (KKT construction): 1-3 variable signals '
                'mixing scalars and 1-D arrays (n <= 15 quick / 36 thorough), 1-3 constraints (linear, separable quadratic, reciprocal, '
                'non-separable squared-linear), bounds and move limit each spelled as scalar / per signal / per variable, both MMA versions '
                '(also odd spellings of the version string), random asymptote parameters, starting points partly on the bounds, responses '
                'that ignore a signal (None sensitivity).  Kinds of the operands: initial states as Python int / float, numpy int32 / int64 / float32 / float64 '
                'scalars and 1-D arrays (profiles legacy / mixed / all-int / all-int32 / all-float32), bounds and move limit as Python or numpy scalars, lists, tuples '
                'and arrays of integer and float kinds (per signal and per variable); 11 deliberately chosen corpus problems (kinds_*.json) cover every family on every seed.  '
                'One case = one recorded iteration (mmasub + subsolv call) or one variable-'
                'handling record of a run; non-trivial when n >= 2 or the iteration has a history (k >= 2); distinct by (run, iteration, aspect). '
                'Corpus first (edge cases: single scalar, empty array signal, 1-element array, all variables on bounds, the witness of the '
                'subsolv give-up finding); a malformed stream compares exception classes only.  HISTORIES (on every seed, own random stream): '
                '12 (quick) / 36 problems in which one response depends on one variable signal only through convex C1 hinge terms h*max(0, +-(x-u))^2, '
                'so that the sensitivity the module reports for that signal is an array in some iterations and None in others: driven by the iterate (term active '
                'at the start and inactive at the optimum, the mirror image, inactive at the start and active at the optimum) or by fn_callback (continuation '
                'weights 1 1 1 .5 0 / 0 0 0 .5 1 / 1 0 0 1 0 1 1 0 .5 1 set per iteration), for constraints and for the objective; at EVERY recorded iteration g / dg '
                'and the gradient of the P/Q approximations are compared with the independently evaluated value / gradient of the response as it is in THAT iteration '
                '(None counted as zero), and the rows of dg are compared exactly with Model/MMAvars.sens_row applied to what the modules reported in that iteration '
                '(the iterations at which the None pattern changes are the ones evaluated inside Coq).  SEVERAL OPTIMISATIONS PER PROCESS: a sequence of 7 runs of equal '
                'size (n, m) with disjoint boxes, of another size, of the same n spread over other signals, scalar-only, and the first one again (must reproduce its '
                'iterates); after every run the four runs before it, and at the end all runs of the process, are re-inspected: the variable signals still hold the final '
                'design, every array object subsolv returned (held by reference by the recorder, all iterations) and the caller\'s bound / move-limit / initial-state '
                'objects still hold what they held.')
    ctx.assumptions += [
        'theorems are over exact real arithmetic; floats are tied by the 1e-9 relative comparison in Q on recorded inputs',
        'the starting design lies in [xmin, xmax], xmin < xmax, 0 < move, 0 < albefa < 1, asyinit > 0, asybound > 0 (what the generator produces; '
        'asybound >= 1 for the two-sided clamp)',
        'responses with hinge terms are evaluated inside Coq by Model/MMAcorr.hval / hgrad (max over Q); the optimum of a problem whose weights are changed by the callback '
        'is that of the final weights; when the objective depends on a signal only through hinge terms the optimum is not unique and convergence is not demanded; '
        'the pattern problems have all constraints active at the optimum (inactive ones make subsolv give up, K03, 20 s per run)',
        'variable signals hold Python/numpy real scalars or 1-D arrays of dtype int32 / int64 / float32 / float64 (an n-D array is flattened by the write-back: its shape '
        'is not restored; a 0-d array as a bound raises TypeError in len() and is not generated); modules do not modify the variable signals',
        'typed model: astype is a parameter of the theorems (only float64 -> float64 = identity is used); over Q it is truncation towards zero for integer targets and the '
        'identity for float targets; integer operands are below 2^53 and float32 operands are multiples of 1/64, so every conversion to float64 is exact',
        'the admissible interval beta - alfa is wider than 2e-10, the margin hard-coded in subsolv (C10_subsolv_init_interior)',
        'number of constraints m >= 1 (np.min of an empty array raises for m = 0) and m + n < 100 (epsimin*sqrt(m+n) stays off the powers of ten)',
        'CONVERGENCE IS VALIDATED, NOT PROVED: "iterates approach the optimum, constraints end up satisfied" is checked by the oracle on generated '
        'problems only (partial); MMA without globalisation can cycle on non-separable constraints when the asymptote offset is clamped from below, '
        f'so the oracle demands only distance <= max({CONV_ABS}, {CONV_REL}*initial distance) (relative to xmax-xmin) and scaled constraint violation <= {CONV_G} '
        'after 40 (quick) / 60 iterations on problems with at least one active constraint and a move limit < 1 (an integer-typed move limit is 1, i.e. no move limit: there MMA '
        'without globalisation oscillates longer and convergence is not demanded); failures with asybound < 6 are the known finding K04 (MMA cycles)',
        'the Newton direction inside subsolv (which uses np.linalg.solve) and np.linalg.norm are parameters of the model: the interior and exit '
        'theorems hold for every direction / norm; convergence of the Newton iteration is not claimed (known finding: subsolv gives up)',
    ]
    ctx.trusted += [
        'Print Assumptions: the real-number theorems rely on ClassicalDedekindReals.sig_forall_dec and '
        'FunctionalExtensionality.functional_extensionality_dep (Coq stdlib Reals / Coquelicot); the variable-handling theorems are closed under the global context',
        'tools/gen_C10.py (fail-closed translator: component reading of elementwise numpy code, decimal literals read as rationals; array-bookkeeping dialect for the variable '
        'handling of MMA.response) and tools/gen_utils.py (pymoto/utils.py)',
        'numpy dtype semantics embodied in Model/MMAvars.v (np.append = concatenate with promotion, zeros_like / ones_like keep the dtype, slice assignment casts to the target dtype): '
        'the promotion table is validated against numpy on every run, the rest by the exact dtype + value correspondence',
        'same polymorphic model term interpreted over R (theorems) and over Q (evaluation); no Q2R transfer lemma',
        'monkeypatching of pymoto.common.mma.subsolv / residual / MMA.mmasub records faithfully (wrappers only copy arguments and results; the array objects subsolv '
        'returns are additionally held by reference); the recording response modules report a block of the gradient that vanishes identically as None',
    ]
    vlib.audit(ctx)
    if not vlib.ensure_static(ctx, ['theories/Props/C10.vo', 'theories/Model/MMAcorr.vo']):
        return
    gen_ok = translate(ctx)
    vlib.check_props(ctx)

    rng = ctx.rng
    checks, labels, parts = [], [], []

    def add(label, triple, nontrivial=True):
        expr, aspects, pre, items = triple
        checks.append(expr)
        labels.append(label)
        parts.append((aspects, pre, items))
        ctx.case(label, nontrivial, sample=dict(case=str(label), aspects=aspects, coq=expr[:200]))

    # ---------------- problems: corpus first, then generated
    todo = []
    for d in load_corpus():
        if d.get('kind') == 'problem':
            todo.append((f"corpus:{d['_file']}", d['problem'], d.get('maxit'), d.get('convergence', False), d.get('iterations')))
    # ---- several optimisations of EQUAL size (n, m) with disjoint boxes, of a different size, with the same n spread over other
    #      signals, and the first one again: every earlier run is re-inspected after every later one (Ledger), the repeated run must
    #      reproduce the first one
    import random as _random
    srng = _random.Random(ctx.seed * 7919 + 1010)     # own stream: the generated problems below stay what they were for a given seed
    for tag, kw_ in (('A', dict(shapes=[5], m=1)), ('B', dict(shapes=[5], m=1, lo_range=(6.0, 7.0))), ('C', dict(shapes=[3, 0], m=2)),
                     ('D', dict(shapes=[2, 3], m=1, lo_range=(-9.0, -8.0))), ('E', dict(shapes=[0, 0], m=2)), ('F', dict(shapes=[0, 0], m=2, lo_range=(11.0, 12.0)))):
        sp = gen_problem(srng, all_active=True, **kw_)
        sp.update(verbosity=0, none_sens=False)
        todo.append((f'sequence:{tag}', sp, 12, False, [0, 11]))
    todo.append(('sequence:A again', json.loads(json.dumps(todo[-6][1])), 12, False, [11]))
    # ---- responses whose None / array sensitivity pattern per variable signal CHANGES between iterations (hinge terms driven by the
    #      iterate, weights driven by fn_callback), on every seed
    pshapes = ([3, 0], [0, 2], [2, 3, 0], [0, 0, 4], [2, 2], [1, 3], [4, 0, 0])
    presps = (1, 2, 1, 0, 3, 1, 1, 0, 2, 1, 1, 3)
    for t in range(len(PATTERN_MODES) * (2 if quick else 6)):
        mode = PATTERN_MODES[t % len(PATTERN_MODES)]
        shapes = list(pshapes[t % len(pshapes)])
        resp = presps[t % len(presps)]
        if resp == 0 and mode == 'on-at-optimum':       # nothing moves the variables of an objective term that is inactive at the start
            mode = 'off-at-optimum'
        # (all constraints active at the optimum: with inactive ones subsolv often gives up, known finding K03, and a run takes 20 s)
        pp = gen_problem(srng, shapes=shapes, pattern=dict(mode=mode, response=resp, signal=(t // 2) % len(shapes)), m=(2, 1, 3)[t % 3], all_active=True)
        pp['kw'] = {k: v for k, v in pp['kw'].items() if k in ('mmaversion', 'epsimin')}        # default asymptote parameters
        pp['verbosity'] = (0, 4, 0, 3)[t % 4]
        todo.append((f'pattern:{mode}:{t}', pp, 40, pp['pattern']['response'] != 0, None))
    n_act, n_inact = (14, 3) if quick else (100, 12)
    it_act, it_inact = (40, 10) if quick else (60, 20)
    a = b = 0
    while a < n_act or b < n_inact:
        prob = gen_problem(rng, tier_big=not quick, profile=rng.choice(PROFILES))
        if all_inactive(prob):
            if b < n_inact:
                todo.append((f'gen:inactive{b}', prob, it_inact, False, None))
                b += 1
        elif a < n_act:
            todo.append((f'gen:active{a}', prob, it_act, True, None))
            a += 1
    sub_samples = []
    ledger = Ledger()
    first_of = {}
    for label, prob, maxit, conv, only_its in todo:
        rec = run_problem(pym, prob, maxit=maxit)
        ledger.add(label, prob, rec)
        ledger.inspect(ctx, last=4, when=f'the run {label}')      # the four runs before this one still hold what they held
        n = rec.n
        if label.startswith('sequence:'):
            ctx.count('sequence_runs')
            key = json.dumps(prob, sort_keys=True)
            if key in first_of:          # the same problem later in the process: same iterates as the first time (pristine reference)
                ctx.search_evaluations += 1
                ref = first_of[key]
                same = len(ref.calls) == len(rec.calls) and all(np.array_equal(a.xnew, b.xnew) for a, b in zip(ref.calls, rec.calls)) \
                    and np.array_equal(ref.final, rec.final)
                if not same:
                    ctx.violation('impl-violates', 'minimize_mma', 'the same problem gives the same iterates whenever it is run in the process',
                                  'several optimisations in one process', dict(label=label, problem=prob), expected=ref.final.tolist(), got=rec.final.tolist())
            else:
                first_of[key] = rec
        if prob.get('pattern'):
            ctx.count('pattern:' + prob['pattern']['mode'])
            ctx.count('pattern_response=' + ('objective' if prob['pattern']['response'] == 0 else 'constraint'))
        ctx.count(f'n={n if n < 8 else "8+"}')
        ctx.count(f'm={len(prob["f"]) - 1}')
        ctx.count(f'signals={len(prob["shapes"])}')
        ctx.count('version=' + vclass(prob))
        pk = prob_kinds(prob)
        for k2 in ('xmin', 'xmax', 'move'):
            ctx.count(f'{k2}:{prob["spell"][k2]}')
            ctx.count(f'{k2}_kind={pk[k2]["container"]}/{pk[k2]["num"]}')
        for k2 in pk['states']:
            ctx.count('state_kind=' + k2)
        ctx.count('state_kinds:' + kinds_class(pk).split(' ')[0][7:])
        ctx.count('custom_asymptote_parameters' if 'asyinit' in prob['kw'] else 'default_asymptote_parameters')
        ctx.count('iterations', len(rec.calls))
        ctx.count('verbosity=%d' % prob.get('verbosity', 0))
        ctx.extra['max_run_seconds'] = round(max(ctx.extra.get('max_run_seconds', 0.0), rec.seconds), 2)
        oracle_run(ctx, rec, prob, label, check_convergence=conv)
        if rec.error is not None or rec.first is None:
            continue
        try:
            add((label, 'vars'), vars_checks(rec, prob), n >= 2)
        except (OverflowError, ValueError) as e:
            ctx.violation('correspondence', 'pymoto.common.mma', 'recorded designs and bounds are finite', vclass(prob),
                          dict(label=label, problem=prob, error=repr(e)))
            continue
        ks = sorted(set(([0, 1, 2] if quick else [0, 1, 2, 3]) + [rng.randrange(3, max(4, len(rec.calls))) for _ in range(1 if quick else 3)] + [len(rec.calls) - 1]))
        if only_its is not None and quick:      # corpus entries about the variable handling: few iterations are compared in the quick tier
            ks = sorted(set(only_its))
        if prob.get('pattern'):                 # the iterations at which the None pattern of the sensitivities changes (first of each direction)
            pats = [none_pattern(c) for c in rec.calls]
            flat = lambda p_: [x for r_ in p_ for x in r_]
            tr = {}
            for k2 in range(1, len(pats)):
                for x, y in zip(flat(pats[k2 - 1]), flat(pats[k2])):
                    if x != y:
                        tr.setdefault(y, k2)
            ks = sorted(set([0] + list(tr.values()) + ([len(rec.calls) - 1] if not quick else [])))
        for k in ks:
            if 0 <= k < len(rec.calls):
                try:
                    triple = iteration_checks(rec, prob, k, full=(not quick) or k in (0, 2))
                except (OverflowError, ValueError) as e:      # inf / nan among the recorded values: nothing to evaluate over Q
                    ctx.violation('correspondence', 'pymoto.common.mma', 'recorded values of an iteration are finite', vclass(prob),
                                  dict(label=label, iteration=k, problem=prob, error=repr(e)))
                    continue
                add((label, 'iter', k), triple, n >= 2 or k >= 2)
                if not normal_exit(rec.calls[k].sub):
                    ctx.count('iterations_checked_with_abnormal_subsolv_exit')
        if rec.calls and len(sub_samples) < (6 if quick else 40):
            sub_samples.append((label, rec.calls[rng.randrange(len(rec.calls))].sub))
    ledger.inspect(ctx, when='all runs of the process')
    ctx.extra['runs_reinspected_at_the_end'] = len(ledger.items)
    sizes = {}
    for _, _, r_ in ledger.items:
        if r_.first is not None:
            sizes[(r_.n, r_.first.par['m'])] = sizes.get((r_.n, r_.first.par['m']), 0) + 1
    ctx.extra['runs_sharing_their_size_(n,m)_with_another_run'] = sum(v for v in sizes.values() if v > 1)
    # ---------------- direct calls
    direct_cases(ctx, pym, mma, putils, add, sub_samples)
    malformed(ctx, pym, add)

    import time as _t
    t_impl = _t.time() - ctx.t0
    failing, err = vlib.run_cases(ctx, 'mma', HEADER, checks, chunk=6 if quick else 10, timeout=500 if quick else 1500)
    ctx.extra['seconds'] = dict(static_translator_props_and_implementation_runs=round(t_impl, 1), coq_case_files=round(_t.time() - ctx.t0 - t_impl, 1))
    ctx.obligation('correspondence:case files evaluated', 'correspondence', not err, err)
    if err:
        ctx.violation('correspondence', 'minimize_mma', 'case files compile', 'harness', dict(error=err[-3000:]), theorem='cases_mma')
    for pos, idx in enumerate(failing[:12]):
        aspects, pre, items = parts[idx]
        vals = None
        if pos < 2:          # which aspect of the case fails (a second, small evaluation; only for the first few)
            vals, e2 = vlib.eval_coq(ctx, f'fail{idx}', HEADER, [pre + '[' + '; '.join(x for _, x in items) + ']'], timeout=150)
        which = aspects
        if vals:
            bl = vals[0].strip('[] ').split(';')
            which = [a for a, v in zip(aspects, bl) if 'false' in v]
        ctx.violation('correspondence', 'pymoto.common.mma', 'model == implementation: ' + ','.join(which), str(labels[idx][1]),
                      dict(label=str(labels[idx]), failing_aspects=which, coq_check=checks[idx][:3000]),
                      note='Coq model (MMAform/MMAvars over Q) and recorded implementation values differ')
    ctx.extra['convergence_rule'] = f'distance <= max({CONV_ABS}, {CONV_REL}*d0), scaled constraint violation <= {CONV_G}; partial (validated only)'
    ctx.extra['partial'] = ['convergence of the MMA iteration on convex problems (validated by the oracle only)',
                            'convergence of the Newton iteration inside subsolv (known finding: gives up after 400 steps)']


def call_subsolv(mma, sj, x0):
    """pymoto.common.mma.subsolv called directly (residual wrapped) on a recorded subproblem"""
    s = Rec()
    s.epsimin = float(sj['epsimin'])
    for k in ('low', 'upp', 'alfa', 'beta', 'P', 'Q', 'a', 'b', 'c', 'd'):
        setattr(s, k, np.array(sj[k], dtype=float))
    s.a0 = float(sj['a0'])
    s.x0 = None if x0 is None else np.array(x0, dtype=float)
    s.nres, s.bad_point, s.first_res, s.last_res, s.epsis = 0, None, None, None, []
    orig = mma.residual

    def w_residual(*args):
        r = orig(*args)
        x, y, z, lam, xsi, eta, mu, zet, sl = args[:9]
        ok = bool(np.all(x > s.alfa) and np.all(x < s.beta) and np.all(y > 0) and z > 0 and np.all(lam > 0) and
                  np.all(xsi > 0) and np.all(eta > 0) and np.all(mu > 0) and zet > 0 and np.all(sl > 0))
        if not ok and s.bad_point is None:
            s.bad_point = dict(x=np.array(x).tolist())
        snap = ([np.array(a, dtype=float).copy() for a in args[:9]], float(args[15]), np.array(r, dtype=float).copy())
        if s.first_res is None:
            s.first_res = snap
        s.last_res = snap
        if not s.epsis or s.epsis[-1] != float(args[15]):
            s.epsis.append(float(args[15]))
        return r
    mma.residual = w_residual
    buf = io.StringIO()
    try:
        with contextlib.redirect_stdout(buf), np.errstate(all='ignore'):
            ret = mma.subsolv(s.epsimin, s.low.copy(), s.upp.copy(), s.alfa.copy(), s.beta.copy(), s.P.copy(), s.Q.copy(), s.a0,
                              s.a.copy(), s.b.copy(), s.c.copy(), s.d.copy(), x0=None if x0 is None else s.x0.copy())
    finally:
        mma.residual = orig
    s.msgs = buf.getvalue().count('MMA Subsolver')
    s.ret = [np.array(v, dtype=float).copy() for v in ret]
    return s


def subsolv_checks(s):
    X = lambda a: float(np.abs(a).max()) if np.size(a) else 0.0
    sX = max(1.0, X(s.alfa), X(s.beta))
    pre = f'let D := {sdata_coq(s)} in let ret := {state_coq(s.ret)} in '
    out = [('init', f'init_ok D {qopt(s.x0)} {qf(sX)} {state_coq(s.first_res[0])}'),
           ('residual_first', f'residual_ok D {qf(s.first_res[1])} {state_coq(s.first_res[0])} {qf(max(1.0, X(s.first_res[2])))} {qv(s.first_res[2])}'),
           ('levels', f'levels_ok {qf(s.epsimin)} {qv(s.epsis)}'), ('interior', 'interior_ok D ret')]
    if normal_exit(s):
        out.append(('exit', f'exit_ok {qf(s.last_res[1])} {qf(0.9 * s.last_res[1])} {qv(s.last_res[2])}'))
    return pre + 'all [' + '; '.join(e for _, e in out) + ']', [a for a, _ in out], pre, out


def oracle_subsolv(ctx, s, label, sj):
    ctx.search_evaluations += 1
    x = s.ret[0]
    case = dict(label=label, sub=sj, x0=None if s.x0 is None else s.x0.tolist())
    if not (np.all(x > s.alfa) and np.all(x < s.beta)) or s.bad_point is not None:
        ctx.violation('impl-violates', 'subsolv', 'every evaluated point is strictly interior', 'direct call', case, got=s.bad_point)
    el = s.last_res[1]
    rmax = float(np.abs(kkt_residual(s, s.ret, el)).max())
    noise = 1e-13 * max(1.0, np.abs(s.P / (s.upp - x) ** 2).max(), np.abs(s.Q / (x - s.low) ** 2).max(), np.abs(s.c).max())
    if rmax > 0.9 * el + noise:
        if s.msgs > 0:
            ctx.count('subsolv_gave_up')
            ctx.violation('impl-violates', *K_STALL, case, expected=f'<= {0.9 * el}', got=rmax)
        else:
            ctx.violation('impl-violates', 'subsolv', 'KKT residual of the returned point <= 0.9*epsi_last', 'direct call', case,
                          expected=0.9 * el, got=rmax)


def direct_cases(ctx, pym, mma, putils, add, sub_samples):
    rng = ctx.rng
    # ---- subsolv called directly: default start (midpoint of alfa, beta) and a given start
    for d in load_corpus():
        if d.get('kind') == 'subsolv':
            s = call_subsolv(mma, d['sub'], d.get('x0'))
            ctx.count('direct_subsolv_corpus')
            oracle_subsolv(ctx, s, f"corpus:{d['_file']}", d['sub'])
            add((f"corpus:{d['_file']}", 'subsolv'), subsolv_checks(s), True)
    for label, rs in sub_samples:
        sj = sub_json(rs)
        s = call_subsolv(mma, sj, None)
        ctx.count('direct_subsolv_midpoint_start')
        oracle_subsolv(ctx, s, label, sj)
        add((label, 'subsolv-midpoint'), subsolv_checks(s), True)
    # ---- pymoto.utils._concatenate_to_array / _split_from_array: entries of every kind (Python int / float, numpy scalars and
    #      1-D arrays of int32 / int64 / float32 / float64, empty and one-element arrays), alone and mixed
    nutil = 40 if ctx.quick() else 300
    fams = (SCALAR_KINDS + ARRAY_KINDS, INT_KINDS + ('i64', 'i32'), ('f32',), ('i32',), ('pyint',), ('pyfloat', 'f64'))
    stress = [[('pyint', None, [3])], [('i64', 3, [2, 2, 2]), ('pyint', None, [3])], [('i32', 2, [1, -4]), ('i32', None, [7])],
              [('f32', 2, [0.5, 1.25]), ('f32', None, [2.0])], [('i64', 0, []), ('i64', 1, [5])], [('i32', 2, [1, 2]), ('f32', 1, [0.5])],
              [('i64', 0, [])], []]
    for t in range(nutil + len(stress)):
        states, coq_states, tstates, names = [], [], [], []
        if t < len(stress):
            spec = stress[t]
        else:
            fam = fams[rng.randrange(len(fams))] if rng.random() < 0.7 else fams[0]
            spec = []
            for _ in range(rng.randint(0, 4)):
                kind = rng.choice(fam)
                shape = rng.choice(('scalar', 'array', 'array', 'empty', 'one'))
                if shape == 'scalar' or kind in ('pyfloat', 'pyint'):
                    ln = None
                else:
                    ln = 0 if shape == 'empty' else 1 if shape == 'one' else rng.randint(2, 5)
                vals = [float(rng.randint(-40, 40)) if kind in INT_KINDS else rng.randint(-40, 40) / 8 for _ in range(1 if ln is None else ln)]
                spec.append((kind, ln, vals))
        for kind, ln, vals in spec:
            v = state_value(vals, ln is None, kind)
            states.append(v)
            names.append(kind + ('' if ln is None else f'[{ln}]'))
            coq_states.append(sval_coq(ln is None, vals))
            tstates.append(tstate_coq(KIND_TAG[kind], ln is None, vals))
        nsig = len(states)
        vals, cum = putils._concatenate_to_array(states)
        ctx.count('utils_concat_split')
        for nm in names:
            ctx.count('utils_entry_kind=' + nm.split('[')[0])
        ctx.search_evaluations += 1
        flat = [float(x) for st in states for x in np.atleast_1d(st)]
        if [float(x) for x in vals] != flat or [int(c) for c in cum] != [0] + list(np.cumsum([np.size(st) for st in states]).astype(int)):
            ctx.violation('impl-violates', '_concatenate_to_array', 'values are the flattened states in order, indices their running lengths',
                          'utils', dict(states=[np.atleast_1d(st).tolist() for st in states], kinds=names), got=dict(vals=[float(x) for x in vals], cum=list(map(int, cum))))
        if np.asarray(vals).dtype != np.float64:
            ctx.violation('impl-violates', '_concatenate_to_array', 'the concatenated array is float64 whatever the kinds of the entries',
                          'utils', dict(states=[np.atleast_1d(st).tolist() for st in states], kinds=names), expected='float64', got=str(np.asarray(vals).dtype))
        bad_cum = rng.random() < 0.25 and len(cum) > 0
        cum2 = np.array(cum).copy()
        if bad_cum:
            cum2[-1] += rng.choice((1, 2))
        try:
            parts = putils._split_from_array(vals, cum2)
            obs = '(Some ' + ql([fr(pp) for pp in parts]) + ')'
            if bad_cum:
                ctx.violation('impl-violates', '_split_from_array', 'size mismatch is rejected', 'utils', dict(vals=list(vals), cum=cum2.tolist()))
            elif any(not np.array_equal(pp, np.atleast_1d(st)) for pp, st in zip(parts, states)) or len(parts) != len(states):
                ctx.violation('impl-violates', '_split_from_array', 'split(concat(states)) == states', 'utils',
                              dict(states=[np.atleast_1d(st).tolist() for st in states]), got=[pp.tolist() for pp in parts])
        except AssertionError:
            obs = 'None'
        e = (f'all [concat_ok [{"; ".join(coq_states)}] {qv(vals)} {zl([int(c) for c in cum])}%nat; '
             f'split_ok {qv(vals)} {zl([int(c) for c in cum2])}%nat {obs}; '
             f'tconcat_ok [{"; ".join(tstates)}] (Some ({tarr_coq(np.asarray(vals).dtype, vals)}, {zl([int(c) for c in cum])}%nat))]')
        add(('utils', t), (e, ['concat', 'split', 'typed_concat'], '', [('concat', e), ('split', e), ('typed_concat', e)]), nsig >= 2)
    # the promotion table of the model against numpy
    import itertools
    npt = dict(I32=np.int32, I64=np.int64, F32=np.float32, F64=np.float64)
    e = 'all [' + '; '.join(f'dtype_eqb (promote {a} {b}) {dt_tag(np.promote_types(npt[a], npt[b])) or "I32"} && '
                            f'dtype_eqb (promote {a} {b}) {dt_tag(np.concatenate((np.zeros(1, npt[a]), np.zeros(1, npt[b]))).dtype) or "I32"}'
                            for a, b in itertools.product(npt, repeat=2)) + ']'
    add(('utils', 'promote'), (e, ['promote'], '', [('promote', e)]), True)
    ctx.oracle_validation['Model/MMAvars.promote == numpy.promote_types == dtype of np.concatenate (16 pairs)'] = 16
    ctx.oracle_validation['np.asarray of a Python int / float is int64 / float64'] = int(np.asarray(3).dtype == np.int64 and np.asarray(3.0).dtype == np.float64)
    if not (np.asarray(3).dtype == np.int64 and np.asarray(3.0).dtype == np.float64):
        ctx.violation('correspondence', 'numpy', 'np.asarray of a Python int / float is int64 / float64', 'platform', dict())


ERR = {TypeError: 'TypeError', ValueError: 'ValueError', IndexError: 'IndexError', AssertionError: 'AssertionError',
       RuntimeError: 'RuntimeError'}


def err_class(e):
    for k, v in ERR.items():
        if type(e) is k:
            return v
    return 'Other' if e is not None else 'ok'


def malformed(ctx, pym, add):
    """malformed stream: only the exception class is compared (with the model where the model covers the decision)"""
    rng = ctx.rng
    nmal = 10 if ctx.quick() else 60
    for t in range(nmal):
        prob = gen_problem(rng)
        while all_inactive(prob):
            prob = gen_problem(rng)
        shapes = prob['shapes']
        lens = [1 if sh == 0 else max(sh, 0) for sh in shapes]
        n, nsig = sum(lens), len(shapes)
        cum = [0] + list(np.cumsum(lens).astype(int))
        kind = rng.choice(('xmin_len', 'xmax_len', 'move_len', 'version', 'a_len', 'c_len', 'nonscalar_response', 'none_state'))
        ctx.count('malformed:' + kind)
        expected = None
        coq = None
        if kind in ('xmin_len', 'xmax_len', 'move_len'):
            nm = kind[:-4]
            ln = rng.choice([v for v in range(0, n + 3) if v not in (n, nsig)])
            base = prob[nm] if prob['spell'][nm] == 'scalar' else prob[nm][0]
            prob[nm] = [float(base)] * ln
            prob['spell'][nm] = 'signal' if rng.random() < 0.5 else 'variable'
            prob['kinds'][nm] = legacy_kinds(shapes, prob['spell'])[nm]
            expected = 'RuntimeError'
            coq = lambda got: f'expand_ok {n}%nat {nsig}%nat {zl(cum)}%nat (BList {qv(prob[nm])}) ' + ('None' if got == 'RuntimeError' else '(Some [])')
        elif kind == 'version':
            prob['kw']['mmaversion'] = rng.choice(('Svanberg2010', 'gcmma', '', '198', '20 07'))
            expected = 'ValueError'
            h = version_flags(prob['kw']['mmaversion'])
            coq = lambda got: f'match version_of {h[0]} {h[1]} with None => {"true" if got == "ValueError" else "false"} | Some _ => {"true" if got == "ok" else "false"} end'
        elif kind == 'a_len':
            prob['kw']['a'] = np.zeros(len(prob['f']) + rng.choice((0, 1)))
            expected = 'RuntimeError'
        elif kind == 'c_len':
            prob['kw']['c'] = np.full(len(prob['f']) - 1 + rng.choice((1, 2)), 1000.0)
            expected = 'RuntimeError'
        elif kind == 'nonscalar_response':
            prob['_vector_response'] = True
            expected = 'TypeError'
        else:
            prob['_none_state'] = True
            expected = 'ValueError'
        rec = run_problem(pym, prob, maxit=2)
        got = err_class(rec.error)
        ctx.search_evaluations += 1
        if got != expected:
            ctx.violation('impl-violates', 'minimize_mma', f'malformed input ({kind}) raises {expected}', 'malformed',
                          dict(kind=kind, problem=jsonable(prob)), expected=expected, got=got + ': ' + repr(rec.error)[:300])
        if coq is not None:
            e = coq(got)
            add(('malformed', kind, t), ('all [' + e + ']', [kind], '', [(kind, e)]), True)


def jsonable(o):
    if isinstance(o, dict):
        return {k: jsonable(v) for k, v in o.items()}
    if isinstance(o, (list, tuple)):
        return [jsonable(v) for v in o]
    if isinstance(o, np.ndarray):
        return o.tolist()
    if isinstance(o, (np.floating, np.integer)):
        return o.item()
    return o


if __name__ == '__main__':
    vlib.main(lambda ctx: run(ctx), 'C10')
