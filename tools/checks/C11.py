"""C11 — EigenSolve returns genuine, normalised, ordered eigenpairs.

Tie (H): the real pymoto.EigenSolve is run through its public API (Signals in, response(), Signals out) while the
four scipy eigen-routines are wrapped *from outside* by a recorder.  For every call the harness writes
  - the pencil (A, B, storage class), the module configuration and the sorting function,
  - what the module asked the library for (routine, k, sigma, mode, M, a probe x = OPinv(b) of the shift-invert
    operator) and what the library returned (raw W, Q),
  - what the module returned (or the exception class)
as exact dyadic numbers (the values of the floats) into coq/gen/C11/cases_*.v.  Coq (vm_compute) runs Model/Eig.v: it predicts the dispatch and the
state machine of _sparse_eigs (compared with the recorded call, the probe must satisfy (A - sigma B) x = b for the
model's A - sigma B), re-checks the oracle contract A q = lambda M q on the raw library output, runs the
post-processing model (sorting function, normalisation loop) on it and compares with the module output at 1e-9.
The implementation-side oracle states the property itself on the module output (residual, q^T B q = 1, order, sign,
completeness of the dense spectrum, "nmodes closest to sigma" against an independent dense spectrum).
Tie (T): tools/gen_C11.py regenerates the state machine of EigenSolve._sparse_eigs (defaults, the "no shift" test, B = I,
solver creation, forced refactorisation, update, what is passed to ARPACK) from the source; coq/bridge/C11/
SparseEigsBridge.v proves Model/Eig.v (sparse_eigs) equal to it: the test is the EXACT `sigma == 0`.
Scale: a deterministic plan (gen_scaled_specs, every run) puts sparse, FE and dense pencils on other scales (eigenvalues of
order 1e-9 .. 1e9, shifts scaled alike, tiny non-zero shifts of both signs, also on pencils of order 1); for these every
tolerance -- Coq side and oracle (residual, "closest to the shift") -- is RELATIVE to the scale of the compared quantity.
"""
import os, json, glob, contextlib, math
from fractions import Fraction
import numpy as np
import vlib
from vlib import qlit

HEADER = '''From Coq Require Import ZArith QArith List Bool Uint63.
From Pymoto Require Import Base.Num Base.Cmp Base.QMat Model.Eig.
Import ListNotations.
Open Scope Q_scope.
(* a float64 is written as sign, 53-bit mantissa (primitive 63-bit integer: parsed ten times faster than a binary
   positive numeral) and exponent: the dyadic number m * 2^e of Base/QMat.v *)
Definition fp (m : int) (e : Z) : Dy := (Uint63.to_Z m, e).
Definition fn (m : int) (e : Z) : Dy := ((- Uint63.to_Z m)%Z, e).
Arguments fp _%uint63 _%Z.
Arguments fn _%uint63 _%Z.
'''


def flit(x):
    """exact Coq literal of a float"""
    x = float(x)
    if x == 0.0:
        return 'dy0'
    if not math.isfinite(x):
        raise ValueError('non-finite value in a case')
    m, e = math.frexp(abs(x))
    mi, ee = int(m * 2 ** 53), e - 53
    while mi % 2 == 0:
        mi //= 2
        ee += 1
    return f"({'fn' if x < 0 else 'fp'} {mi} {vlib.zlit(ee)})"

ERRS = {'AssertionError': 'EAssert', 'IndexError': 'EIndex', 'NotImplementedError': 'ENotImpl'}
MODES = {'normal': 0, 'buckling': 1, 'cayley': 2}
KAPPA_MAX = 1e3          # bound on the amplification ||q||^2 ||B|| / |q^T B q| of the normalisation (conditioning)
COND_MAX = 1e5           # bound on cond(A - sigma B) for shift-invert cases


# ----------------------------------------------------------------------------------------------- recorder
class Recorder:
    """wraps scipy.linalg.eigh/eig and scipy.sparse.linalg.eigsh/eigs (module attributes, restored afterwards)"""

    def __init__(self):
        import scipy.linalg as spla
        import scipy.sparse.linalg as spsla
        self.targets = [(spla, 'eigh'), (spla, 'eig'), (spsla, 'eigsh'), (spsla, 'eigs')]
        self.orig = {n: getattr(m, n) for m, n in self.targets}
        self.calls = []
        self.depth = 0
        self.probe_rng = None

    def _wrap(self, name):
        orig = self.orig[name]

        def w(*a, **k):
            if self.depth > 0:
                return orig(*a, **k)
            info = dict(name=name, args=a, kwargs=dict(k))
            self.calls.append(info)
            self.depth += 1
            try:
                op = k.get('OPinv')
                if op is not None and self.probe_rng is not None:
                    n = a[0].shape[0]
                    b = self.probe_rng.integers(-8, 9, size=n).astype(float) / 4
                    if np.iscomplexobj(a[0]) or (k.get('M') is not None and np.iscomplexobj(k['M'])) or np.iscomplexobj(k.get('sigma', 0.0)):
                        b = b + 1j * self.probe_rng.integers(-8, 9, size=n).astype(float) / 4
                    try:
                        info['probe'] = (b, np.array(op.matvec(b)))
                    except Exception as e:  # the probe itself must not disturb the run
                        info['probe_error'] = repr(e)
                k2 = k
                if name in ('eigsh', 'eigs') and 'v0' not in k and self.probe_rng is not None:
                    # ARPACK draws its start vector from OS entropy: supply a seeded one so that runs replay exactly
                    n = a[0].shape[0]
                    v0 = self.probe_rng.uniform(-1, 1, size=n)
                    if np.iscomplexobj(a[0]) or (k.get('M') is not None and np.iscomplexobj(k['M'])) or np.iscomplexobj(k.get('sigma', 0.0)):
                        v0 = v0 + 1j * self.probe_rng.uniform(-1, 1, size=n)
                    k2 = dict(k, v0=v0)
                r = orig(*a, **k2)
                info['ret'] = r
                return r
            finally:
                self.depth -= 1
        return w

    @contextlib.contextmanager
    def active(self):
        for m, n in self.targets:
            setattr(m, n, self._wrap(n))
        try:
            yield self
        finally:
            for m, n in self.targets:
                setattr(m, n, self.orig[n])


# ----------------------------------------------------------------------------------------------- specs
def enc_mat(M, sparse=False):
    M = np.asarray(M)
    cplx = np.iscomplexobj(M)
    data = [[[float(v.real), float(v.imag)] for v in r] for r in M] if cplx else [[float(v) for v in r] for r in M]
    return dict(sparse=bool(sparse), complex=bool(cplx), data=data)


def dec_mat(pym, d):
    import scipy.sparse as sps
    if d is None:
        return None
    if 'fe' in d:
        f = d['fe']
        dom = pym.DomainDefinition(f['nx'], f['ny'])
        x = np.array(f['x'], dtype=float)
        sx = pym.Signal('x', x)
        t = f['type']
        if t == 'Kfree':        # unconstrained (free-floating) structure: singular stiffness matrix, three rigid-body modes
            m = pym.AssembleStiffness(sx, domain=dom)
            m.response()
            return m.sig_out[0].state * f.get('scale', 1.0)
        if t in ('K', 'M'):
            bc = (dom.nodes[0, :] * 2 + np.arange(2)[None]).flatten()
        else:
            bc = dom.nodes[0, :].flatten()
        if t == 'K':
            kw = dict(e_modulus=1.0 + 0.3j) if f.get('cplx') else {}
            m = pym.AssembleStiffness(sx, domain=dom, bc=bc, **kw)
        elif t == 'M':
            m = pym.AssembleMass(sx, domain=dom, bc=bc, ndof=2, **({'bcdiagval': f['bcdiag']} if 'bcdiag' in f else {}))
        elif t == 'P':
            m = pym.AssemblePoisson(sx, domain=dom, bc=bc)
        elif t == 'M1':
            m = pym.AssembleMass(sx, domain=dom, bc=bc, ndof=1, **({'bcdiagval': f['bcdiag']} if 'bcdiag' in f else {}))
        else:
            raise ValueError(t)
        m.response()
        return m.sig_out[0].state * f['scale'] if 'scale' in f else m.sig_out[0].state   # physical units of the FE model
    a = np.array(d['data'], dtype=float)
    if d['complex']:
        a = a[..., 0] + 1j * a[..., 1]
    if d['sparse']:
        return sps.csc_matrix(a)
    return a


def todense(M):
    return M.toarray() if hasattr(M, 'toarray') else np.asarray(M)


def mk_sort(s):
    k = s[0]
    if k == 'default':
        return None
    if k == 'desc':
        return lambda W, Q: np.argsort(-W)
    if k == 'rev':
        return lambda W, Q: np.argsort(W)[::-1]
    if k == 'abs':
        return lambda W, Q: np.argsort(np.abs(W))
    if k == 'dist':
        t = s[1] if not isinstance(s[1], list) else complex(s[1][0], s[1][1])
        return lambda W, Q: np.argsort(np.abs(W - t))
    if k == 'firstk':
        return lambda W, Q: np.argsort(W)[:s[1]]
    if k == 'row0':
        return lambda W, Q: np.argsort(-np.abs(Q[0, :]))
    if k == 'const':
        return lambda W, Q: np.array(s[1], dtype=int)
    raise ValueError(k)


def sort_keys(s, W, Q=None):
    """the keys the sorting function orders by (for tie avoidance and the order oracle); None: no key order"""
    k = s[0]
    W = np.asarray(W)
    if k in ('default', 'rev', 'firstk'):
        return W
    if k == 'desc':
        return -W
    if k == 'abs':
        return np.abs(W)
    if k == 'dist':
        t = s[1] if not isinstance(s[1], list) else complex(s[1][0], s[1][1])
        return np.abs(W - t)
    return None


# ----------------------------------------------------------------------------------------------- running the module
def run_spec(pym, spec, seed):
    """returns the list of observations, one per op"""
    rec = Recorder()
    rec.probe_rng = np.random.default_rng(seed)
    kw = dict(spec['kwargs'])
    sf = mk_sort(spec['sort'])
    if sf is not None:
        kw['sorting_func'] = sf
    kw = {k: v for k, v in kw.items() if not (k == 'mode' and v == 'normal')}
    if isinstance(kw.get('sigma'), list):
        kw['sigma'] = complex(*kw['sigma'])
    sA, sB = pym.Signal('A'), pym.Signal('B')
    hasB = any(o['op'] == 'call' and o.get('B') is not None for o in spec['ops'])
    module = None
    out = []
    for o in spec['ops']:
        if o['op'] == 'sigma':
            v = o['value']
            module.sigma = complex(*v) if isinstance(v, list) else v
            out.append(None)
            continue
        A, B = dec_mat(pym, o['A']), dec_mat(pym, o.get('B'))
        sA.state = A
        if hasB:
            sB.state = B
        if module is None:
            module = pym.EigenSolve([sA, sB] if hasB else [sA], **kw)
        rec.calls.clear()
        ob = dict(A=A, B=B if hasB else None)
        with rec.active():
            try:
                module.response()
                W, Q = module.sig_out[0].state, module.sig_out[1].state
                ob['out'] = (np.array(W), np.array(Q))
            except Exception as e:
                ob['out'] = type(e).__name__
        ob['calls'] = list(rec.calls)
        out.append(ob)
    return out


# ----------------------------------------------------------------------------------------------- Coq emission
class Emit:
    def __init__(self, cplx):
        self.c = cplx

    def k(self, x):
        if not self.c:
            return flit(np.real(x))
        x = complex(x)
        return f'({flit(x.real)}, {flit(x.imag)})'

    def vec(self, v):
        return '[' + '; '.join(self.k(x) for x in np.asarray(v).ravel()) + ']'

    def mat(self, M):
        M = todense(M)
        n, m = M.shape
        if n * m <= 100:
            return '[' + '; '.join(self.vec(r) for r in M) + ']'
        rows = []
        for r in M:
            nz = np.nonzero(r)[0]
            rows.append('[' + '; '.join(f'({j}%nat, {self.k(r[j])})' for j in nz) + ']')
        return f"(of_rows{'C' if self.c else 'Q'} {m}%nat [" + '; '.join(rows) + '])'

    def optmat(self, M):
        return 'None' if M is None else f'(Some {self.mat(M)})'


def tol_lit(scale, rel, floor=1.0):
    """rel * max(floor, scale) as an exact literal; floor = 1 unless the pencil lives on another scale (spec['rel']):
    then the tolerance is RELATIVE to the scale of the compared quantity (mantissa rounded up to 10 bits)"""
    s = max(floor, float(scale))
    if floor >= 1.0:
        return qlit(Fraction(int(math.ceil(s * 1000)), 1000) * Fraction(rel).limit_denominator(10 ** 12))
    if not s > 0:
        s = 1e-300
    m, e = math.frexp(s)
    return qlit(Fraction(int(math.ceil(m * 1024)), 1024) * Fraction(2) ** e * Fraction(rel).limit_denominator(10 ** 12))


def coq_sort(s, ops, em):
    k = s[0]
    pre = 'sortC_' if em.c else 'sortQ_'
    if k == 'dist':
        t = s[1] if not isinstance(s[1], list) else complex(s[1][0], s[1][1])
        return f'({pre}dist {em.k(t)})'
    if k == 'firstk':
        return f'({pre}firstk {int(s[1])}%nat)'
    if k == 'const':
        return '(sort_const [' + '; '.join(f'{int(i)}%nat' for i in s[1]) + '])'
    return pre + k


def is_sparse(M):
    return hasattr(M, 'toarray')


def analyse_call(ob, rec=None):
    """canonical observation of one response() call + conditioning indicators"""
    calls = ob['calls']
    A, B = ob['A'], ob['B']
    r = dict(fun=None, k=None, sigma=None, mode=None, M='MNone', probe=None, rawW=None, rawQ=None, lib_raised=False,
             recorded=bool(calls), extra_calls=max(0, len(calls) - 1), kappa=1.0, strict=[], a_same=True, alt=[],
             unobservable=False)
    if not calls:
        # fallback when the call cannot be recorded (e.g. the module binds the routines by from-import): the dense
        # routines are deterministic, so the harness runs both itself; the Coq model's dispatch picks the result
        if rec is not None and not (is_sparse(A) and (B is None or is_sparse(B))):
            for nm in ('eigh', 'eig'):
                try:
                    W, Q = rec.orig[nm](A, b=B)
                    r['alt'].append((nm.upper(), np.array(W), np.array(Q)))
                except Exception:
                    r['unobservable'] = True
        if not isinstance(ob['out'], str):
            # conditioning from the module output (the indicator is invariant under scaling of the vectors)
            Bd = None if B is None else todense(B)
            nB = 1.0 if Bd is None else max(np.linalg.norm(Bd, 2), 1e-300)
            for i in range(ob['out'][1].shape[1]):
                q = ob['out'][1][:, i]
                v = q @ (q if Bd is None else Bd @ q)
                r['kappa'] = max(r['kappa'], (np.linalg.norm(q) ** 2 * nB / abs(v)) if abs(v) > 0 else np.inf)
        return r
    c = calls[0]
    r['fun'] = c['name'].upper()
    kw = c['kwargs']
    a0 = c['args'][0] if c['args'] else kw.get('a', kw.get('A'))
    r['a_same'] = a0 is A
    if c['name'] in ('eigh', 'eig'):
        Mb = kw.get('b', c['args'][1] if len(c['args']) > 1 else None)
    else:
        Mb = kw.get('M')
        r['k'] = int(kw.get('k', 6))
        r['sigma'] = kw.get('sigma')
        r['mode'] = MODES.get(str(kw['mode']), 9) if 'mode' in kw else None
        r['probe'] = c.get('probe')
    if Mb is None:
        r['M'] = 'MNone'
    elif Mb is B:
        r['M'] = 'MSameB'
    else:
        Md = todense(Mb)
        r['M'] = 'MEye' if Md.shape[0] == Md.shape[1] and np.array_equal(Md, np.eye(Md.shape[0])) else 'MOther'
    if 'ret' not in c:
        r['lib_raised'] = True
        return r
    W, Q = c['ret']
    r['rawW'], r['rawQ'] = np.array(W), np.array(Q)
    # conditioning of the normalisation and strictness of the sign comparison per raw column
    Bd = None if B is None else todense(B)
    nB = 1.0 if Bd is None else max(np.linalg.norm(Bd, 2), 1e-300)
    kap, strict = 1.0, []
    for i in range(r['rawQ'].shape[1]):
        q = r['rawQ'][:, i]
        v = q @ (q if Bd is None else Bd @ q)
        nq = np.linalg.norm(q)
        kap = max(kap, (nq * nq * nB / abs(v)) if abs(v) > 0 else np.inf)
        qm = max(np.abs(q).max(), 1e-300)
        ok = abs(np.real(np.average(q))) >= 1e-7 * qm
        if np.iscomplexobj(v) and np.real(v) < 0 and abs(np.imag(v)) < 1e-7 * abs(v):
            ok = False      # sqrt branch cut
        strict.append(bool(ok))
    r['kappa'], r['strict'] = kap, strict
    return r


def emit_case(spec, obs):
    """-> (Coq boolean expression, info) for one history"""
    cplx = False
    for ob in obs:
        if ob is None:
            continue
        arrs = [ob['A'], ob['B']]
        if not isinstance(ob['out'], str):
            arrs += list(ob['out'])
        an = ob['an']
        arrs += [an['rawW'], an['rawQ']]
        for _, w_, q_ in an['alt']:
            arrs += [w_, q_]
        if an['probe'] is not None:
            arrs += list(an['probe'])
        if an['sigma'] is not None and np.iscomplexobj(an['sigma']):
            cplx = True
        for a in arrs:
            if a is not None and np.iscomplexobj(todense(a) if is_sparse(a) else a):
                cplx = True
    sig0 = spec['kwargs'].get('sigma')
    if isinstance(sig0, list):
        cplx = True
    for o in spec['ops']:
        if o['op'] == 'sigma' and isinstance(o['value'], list):
            cplx = True
    if spec['sort'][0] == 'dist' and isinstance(spec['sort'][1], list):
        cplx = True
    em = Emit(cplx)
    ops = 'opsQC' if cplx else 'opsQ'
    floor = 0.0 if spec.get('rel') else 1.0      # scaled pencils: every tolerance relative to the compared quantity

    def optk(v):
        if v is None:
            return 'None'
        if isinstance(v, list):
            v = complex(*v)
        return f'(Some {em.k(v)})'
    kw = spec['kwargs']
    herm = 'None' if kw.get('hermitian') is None else f"(Some {vlib.blit(kw['hermitian'])})"
    nm = 'None' if kw.get('nmodes') is None else f"(Some {int(kw['nmodes'])}%Z)"
    st = f"(prepare {herm} {nm} {optk(kw.get('sigma'))} {MODES[kw.get('mode', 'normal')]}%nat)"
    hops = []
    for o, ob in zip(spec['ops'], obs):
        if o['op'] == 'sigma':
            hops.append(f"HSetSigma {optk(o['value'])}")
            continue
        an = ob['an']
        A, B = ob['A'], ob['B']
        pen = f"(Build_pencil {em.mat(A)} {vlib.blit(is_sparse(A))} {em.optmat(B)} {vlib.blit(B is not None and is_sparse(B))})"
        level = o.get('level', 0)
        if an['lib_raised']:
            level = 1
        if not an['recorded'] and (not isinstance(ob['out'], str) or an['alt']) and level == 0:
            level = 2
        fun = 'None' if an['fun'] is None or not an['a_same'] else f"(Some {an['fun']})"
        ok_ = 'None' if an['k'] is None else f"(Some {an['k']}%Z)"
        osig = 'None' if an['sigma'] is None else f"(Some {em.k(an['sigma'])})"
        omode = 'None' if an['mode'] is None else f"(Some {an['mode']}%nat)"
        Ad_ = todense(A)
        Bd_ = None if B is None else todense(B)
        nA = np.abs(Ad_).sum(1).max()
        nB = 1.0 if Bd_ is None else np.abs(Bd_).sum(1).max()
        if an['probe'] is not None and level != 2:
            b, x = an['probe']
            sg = an['sigma'] if an['sigma'] is not None else 0.0
            probe = f'(Some ({em.vec(b)}, {em.vec(x)}))'
            tP = tol_lit((nA + abs(sg) * nB) * max(np.abs(x).max(), floor), 1e-9, floor)
        else:
            probe, tP = 'None', '0'
        if level == 1:
            rawW, rawQ, outl = '[]', '[]', '(Err EOther)'
            strict, tC, tW, tQ = '[]', '0', '0', '0'
        else:
            out = ob['out']
            if level == 2:
                if isinstance(out, str):
                    raww, rawq = np.zeros(0), np.zeros((todense(A).shape[0], 0))
                else:
                    raww, rawq = out
                strict_l = [False] * max([len(raww)] + [len(w) for _, w, _ in an['alt']])
            else:
                raww, rawq = an['rawW'], an['rawQ']
                strict_l = an['strict']
                if raww is None:        # no library call and an exception: the model must predict the exception
                    raww, rawq = np.zeros(0), np.zeros((todense(A).shape[0], 0))
            scC = max([floor] + [(nA + abs(w_[i]) * nB) * np.abs(q_[:, i]).max()
                               for w_, q_ in [(raww, rawq)] + [(w, q) for _, w, q in an['alt']] for i in range(len(w_))])
            rawW, rawQ = em.vec(raww), em.mat(rawq)
            if isinstance(out, str):
                outl = f"(Err {ERRS.get(out, 'EOther')})"
                tW = tQ = '0'
            else:
                outl = f'(Ok ({em.vec(out[0])}, {em.mat(out[1])}))'
                tW = tol_lit(np.abs(out[0]).max() if out[0].size else 1.0, 1e-9, floor)
                tQ = tol_lit((np.abs(out[1]).max() if out[1].size else 1.0) * max(1.0, min(an['kappa'], 1e6) / 10), 1e-9, floor)
            strict = '[' + '; '.join(vlib.blit(b) for b in strict_l) + ']'
            tC = tol_lit(scC, 1e-8, floor)
        alt = '[' + '; '.join(f'({nm}, ({em.vec(w)}, {em.mat(q)}))' for nm, w, q in an['alt']) + ']' if level == 2 else '[]'
        obs_l = (f"(Build_obs {level}%nat {fun} {ok_} {osig} {omode} {an['M']} {probe} {rawW} {rawQ} {alt} {outl} "
                 f"{strict} {tC} {tW} {tQ} {tP})")
        hops.append(f'HCall {pen} {obs_l}')
    chk = 'chkC' if cplx else 'chkQ'
    expr = f"{chk} {coq_sort(spec['sort'], ops, em)} {st} [" + ';\n    '.join(hops) + ']'
    return expr, dict(cplx=cplx)


# ----------------------------------------------------------------------------------------------- property oracle
def lex_sorted(k):
    k = np.asarray(k)
    for a, b in zip(k[:-1], k[1:]):
        if np.iscomplexobj(k):
            if (a.real, a.imag) > (b.real, b.imag):
                return False
        elif a > b:
            return False
    return True


def finite_spectrum(rec, A, B):
    """independent dense (generalised) spectrum; infinite eigenvalues of a singular B removed"""
    Ad = todense(A)
    if B is None:
        return np.linalg.eigvals(Ad)
    Bd = todense(B)
    # both matrices brought to unit scale first: "infinite" is judged on alpha / beta of the normalised pencil
    a, b = float(np.abs(Ad).max()) or 1.0, float(np.abs(Bd).max()) or 1.0
    w = rec.orig['eig'](Ad / a, Bd / b, right=False, homogeneous_eigvals=True)
    al, be = w[0], w[1]
    keep = np.abs(be) > 1e-9 * np.maximum(np.abs(al), 1e-300)
    return (al[keep] / be[keep]) * (a / b)


def match_multiset(a, b, tol):
    """every value of a is matched by a distinct value of b within tol"""
    b = list(b)
    for x in a:
        if not b:
            return False
        j = int(np.argmin([abs(x - y) for y in b]))
        if abs(x - b[j]) > tol:
            return False
        b.pop(j)
    return True


def oracle_call(ctx, rec, spec, o, ob, sigma_now, nmodes_now):
    """the property, stated on the module output"""
    if isinstance(ob['out'], str) or o.get('level', 0) != 0:
        return
    ctx.search_evaluations += 1
    A, B = ob['A'], ob['B']
    W, Q = ob['out']
    Ad = todense(A)
    Bd = None if B is None else todense(B)
    n = Ad.shape[0]
    nA = np.abs(Ad).sum(1).max()
    nB = 1.0 if Bd is None else np.abs(Bd).sum(1).max()
    sparse = is_sparse(A) and (B is None or is_sparse(B))
    case = dict(spec=spec_public(spec))

    def bad(pred, expected, got, cls):
        ctx.violation('impl-violates', 'EigenSolve._response', pred, cls, case, expected=expected, got=got)
    cls = ('sparse' if sparse else 'dense') + ('-generalised' if B is not None else '-standard')
    if Q.ndim != 2 or Q.shape[0] != n or Q.shape[1] != W.size:
        bad('shapes of W and Q', [n, W.size], list(Q.shape), cls)
        return
    kap = ob['an']['kappa']
    floor = 0.0 if spec.get('rel') else 1.0      # scaled pencils: residual and selection RELATIVE to the pencil's scale
    for i in range(W.size):
        q = Q[:, i]
        Bq = q if Bd is None else Bd @ q
        res = np.abs(Ad @ q - W[i] * Bq).max()
        sc = max(floor, (nA + abs(W[i]) * nB) * np.abs(q).max())
        if not res <= 1e-8 * sc:
            bad('A q_i = lambda_i B q_i', 0.0, float(res), cls)
            return
        if not np.abs(q).max() > 0:
            bad('eigenvector is non-zero', None, None, cls)
            return
        if not abs(q @ Bq - 1) <= 1e-9 * max(1.0, kap):
            bad('q_i^T B q_i = 1', 1.0, repr(q @ Bq), cls)
            return
    real_sym = (not np.iscomplexobj(Ad)) and np.array_equal(Ad, Ad.T) and (Bd is None or ((not np.iscomplexobj(Bd)) and np.array_equal(Bd, Bd.T)))
    if real_sym and spec['kwargs'].get('hermitian') is not False:
        if np.iscomplexobj(Q):
            bad('real symmetric problem gives real vectors', 'float', str(Q.dtype), cls)
        elif not (Q.mean(0) >= -1e-12 * np.abs(Q).max(0)).all():
            bad('mean entry of each vector is non-negative', '>= 0', Q.mean(0).tolist(), cls)
    keys = sort_keys(spec['sort'], W)
    if keys is not None:
        if spec['sort'][0] == 'rev':
            keys = keys[::-1]
        if not lex_sorted(keys):
            bad('ordered by the sorting function', 'ascending keys', [repr(k) for k in keys], cls + '-sort-' + spec['sort'][0])
    # completeness / selection against an independent spectrum
    full = finite_spectrum(rec, A, B)
    sc = max(floor, np.abs(full).max() if full.size else 1.0)
    if not sparse:
        if spec['sort'][0] in ('default', 'desc', 'rev', 'abs', 'dist', 'row0'):
            if W.size != n or not match_multiset(W, full, 1e-6 * sc) or full.size != n:
                bad('dense path returns the complete spectrum', sorted(map(repr, full)), sorted(map(repr, W)), cls)
        elif not match_multiset(W, list(full) * max(1, W.size), 1e-6 * sc):
            bad('returned values are eigenvalues', sorted(map(repr, full)), sorted(map(repr, W)), cls)
    else:
        k = 6 if nmodes_now is None else nmodes_now
        sg = 0.0 if sigma_now is None else sigma_now
        if spec['sort'][0] in ('default', 'desc', 'rev', 'abs', 'dist', 'row0'):
            d = np.abs(full - sg)
            idx = np.argsort(d)
            want = full[idx[:k]]
            if floor == 0.0:     # the scale of the values that are compared: the selected eigenvalues and the shift
                sc = max(np.abs(want).max() if want.size else 0.0, abs(sg), 1e-300)
            gap_ok = full.size <= k or d[idx[k]] - d[idx[k - 1]] > 1e-6 * sc
            if W.size != k:
                bad('sparse path returns the requested number of modes', k, int(W.size), cls)
            elif gap_ok and spec['kwargs'].get('mode', 'normal') == 'normal' and not match_multiset(W, want, 1e-6 * sc):
                # (buckling / cayley: scipy selects by the magnitude of the transformed eigenvalue, not by |lambda - sigma|)
                bad('sparse path returns the eigenvalues closest to the shift', sorted(map(repr, want)), sorted(map(repr, W)), cls)
        ctx.oracle_validation['ARPACK returns the nmodes eigenvalues closest to sigma (vs dense spectrum)'] = \
            ctx.oracle_validation.get('ARPACK returns the nmodes eigenvalues closest to sigma (vs dense spectrum)', 0) + 1


def keys_ambiguous(sort, W, Q):
    """the sorting function would see (nearly) tied keys on this library output: the order is then unspecified"""
    k = sort[0]
    if k in ('const',):
        return False
    keys = -np.abs(Q[0, :]) if k == 'row0' else sort_keys(sort, W)
    if keys is None or len(keys) < 2:
        return False
    keys = np.asarray(keys)
    sc = max(1.0, np.abs(keys).max())
    n = len(keys)
    exact = k in ('default', 'desc', 'rev', 'firstk')     # keys are the recorded floats themselves: only exact ties matter
    for i in range(n):
        for j in range(i):
            a, b = keys[i], keys[j]
            if exact:
                if a == b:
                    return True
            elif np.iscomplexobj(keys):
                dr, di = abs(a.real - b.real), abs(a.imag - b.imag)
                if (0 < dr < 1e-9 * sc) or (dr == 0 and di < 1e-9 * sc):
                    return True
            elif abs(a - b) < 1e-9 * sc:
                return True
    return False


def spec_public(spec):
    return {k: v for k, v in spec.items() if not k.startswith('_')}


# ----------------------------------------------------------------------------------------------- generators
def rand_orth(rng, n, cplx=False):
    X = rng.normal(size=(n, n))
    if cplx:
        X = X + 1j * rng.normal(size=(n, n))
    Qm, R = np.linalg.qr(X)
    return Qm


def spectrum(rng, n, cplx=False, pairs=0):
    """n well separated values (gaps >= 0.3); `pairs` complex-conjugate pairs first (for real matrices)"""
    grid = rng.permutation(np.arange(-9, 10))[:n] * 0.5 + rng.uniform(-0.1, 0.1, size=n)
    if cplx:
        grid = grid + 1j * (rng.permutation(np.arange(-9, 10))[:n] * 0.5 + rng.uniform(-0.1, 0.1, size=n))
    return grid


def gen_dense(rng, n, cls, gen, bcplx=False):
    """cls in rsym, rgen, cherm, cgen, csym; returns (A, B)"""
    cplx = cls in ('cherm', 'cgen', 'csym')

    def rnd(shape):
        X = rng.normal(size=shape)
        return X + 1j * rng.normal(size=shape) if cplx else X
    B = L = None
    if gen:
        Lc = cplx and (bcplx or cls == 'cherm')
        X = rng.normal(size=(n, n)) * 0.4
        if Lc:
            X = X + 1j * rng.normal(size=(n, n)) * 0.4
        L = np.tril(X, -1) + np.diag(rng.uniform(0.7, 1.5, size=n))
        B = L @ L.conj().T
        B = (B + B.conj().T) / 2
    if cls in ('rsym', 'cherm'):
        U = rand_orth(rng, n, cplx)
        D = spectrum(rng, n)
        S = U @ np.diag(D) @ U.conj().T
        S = (S + S.conj().T) / 2
        A = S if not gen else L @ S @ L.conj().T
        A = (A + A.conj().T) / 2
    elif cls in ('rgen', 'cgen'):
        V = rnd((n, n)) + np.eye(n) * 2
        if cls == 'cgen':
            D = np.diag(spectrum(rng, n, True))
        else:
            npairs = int(rng.integers(0, n // 2 + 1))
            vals = spectrum(rng, n)
            D = np.diag(vals).astype(float)
            for p in range(npairs):
                a, b = vals[2 * p], abs(vals[2 * p + 1]) + 0.3
                D[2 * p:2 * p + 2, 2 * p:2 * p + 2] = [[a, b], [-b, a]]
        Mx = V @ D @ np.linalg.inv(V)
        A = Mx if not gen else B @ Mx
    elif cls == 'csym':
        X = rnd((n, n))
        A = (X + X.T) / 2 + np.diag(np.arange(n) * 1.0)
        if gen:
            A = L @ A @ L.T if not np.iscomplexobj(L) else A
    else:
        raise ValueError(cls)
    return A, B


def accept_pencil(rec, A, B, sort, min_gap=0.05):
    """well separated spectrum (also under the sorting keys), moderately conditioned eigenvector basis"""
    try:
        Ad, Bd = todense(A), (None if B is None else todense(B))
        if Bd is not None and np.linalg.cond(Bd) > 1e4:
            return False
        Mx = Ad if Bd is None else np.linalg.solve(Bd, Ad)
        w, V = np.linalg.eig(Mx)
    except Exception:
        return False
    if not np.all(np.isfinite(w)) or np.linalg.cond(V) > 200:
        return False
    n = len(w)
    sc = max(1.0, np.abs(w).max())
    for i in range(n):
        for j in range(i):
            if abs(w[i] - w[j]) < min_gap * sc:
                return False
    keys = sort_keys(sort, w)
    if keys is not None:
        ks = np.sort_complex(keys) if np.iscomplexobj(keys) else np.sort(keys)
        if np.iscomplexobj(keys):
            # lexicographic order: real parts equal (conjugate pairs) is fine, nearly equal is not
            for i in range(n):
                for j in range(i):
                    dr = abs(keys[i].real - keys[j].real)
                    if 0 < dr < 1e-6 * sc and not (Bd is None and not np.iscomplexobj(Ad)):
                        return False
        elif n > 1 and np.min(np.diff(ks)) < 1e-3 * sc:
            return False
    return True


def random_sort(rng, n, cplx_vals):
    r = rng.random()
    if r < 0.45:
        return ['default']
    kinds = ['desc', 'rev', 'abs', 'dist', 'firstk', 'row0', 'const']
    k = kinds[int(rng.integers(len(kinds)))]
    if k == 'dist':
        t = float(np.round(rng.uniform(-3, 3), 2))
        return ['dist', [t, float(np.round(rng.uniform(-2, 2), 2))]] if cplx_vals and rng.random() < 0.5 else ['dist', t]
    if k == 'firstk':
        return ['firstk', int(rng.integers(1, n + 1))]
    if k == 'const':
        m = int(rng.integers(1, n + 2))
        return ['const', [int(i) for i in rng.integers(0, n, size=m)]] if rng.random() < 0.5 else ['const', [int(i) for i in rng.permutation(n)]]
    return [k]


def gen_dense_spec(rec, rng, nmax, idx):
    for attempt in range(60):
        n = int(rng.integers(1, nmax + 1))
        cls = ['rsym', 'rsym', 'rgen', 'cherm', 'cgen', 'csym'][int(rng.integers(6))]
        gen = rng.random() < 0.5
        bcplx = rng.random() < 0.5
        A, B = gen_dense(rng, n, cls, gen, bcplx)
        sort = random_sort(rng, n, cls in ('rgen', 'cgen', 'csym'))
        if sort[0] == 'row0' and attempt < 59:
            pass
        if not accept_pencil(rec, A, B, sort):
            continue
        herm = None
        r = rng.random()
        if r < 0.1:
            herm = cls in ('rsym', 'cherm')
        elif r < 0.15 and cls in ('rsym', 'cherm'):
            herm = False
        return dict(name=f'dense-{idx}', stream='dense', cls=cls + ('-gen' if gen else '-std'), n=n,
                    kwargs=dict(hermitian=herm, nmodes=None, sigma=None, mode='normal'), sort=sort,
                    ops=[dict(op='call', A=enc_mat(A), B=None if B is None else enc_mat(B))])
    return None


def pick_sigma(rng, w, k, allow_none=True, cplx=False, nonzero=False, sign=0):
    """a shift with a well defined set of k closest eigenvalues and a well conditioned A - sigma B
    nonzero: never None / 0; sign < 0: a negative shift"""
    sc = max(1.0, np.abs(w).max())
    for _ in range(50):
        r = rng.random()
        if allow_none and r < 0.2 and not nonzero:
            s, sv = None, 0.0
        elif r < 0.35 and not nonzero:
            s = sv = 0.0
        else:
            lo, hi = w.real.min() - 0.5, w.real.max() + 0.5
            if sign < 0:
                if lo > -0.02:
                    return None, False
                hi = min(hi, -0.01)
            sv = float(np.round(rng.uniform(lo, hi), 3))
            s = sv
            if sv == 0.0:
                continue
        d = np.sort(np.abs(w - sv))
        if d[0] < 0.03 * sc:
            continue
        if k < len(d) and d[k] - d[k - 1] < 1e-3 * sc:
            continue
        return s, True
    return None, False


def gen_small_sparse_spec(rec, rng, idx, thorough, force_shift=False, want_gen=None, want_cls=None):
    for attempt in range(80):
        n = int(rng.integers(6, 13))
        cls = ['rsym', 'rsym', 'rgen', 'cherm', 'cgen', 'csym'][int(rng.integers(6))]
        cls = want_cls or cls
        cplx = cls in ('cherm', 'cgen', 'csym')
        gen = rng.random() < 0.5
        gen = gen if want_gen is None else want_gen

        def rnd():
            X = rng.normal(size=(n, n))
            return X + 1j * rng.normal(size=(n, n)) if cplx else X
        mask = np.triu(rng.random((n, n)) < 0.35)
        mask = mask | mask.T
        X = rnd() * mask
        if cls in ('rsym', 'cherm'):
            A = (X + X.conj().T) / 2
        elif cls == 'csym':
            A = (X + X.T) / 2
        else:
            A = X * (1 + 0.5 * np.triu(np.ones((n, n)), 1))
        A = A + np.diag(rng.permutation(n) * 1.0 + rng.uniform(-0.2, 0.2, size=n))
        if cls == 'cherm':
            A = A - 1j * np.diag(np.diag(A).imag)
        B = None
        if gen:
            Xb = rng.normal(size=(n, n)) * 0.3
            if cls == 'cherm' and rng.random() < 0.6:
                Xb = Xb + 1j * rng.normal(size=(n, n)) * 0.3
            L = np.tril(Xb, -1) * (rng.random((n, n)) < 0.3) + np.diag(rng.uniform(0.7, 1.4, size=n))
            B = L @ L.conj().T
            B = (B + B.conj().T) / 2
        sort = ['default'] if rng.random() < 0.7 else random_sort(rng, n, cplx or cls == 'rgen')
        if sort[0] in ('firstk', 'const'):
            sort = ['default']
        if not accept_pencil(rec, A, B, sort, min_gap=0.03):
            continue
        w = finite_spectrum(rec, A, B)
        nm = None if (n >= 9 and rng.random() < 0.15) else int(rng.integers(1, n - 2))
        k = 6 if nm is None else nm
        sigma, ok = pick_sigma(rng, w, k, nonzero=force_shift)
        if not ok:
            continue
        sv = 0.0 if sigma is None else sigma
        Sh = todense(A) - sv * (np.eye(n) if B is None else todense(B))
        if np.linalg.cond(Sh) > COND_MAX:
            continue
        ops = [dict(op='call', A=enc_mat(A, True), B=None if B is None else enc_mat(B, True))]
        # a second call with a changed matrix of the same class (stale-factorisation check)
        if rng.random() < 0.5:
            A2 = A + np.diag(rng.uniform(0.3, 0.8, size=n))
            if accept_pencil(rec, A2, B, sort, min_gap=0.03):
                w2 = finite_spectrum(rec, A2, B)
                d = np.sort(np.abs(w2 - sv))
                Sh2 = todense(A2) - sv * (np.eye(n) if B is None else todense(B))
                if d[0] > 0.03 and (k >= len(d) or d[k] - d[k - 1] > 1e-3) and np.linalg.cond(Sh2) < COND_MAX:
                    if rng.random() < 0.4:
                        s2, ok2 = pick_sigma(rng, w2, k, allow_none=False)
                        if ok2 and np.linalg.cond(todense(A2) - s2 * (np.eye(n) if B is None else todense(B))) < COND_MAX:
                            ops.append(dict(op='sigma', value=s2))
                            ops.append(dict(op='call', A=enc_mat(A2, True), B=None if B is None else enc_mat(B, True)))
                    else:
                        ops.append(dict(op='call', A=enc_mat(A2, True), B=None if B is None else enc_mat(B, True)))
        return dict(name=f'sparse-{idx}', stream='sparse', cls=cls + ('-gen' if gen else '-std'), n=n,
                    kwargs=dict(hermitian=None, nmodes=nm, sigma=sigma, mode='normal'), sort=sort, ops=ops)
    return None


def gen_fe_spec(pym, rec, rng, idx, force_shift=False, sign=0, want_gen=None):
    for attempt in range(40):
        elastic = rng.random() < 0.5
        cplx = elastic and rng.random() < 0.35
        gen = rng.random() < 0.65
        gen = gen if want_gen is None else want_gen
        if elastic:
            nx, ny = [(3, 3), (4, 3), (3, 4), (4, 2)][int(rng.integers(4))]
        else:
            nx, ny = [(5, 4), (6, 4), (5, 5), (7, 3)][int(rng.integers(4))]
        ncalls = int(rng.integers(1, 4))
        nm = None if rng.random() < 0.3 else int(rng.integers(1, 7))
        k = 6 if nm is None else nm
        xs = [np.round(rng.uniform(0.15, 1.0, size=nx * ny), 3) for _ in range(ncalls)]

        def fe(t, x):
            return dict(fe=dict(type=t, nx=nx, ny=ny, x=[float(v) for v in x], cplx=bool(cplx)))
        tA, tB = ('K', 'M') if elastic else ('P', 'M1')
        pens = [(fe(tA, x), fe(tB, x) if gen else None) for x in xs]
        mats = [(dec_mat(pym, a), dec_mat(pym, b)) for a, b in pens]
        ws = [finite_spectrum(rec, a, b) for a, b in mats]
        sigma, ok = pick_sigma(rng, ws[0], k, nonzero=force_shift, sign=sign)
        if not ok:
            continue
        ops, cur, good = [], sigma, True
        for c in range(ncalls):
            if c > 0 and rng.random() < 0.35:
                s2, ok2 = pick_sigma(rng, ws[c], k, allow_none=False, nonzero=force_shift, sign=sign)
                if ok2:
                    ops.append(dict(op='sigma', value=s2))
                    cur = s2
            sv = 0.0 if cur is None else cur
            a, b = mats[c]
            w = ws[c]
            d = np.sort(np.abs(w - sv))
            n = a.shape[0]
            Sh = todense(a) - sv * (np.eye(n) if b is None else todense(b))
            sc = max(1.0, np.abs(w).max())
            if d[0] < 0.02 * sc or (k < len(d) and d[k] - d[k - 1] < 1e-3 * sc) or np.linalg.cond(Sh) > COND_MAX:
                good = False
                break
            # clusters inside the wanted set make eigenvectors ill-determined but not the property; avoid tiny gaps
            wk = np.sort_complex(w[np.argsort(np.abs(w - sv))[:k]])
            if k > 1 and np.min(np.abs(np.diff(wk))) < 1e-3 * sc:
                good = False
                break
            ops.append(dict(op='call', A=pens[c][0], B=pens[c][1]))
        if not good:
            continue
        return dict(name=f'fe-{idx}', stream='fe', cls=('elastic' if elastic else 'poisson') + ('-cplx' if cplx else '') + ('-gen' if gen else '-std'),
                    n=int(mats[0][0].shape[0]), kwargs=dict(hermitian=None, nmodes=nm, sigma=sigma, mode='normal'),
                    sort=['default'], ops=ops)
    return None


# ---- pencils on other scales (physical units), shifts scaled alike; tiny non-zero shifts of both signs
def _map_sigma(v, f):
    if v is None:
        return None
    if isinstance(v, list):
        z = f(complex(*v))
        return [float(z.real), float(z.imag)]
    return float(f(v))


def transform_spec(pym, spec, a=1.0, b=1.0, c=0.0, tag=''):
    """A' = a (A - c B), B' = b B (B = I when absent: then b must be 1): every eigenvalue becomes (a / b) (lambda - c),
    so every shift (constructor argument, m.sigma assignments) and the target of a 'dist' sorting key are mapped alike.
    The spectrum, the distances to the shift and the conditioning of A - sigma B keep their RELATIVE structure."""
    import copy
    sp = copy.deepcopy(spec_public(spec))
    f = lambda v: (a / b) * (v - c)

    def sc_mat(d, fac):
        if d is None:
            return None
        if 'fe' in d:
            d['fe']['scale'] = float(fac) * d['fe'].get('scale', 1.0)
            return d
        M = np.array(d['data'], dtype=float)
        if d['complex']:
            M = M[..., 0] + 1j * M[..., 1]
        return enc_mat(M * fac, d['sparse'])
    for o in sp['ops']:
        if o['op'] == 'sigma':
            o['value'] = _map_sigma(o['value'], f)
            continue
        if c != 0.0:
            assert 'fe' not in o['A']
            A, B = dec_mat(pym, o['A']), dec_mat(pym, o.get('B'))
            Ad = todense(A) - c * (np.eye(A.shape[0]) if B is None else todense(B))
            o['A'] = enc_mat(Ad, o['A']['sparse'])
        o['A'] = sc_mat(o['A'], a)
        if o.get('B') is not None:
            o['B'] = sc_mat(o['B'], b)
    sp['kwargs']['sigma'] = _map_sigma(sp['kwargs'].get('sigma'), f)
    if sp['sort'][0] == 'dist':
        sp['sort'] = ['dist', _map_sigma(sp['sort'][1], f)]
    sp['name'] = spec['name'] + tag
    sp['stream'] = 'scaled'
    sp['rel'] = True
    sp['scale'] = [float(a), float(b), float(c)]
    return sp


# (a, b): A scaled by a, B by b.  Entries of A stay >= 1e-4: matrices whose entries are all below the ABSOLUTE tolerance 1e-8
# of the matrix predicates are classified diagonal / Hermitian whatever they are (known finding K06, C05).
SCALES_GEN = [(1.0, 1e9), (1e-3, 1e6), (1e-3, 1e2), (2.0 ** -10, 2.0 ** 20), (1e-4, 1.0), (1e3, 1e-3), (1e9, 1.0), (1e6, 1e-3)]
SCALES_STD = [(1e-4, 1.0), (1e-3, 1.0), (1e3, 1.0), (1e6, 1.0), (1e9, 1.0)]
TINY = [1e-9, -1e-9, 5e-9, -2e-9, 1e-12, -1e-12, 1e-8, -1e-8, 9.9e-9, 1e-15, -4e-9, 2.5e-9, 1e-300, -1e-100]


def gen_scaled_specs(pym, rec, rng, quick):
    """deterministic plan, executed on every run (the matrices vary with the seed, the plan does not):
    (1) small sparse pencils of every class, generalised, eigenvalues of order 1e-9 .. 1e9 (scale pairs SCALES_GEN), the
        shift scaled alike -- non-zero and, for the pairs with a / b = 1e-9, of magnitude <= 1e-8 -- with both signs (the
        pencil is translated by c = 2 sigma so that the same relative situation has a NEGATIVE shift);
    (2) standard sparse pencils scaled by SCALES_STD;
    (3) standard and generalised pencils of order 1 with a TINY non-zero shift of either sign (no eigenvalue near 0);
    (4) FE pencils (stiffness / mass, Poisson / mass) in other units: K ~ 1e-3, M ~ 1e6 ... with shifts of both signs;
        free-floating structures (K ~ 1e-6, singular) with sigma = -1e-9, -3e-9, 1e-9;
    (5) dense pencils scaled by 1e-4 .. 1e9."""
    out = []
    reps = 1 if quick else 4
    classes = ['rsym', 'cherm', 'rgen', 'cgen', 'csym', 'rsym', 'rsym', 'cherm']
    i = 0
    for _ in range(reps):
        for j, (a, b) in enumerate(SCALES_GEN):
            for neg in (False, True):
                base = gen_small_sparse_spec(rec, rng, i, False, force_shift=True, want_gen=True, want_cls=classes[(j + neg) % len(classes)])
                i += 1
                if base is None:
                    continue
                c = 2.0 * base['kwargs']['sigma'] if neg and base['kwargs']['sigma'] > 0 else 0.0
                if base['sort'][0] not in ('default', 'desc', 'rev'):
                    base['sort'] = ['default']
                out.append(transform_spec(pym, base, a, b, c, f'-x{a:g}/{b:g}' + ('-neg' if c else '')))
        for j, (a, b) in enumerate(SCALES_STD):
            base = gen_small_sparse_spec(rec, rng, i, False, force_shift=True, want_gen=False, want_cls=classes[j % len(classes)])
            i += 1
            if base is not None:
                c = 2.0 * base['kwargs']['sigma'] if j % 2 and base['kwargs']['sigma'] > 0 else 0.0
                out.append(transform_spec(pym, base, a, 1.0, c, f'-x{a:g}' + ('-neg' if c else '')))
        # (3) order-1 pencils, tiny non-zero shift: the pencil is translated so that the picked shift lands on the tiny value
        # every value on a STANDARD problem (there the module must also make B = identity: compared exactly), every
        # second one on a generalised problem as well
        for j, (t, g_) in enumerate([(t, False) for t in TINY] + [(t, True) for t in TINY[::2]]):
            base = gen_small_sparse_spec(rec, rng, i, False, force_shift=True, want_gen=g_, want_cls=classes[j % len(classes)])
            i += 1
            if base is None or len([o for o in base['ops'] if o['op'] == 'sigma']):
                continue
            base['sort'] = ['default']
            sp = transform_spec(pym, base, 1.0, 1.0, base['kwargs']['sigma'] - t, f'-tiny{t:g}')
            sp['kwargs']['sigma'] = float(t)       # exactly the tiny value (not sigma - (sigma - t) in floating point)
            sp['rel'] = False                      # a pencil of order 1: the usual tolerances
            out.append(sp)
    nfe = 6 if quick else 16
    fe_scales = [(1e-3, 1e6), (1e-3, 1e6), (1.0, 1e9), (1e-4, 1e2), (1e6, 1e-3), (1e9, 1.0)]
    for j in range(nfe):
        a, b = fe_scales[j % len(fe_scales)]
        base = gen_fe_spec(pym, rec, rng, 1000 + j, force_shift=True, sign=-1 if j % 2 else 0, want_gen=True)
        if base is not None:
            out.append(transform_spec(pym, base, a, b, 0.0, f'-x{a:g}/{b:g}'))
    # (4b) free-floating structure (singular K, rigid-body eigenvalues 0 +- rounding) with the usual tiny shift of either sign
    for j, (sg, (nx, ny)) in enumerate(zip([-1e-9, -3e-9, 1e-9], [(4, 3), (3, 3), (5, 3)])):
        x = [float(v) for v in np.round(rng.uniform(0.15, 1.0, size=nx * ny), 3)]
        out.append(dict(name=f'fe-free-floating-{j}', stream='scaled', cls='elastic-free-std', n=2 * (nx + 1) * (ny + 1), rel=True,
                        kwargs=dict(hermitian=None, nmodes=5, sigma=sg, mode='normal'), sort=['default'],
                        ops=[dict(op='call', A=dict(fe=dict(type='Kfree', nx=nx, ny=ny, x=x, cplx=False, scale=1e-6)), B=None)]))
    # (5) dense pencils on other scales (complete spectrum, normalisation q^T B q = 1 with scaled B)
    for j in range(8 if quick else 40):
        base = gen_dense_spec(rec, rng, 6, 2000 + j)
        if base is None:
            continue
        a, b = SCALES_GEN[j % len(SCALES_GEN)]
        hasB = base['ops'][0].get('B') is not None
        if base['sort'][0] not in ('default', 'desc', 'rev', 'abs', 'firstk', 'row0', 'const', 'dist'):
            base['sort'] = ['default']
        out.append(transform_spec(pym, base, a if hasB else SCALES_STD[j % len(SCALES_STD)][0], b if hasB else 1.0, 0.0, '-scaled'))
    return out


# ---- every constructor keyword on BOTH paths (deterministic plan, every run)
OPT_NMODES = [None, 0, 1, 2, 'n', 'n+3']
OPT_SIGMA = [None, 0.0, 1.7, -0.4]
OPT_MODE = ['normal', 'buckling', 'cayley']
OPT_DENSE = [('rsym', False), ('rsym', True), ('rgen', False), ('rgen', True), ('cherm', False), ('cherm', True),
             ('cgen', False), ('cgen', True), ('csym', False), ('rsym', False)]
OPT_SPARSE = [('rsym', False), ('rsym', True), ('cherm', False), ('cherm', True), ('rgen', False), ('rgen', True),
              ('cgen', False), ('csym', False)]


def _neutral(spec):
    """the same history with the options that are documented as sparse-only left at their defaults"""
    import copy
    sp = copy.deepcopy(spec_public(spec))
    sp['kwargs'].update(nmodes=None, sigma=None, mode='normal')
    sp['ops'] = [o for o in sp['ops'] if o['op'] == 'call']
    return sp


def gen_option_specs(pym, rec, rng, quick):
    """the plan does not depend on the seed, the matrices do:
    (1) DENSE pencils of every class, standard and generalised, n = 4..6, each with nmodes = None, 0, 1, 2 (< n), n, n + 3,
        combined (covering: the other keywords cycle with the pencil index) with sigma None / 0 / 1.7 / -0.4, mode
        normal / buckling / cayley, hermitian None / True / False (True only where it is true) and the sorting functions
        default / desc / abs / rev / dist / firstk / const-permutation; nmodes, sigma and mode are documented as sparse-only:
        the complete spectrum is returned, EVERY column is normalised, sign-fixed and ordered, and the output equals the one
        of a module built with the neutral options (compared column by column);
    (2) dense histories of two calls (changed matrix) and histories that use ONE module for a sparse and then a dense
        matrix of the same class and size (the sparse call stores its defaults nmodes = 6 / sigma = 0 on the module);
    (3) SPARSE pencils of every class: nmodes 1 / 2 / 3 / None, sigma non-zero / None / 0.0 (pencil translated so that the
        shift lands on zero), hermitian flag given (True / False, consistent), sorting functions desc / abs, Hermitian ones also with mode buckling (A shifted positive definite) and cayley (non-zero
        shift: scipy's precondition), and the loud values nmodes = 0, n, n + 3 (ARPACK refuses: dispatch compared only)."""
    import copy
    out = []
    reps = 1 if quick else 3
    for rep in range(reps):
        for j, (cls, gen) in enumerate(OPT_DENSE):
            n = 4 + (j + rep) % 3
            sorts = [['default'], ['desc'], ['abs'], ['rev'], ['dist', 0.35], ['firstk', 3], ['const', None], ['default']]
            for attempt in range(80):
                A, B = gen_dense(rng, n, cls, gen, bcplx=bool((j + attempt) % 2))
                A2 = A + np.diag(rng.uniform(0.3, 0.8, size=n))
                if all(accept_pencil(rec, A, B, s_) for s_ in sorts[:5]):
                    break
            else:
                continue
            perm = [int(v) for v in rng.permutation(n)]
            hermy = cls in ('rsym', 'cherm')
            cplxv = cls in ('rgen', 'cgen', 'csym')
            for i, nm in enumerate(OPT_NMODES):
                nmv = n if nm == 'n' else (n + 3 if nm == 'n+3' else nm)
                sort = copy.deepcopy(sorts[(i + 2 * j) % len(sorts)])
                if sort[0] == 'const':
                    sort[1] = perm
                herm = ([None, True, None, False, None, True] if hermy else [None, False, None, None, False, None])[(i + j) % 6]
                ops = [dict(op='call', A=enc_mat(A), B=None if B is None else enc_mat(B))]
                if i % 3 == 1 and accept_pencil(rec, A2, B, sort):
                    ops.append(dict(op='call', A=enc_mat(A2), B=None if B is None else enc_mat(B)))
                out.append(dict(name=f'opt-dense-{rep}-{j}-{i}', stream='options', cls=cls + ('-gen' if gen else '-std'), n=n, neutral=True,
                                kwargs=dict(hermitian=herm, nmodes=nmv, sigma=OPT_SIGMA[(i + j) % 4], mode=OPT_MODE[(i + j // 4) % 3]),
                                sort=sort, ops=ops))
        # (3) sparse pencils
        for j, (cls, gen) in enumerate(OPT_SPARSE):
            base = gen_small_sparse_spec(rec, rng, 5000 + j, False, force_shift=True, want_gen=gen, want_cls=cls)
            if base is None:
                continue
            n = base['n']
            base['ops'] = base['ops'][:1]
            base['stream'] = 'options'
            hermy = cls in ('rsym', 'cherm')
            A0, B0 = dec_mat(pym, base['ops'][0]['A']), dec_mat(pym, base['ops'][0].get('B'))
            w = finite_spectrum(rec, A0, B0)
            variants = [dict(nmodes=1, hermitian=hermy, sort=['desc']),
                        dict(nmodes=3, sort=['abs'], mode='cayley' if hermy else 'normal'),
                        dict(nmodes=2, hermitian=hermy, mode='buckling' if hermy else 'normal', pd=hermy),
                        dict(nmodes=[0, n, n + 3][j % 3]),
                        dict(nmodes=None if n >= 9 else n - 3, hermitian=hermy if j % 2 else None),
                        dict(nmodes=2, zero=True, sort=['desc'] if j % 2 else ['default'])]
            for v, var in enumerate(variants):
                sp = copy.deepcopy(base)
                if var.get('pd'):      # buckling mode: ARPACK uses A as the inner product, A must be positive definite
                    c = float(np.floor(w.real.min() - 1.0))
                    sp = transform_spec(pym, sp, 1.0, 1.0, c, '')
                    sp['stream'], sp['rel'] = 'options', False
                    if sp['kwargs']['sigma'] == 0.0:
                        continue
                if var.get('zero'):    # the pencil translated so that the shift lands on 0: sigma = None / 0.0 (no factorisation of a shifted matrix)
                    sp = transform_spec(pym, sp, 1.0, 1.0, float(sp['kwargs']['sigma']), '')
                    sp['stream'], sp['rel'] = 'options', False
                    sp['kwargs']['sigma'] = None if j % 2 else 0.0
                sort = var.get('sort', ['default'])
                if not accept_pencil(rec, A0, B0, sort, min_gap=0.03):
                    sort = ['default']
                sp['sort'] = sort
                sp['kwargs'].update(nmodes=var['nmodes'], hermitian=var.get('hermitian'), mode=var.get('mode', 'normal'))
                sp['name'] = f'opt-sparse-{rep}-{j}-{v}'
                out.append(sp)
            # (2) one module, first the sparse matrix, then the same matrix dense (storage changes, class and size do not)
            if n <= 9 and cls != 'csym':
                sp = copy.deepcopy(base)
                o0 = sp['ops'][0]
                od = copy.deepcopy(o0)
                od['A']['sparse'] = False
                if od.get('B') is not None:
                    od['B']['sparse'] = False
                sp['ops'] = [o0, od]
                sp['kwargs'].update(nmodes=[None, 2, 3][j % 3] if n >= 9 else 2)
                sp['name'] = f'opt-sparse-then-dense-{rep}-{j}'
                out.append(sp)
    return out


def oracle_neutral(ctx, pym, spec, obs, seed):
    """dense input: nmodes / sigma / mode are documented as sparse-only, so a module built with them must return what a
    module built without them returns -- every eigenvalue and EVERY column (LAPACK is deterministic: same bits expected,
    1e-12 allowed)"""
    ref = run_spec(pym, _neutral(spec), seed)
    got = [ob for ob in obs if ob is not None]
    for c, (g, r) in enumerate(zip(got, ref)):
        if is_sparse(g['A']):
            continue
        ctx.search_evaluations += 1
        case = dict(spec=spec_public(spec), call=c)
        go, ro = g['out'], r['out']
        if isinstance(go, str) or isinstance(ro, str):
            if go != ro and not (isinstance(go, str) and isinstance(ro, str)):
                ctx.violation('impl-violates', 'EigenSolve._response', 'dense input: nmodes / sigma / mode change nothing', 'dense-options',
                              case, expected=ro if isinstance(ro, str) else 'ok', got=go if isinstance(go, str) else 'ok')
            continue
        okW = go[0].shape == ro[0].shape and np.allclose(go[0], ro[0], rtol=1e-12, atol=1e-12 * max(1.0, np.abs(ro[0]).max() if ro[0].size else 1.0))
        okQ = go[1].shape == ro[1].shape and np.allclose(go[1], ro[1], rtol=1e-12, atol=1e-12 * max(1.0, np.abs(ro[1]).max() if ro[1].size else 1.0))
        if not (okW and okQ):
            cols = [] if go[1].shape != ro[1].shape else [int(i) for i in range(ro[1].shape[1]) if not np.allclose(go[1][:, i], ro[1][:, i], rtol=1e-12, atol=1e-12)]
            ctx.violation('impl-violates', 'EigenSolve._response', 'dense input: nmodes / sigma / mode change nothing', 'dense-options',
                          dict(case, differing_columns=cols), expected=[repr(v) for v in ro[1].T.tolist()][:8], got=[repr(v) for v in go[1].T.tolist()][:8])


def gen_malformed_spec(rec, rng, idx):
    kind = ['isotropic', 'b-indefinite', 'index-range', 'mode-nonherm', 'herm-flag-wrong', 'class-change', 'mixed-storage'][int(rng.integers(7))]
    kw = dict(hermitian=None, nmodes=None, sigma=None, mode='normal')
    sort = ['default']
    if kind == 'isotropic':
        c = float(rng.integers(1, 5))
        A = np.array([[0.0, -c], [c, 0.0]]) if rng.random() < 0.5 else np.array([[0, -1j * c], [1j * c, 0]])
        ops = [dict(op='call', A=enc_mat(A), B=None)]
    elif kind == 'b-indefinite':
        n = int(rng.integers(2, 5))
        A, _ = gen_dense(rng, n, 'rsym', False)
        d = rng.uniform(0.5, 2, size=n)
        d[int(rng.integers(n))] *= -1
        ops = [dict(op='call', A=enc_mat(A), B=enc_mat(np.diag(d)))]
    elif kind == 'index-range':
        n = int(rng.integers(2, 5))
        A, _ = gen_dense(rng, n, 'rsym', False)
        sort = ['const', [0, n + int(rng.integers(0, 3))]]
        ops = [dict(op='call', A=enc_mat(A), B=None)]
    elif kind == 'mode-nonherm':
        n = 8
        A = np.diag(np.arange(1.0, n + 1)) + np.triu(np.ones((n, n)), 1) * 0.3
        kw.update(mode=['buckling', 'cayley'][int(rng.integers(2))], nmodes=2)
        ops = [dict(op='call', A=enc_mat(A, True), B=None)]
    elif kind == 'herm-flag-wrong':
        n = int(rng.integers(2, 5))
        A, _ = gen_dense(rng, n, 'rgen', False)
        kw.update(hermitian=True)
        ops = [dict(op='call', A=enc_mat(A), B=None, level=1)]
    elif kind == 'class-change':
        n = int(rng.integers(2, 5))
        A, _ = gen_dense(rng, n, 'rsym', False)
        A2, _ = gen_dense(rng, n, 'rgen', False)
        ops = [dict(op='call', A=enc_mat(A), B=None), dict(op='call', A=enc_mat(A2), B=None, level=1)]
        if not accept_pencil(rec, A, None, sort):
            return None
    else:
        n = int(rng.integers(2, 5))
        A, B = gen_dense(rng, n, 'rsym', True)
        ops = [dict(op='call', A=enc_mat(A, True), B=enc_mat(B, False), level=1)]
    return dict(name=f'malformed-{idx}-{kind}', stream='malformed', cls=kind, n=0, kwargs=kw, sort=sort, ops=ops)


# ----------------------------------------------------------------------------------------------- main
def run(ctx):
    import warnings
    warnings.simplefilter('ignore')
    import pymoto as pym
    ctx.rule = ('corpus first, then generated histories of EigenSolve.response() calls: dense pencils n<=6 (8 thorough) of classes '
                'real symmetric / real general / complex Hermitian / complex general / complex symmetric, standard and generalised '
                '(B = L L^H), hermitian flag None/True/False, 8 sorting functions; small sparse pencils n=6..12 and FE pencils '
                '(AssembleStiffness+AssembleMass, AssemblePoisson+AssembleMass, clamped edge, random densities, real and complex '
                'modulus) with nmodes, sigma, 1-3 calls with changed matrices and m.sigma assignments; malformed stream (isotropic '
                'vectors, indefinite B, index out of range, unsupported mode, wrong flag, class change, mixed storage). Spectra are '
                'well separated by construction (rejection sampling). A case is non-trivial when n >= 2; distinct by content hash. '
                'Stream "scaled" (deterministic plan, every run): small sparse pencils of every class, generalised (A, B scaled by '
                '(1,1e9) (1e-3,1e6) (1e-3,1e2) (2^-10,2^20) (1e-4,1) (1e3,1e-3) (1e9,1) (1e6,1e-3): eigenvalues 1e-9 .. 1e9) and '
                'standard (1e-4 .. 1e9), the shift scaled alike and non-zero, each once with a positive and once with a negative '
                'shift (pencil translated by 2 sigma); pencils of order 1 with the tiny shifts +-1e-9, 5e-9, -2e-9, +-1e-12, +-1e-8, '
                '9.9e-9, 1e-15, -4e-9, 2.5e-9, 1e-300, -1e-100 (each on a standard problem, every second one also on a generalised one); FE pencils in other units (K ~ 1e-3, M ~ 1e6, ...) with shifts of both signs; dense '
                'pencils on other scales; tolerances relative to the scale of the compared quantity.  Stream "options" (deterministic plan, every run): '
                'every constructor keyword on BOTH paths: dense pencils of every class with nmodes None/0/1/2<n/n/n+3 x sigma None/0/1.7/-0.4 x mode '
                'normal/buckling/cayley x hermitian None/True/False x 7 sorting functions (covering design), two-call histories, one module for a sparse '
                'and then the same dense matrix; output also compared with a module built with neutral options; sparse pencils with nmodes 1/2/3/None, '
                'sigma non-zero/None/0.0, hermitian flag, sorting desc/abs, buckling/cayley (Hermitian), loud nmodes 0/n/n+3.')
    ctx.assumptions += [
        'eigenvalues (and the keys of the sorting function) are well separated in generated cases: ties make argsort and the '
        'eigenvectors non-unique, which the property does not specify',
        'the bilinear normalisation needs q^T B q != 0 (isotropic complex vectors raise AssertionError in the module; such cases are '
        'generated only in the malformed stream); generated cases have ||q||^2 ||B|| / |q^T B q| <= 1e3',
        'histories keep the matrix class of the first call (is_hermitian and the solver kind are cached by the module: a later matrix '
        'of another class is outside C11 and belongs to C03; only the dispatch is compared there)',
        'generalised sparse pencils with singular B (FE mass matrix with boundary rows) need more free dofs than ncv = max(2*nmodes+1, 20), '
        'otherwise ARPACK raises error -9999 (loud failure, not generated)',
        'sigma real; A - sigma B has condition number <= 1e5 in generated cases',
        'mode buckling / cayley (sparse Hermitian): non-zero shift (scipy precondition), buckling with A shifted positive definite; "closest to the '
        'shift" is compared against the dense spectrum in normal mode only (scipy selects by the magnitude of the transformed eigenvalue otherwise)',
        'scaled pencils (stream "scaled"): a (A - c B), b B from a generated pencil (A, B) of order 1, every shift mapped alike; '
        'eigenvalues of order 1e-9 .. 1e9; the entries of A stay >= 1e-4: a matrix whose entries are all below the ABSOLUTE tolerance '
        '1e-8 of matrix_is_diagonal / matrix_is_hermitian is classified diagonal / Hermitian whatever it is (known finding K06, C05)',
    ]
    ctx.trusted += [
        'Print Assumptions: theorems over the reals rely on the standard axioms of Coq.Reals (ClassicalDedekindReals.sig_forall_dec, '
        'sig_not_dec, FunctionalExtensionality.functional_extensionality_dep); the generic ring/field theorems are closed under the global context',
        'oracle contracts (premises of the theorems, validated per run on every recorded library result): scipy eigh/eig/eigsh/eigs return '
        '(W, Q) with A q_i = lambda_i M q_i and one column per eigenvalue; LAPACK returns n pairs; the sorting function returns valid indices; '
        'np.sqrt(v)^2 = v',
        'evaluation domain of the model in the case files: dyadic numbers m*2^e (pairs for complex) with exact + - * and division / square '
        'root rounded to 72 bits (Base/QMat.v); the theorems use the real sqrt resp. an abstract s with s*s = v: same model term, two '
        'interpretations; float mantissas are written as primitive 63-bit integers in the case files (kernel primitive, evaluation only)',
        'the recorder wraps scipy.linalg.eigh/eig and scipy.sparse.linalg.eigsh/eigs as module attributes (patching from outside, restored after each call)',
    ]
    vlib.audit(ctx)
    if not vlib.ensure_static(ctx):
        return
    # ---- (T) the state machine of _sparse_eigs regenerated from the source: the "no shift" test must be the exact `== 0`
    import gen_C11, py2coq
    gen_ok, gerr = True, ''
    try:
        pgen = ctx.write_gen('SparseEigsGen.v', gen_C11.gen_sparse_eigs(vlib.REPO))
        gen_ok, _, gerr = vlib.compile_file(ctx, pgen, 'gen:SparseEigsGen.v compiles', 'translator')
    except py2coq.Unsupported as e:
        ctx.obligation('gen:SparseEigsGen.v translation', 'translator', False, str(e))
        gen_ok, gerr = False, str(e)
    if gen_ok:
        gen_ok, _, gerr = vlib.compile_file(ctx, os.path.join(ctx.bridge_dir, 'SparseEigsBridge.v'),
                                            'bridge:SparseEigsBridge (regenerated state machine of _sparse_eigs = Model/Eig.v sparse_eigs; '
                                            'a non-zero shift, however small, is factorised)', 'bridge')
    if not gen_ok:
        ctx.violation('proof', 'pymoto/modules/linalg.py:EigenSolve._sparse_eigs', 'generated state machine equals Model/Eig.v',
                      'translator/bridge', dict(error=gerr[-3000:]), theorem='BridgeC11.SparseEigsBridge')
    vlib.check_props(ctx)

    rec = Recorder()
    rng = np.random.default_rng(ctx.seed)
    specs = []
    if getattr(ctx, 'replay', None):
        rp = json.load(open(ctx.replay))
        c = rp.get('case', {})
        specs = [c['spec']] if 'spec' in c else []
    else:
        for p in sorted(glob.glob(os.path.join(vlib.ROOT, 'corpus', 'C11', '*.json'))):
            for s in json.load(open(p)):
                s['stream'] = 'corpus'
                specs.append(s)
        q = ctx.quick()
        nd, ns, nf, nmal = (300, 60, 10, 40) if q else (3000, 500, 60, 300)
        nmax = 6 if q else 8
        for i in range(nd):
            s = gen_dense_spec(rec, rng, nmax, i)
            if s:
                specs.append(s)
        for i in range(ns):
            s = gen_small_sparse_spec(rec, rng, i, not q)
            if s:
                specs.append(s)
        for i in range(nf):
            s = gen_fe_spec(pym, rec, rng, i)
            if s:
                specs.append(s)
        for i in range(nmal):
            s = gen_malformed_spec(rec, rng, i)
            if s:
                specs.append(s)
        # own generator: the plan above does not disturb the streams of the other generators
        specs += gen_scaled_specs(pym, rec, np.random.default_rng(ctx.seed + 7919), q)
        specs += gen_option_specs(pym, rec, np.random.default_rng(ctx.seed + 104729), q)

    small, big = [], []      # (expr, spec)
    nval = 0
    for si, spec in enumerate(specs):
        try:
            obs = run_spec(pym, spec, ctx.seed * 1000003 + si)
        except Exception as e:     # harness problem: report, do not hide
            ctx.violation('correspondence', 'harness', 'case runs', spec.get('stream', '?'), dict(spec=spec_public(spec), error=repr(e)),
                          theorem='harness')
            continue
        illcond = False
        sigma_now, nmodes_now = spec['kwargs'].get('sigma'), spec['kwargs'].get('nmodes')
        for o, ob in zip(spec['ops'], obs):
            if o['op'] == 'sigma':
                sigma_now = o['value']
                continue
            ob['an'] = analyse_call(ob, rec)
            if ob['an']['kappa'] > KAPPA_MAX:
                if spec['stream'] not in ('malformed', 'corpus'):
                    illcond = True
                elif not isinstance(ob['out'], str):
                    # (nearly) isotropic vectors that happen not to trip the assertion: the normalisation is ill-conditioned,
                    # only the dispatch is compared
                    o['level'] = 1
                    ctx.count('ill-conditioned normalisation in malformed/corpus stream: dispatch only')
            if ob['an']['rawW'] is not None:
                nval += 1
        if illcond:
            ctx.count('rejected:ill-conditioned normalisation')
            continue
        if spec['stream'] != 'malformed' and any(ob is not None and ob['an']['rawW'] is not None and
                                                 keys_ambiguous(spec['sort'], ob['an']['rawW'], ob['an']['rawQ']) for ob in obs):
            ctx.count('rejected:tied sorting keys (order unspecified)')
            continue
        if any(ob is not None and (ob['an']['unobservable'] or (not ob['an']['recorded'] and o.get('level', 0) == 1))
               for o, ob in zip(spec['ops'], obs)):
            ctx.count('skipped:library call neither recorded nor reproducible')
            continue
        # expected outcome recorded in corpus entries
        if 'expect' in spec:
            last = [ob for ob in obs if ob is not None][-1]['out']
            got = last if isinstance(last, str) else 'ok'
            if got != spec['expect']:
                ctx.violation('correspondence', 'EigenSolve._response', 'corpus expectation', spec['name'],
                              dict(spec=spec_public(spec)), expected=spec['expect'], got=got)
        try:
            expr, info = emit_case(spec, obs)
        except Exception as e:
            ctx.violation('correspondence', 'harness', 'case can be written', spec.get('stream', '?'),
                          dict(spec=spec_public(spec), error=repr(e)), theorem='harness')
            expr, info = None, dict(cplx=False)
        n = spec.get('n', 0) or len(todense(obs[0]['A'])) if obs and obs[0] else 0
        if expr is not None:
            (big if len(expr) > 20000 else small).append((expr, spec))
            ctx.case((spec['stream'], spec['sort'], expr[:20000]), nontrivial=(n >= 2),
                     sample=dict(name=spec['name'], cls=spec.get('cls'), sort=spec['sort'], kwargs=spec['kwargs'], coq=expr[:300]))
        ctx.count('stream:' + spec['stream'])
        if spec['stream'] == 'options':
            kw_ = spec['kwargs']
            dn = 'sparse' if spec['ops'][0]['A'].get('sparse') else 'dense'
            if len({bool(o['A'].get('sparse')) for o in spec['ops'] if o['op'] == 'call'}) > 1:
                dn = 'sparse-then-dense'
            n_ = spec.get('n', 0)
            nm_ = kw_.get('nmodes')
            ctx.count(f'options:{dn} nmodes ' + ('None' if nm_ is None else '0' if nm_ == 0 else '1' if nm_ == 1 else 'k<n' if nm_ < n_ else 'n' if nm_ == n_ else '>n'))
            ctx.count(f'options:{dn} sigma ' + ('None' if kw_.get('sigma') is None else 'zero' if kw_['sigma'] == 0 else 'nonzero'))
            ctx.count(f'options:{dn} mode ' + str(kw_.get('mode')))
            ctx.count(f'options:{dn} hermitian ' + str(kw_.get('hermitian')))
            ctx.count(f'options:{dn} sort ' + spec['sort'][0])
            try:
                oracle_neutral(ctx, pym, spec, obs, ctx.seed * 1000003 + si)
            except Exception as e:
                ctx.violation('correspondence', 'harness', 'oracle runs', 'options', dict(spec=spec_public(spec), error=repr(e)), theorem='harness')
        ctx.count('class:' + str(spec.get('cls')))
        ctx.count('sort:' + spec['sort'][0])
        ctx.count('instance:' + ('Q[i]' if info['cplx'] else 'Q'))
        ctx.count('calls-per-history:%d' % sum(1 for o in spec['ops'] if o['op'] == 'call'))
        sigma_now = spec['kwargs'].get('sigma')
        for o, ob in zip(spec['ops'], obs):
            if o['op'] == 'sigma':
                ctx.count('op:set-sigma')
                sigma_now = o['value']
                continue
            an = ob['an']
            ctx.count('routine:' + str(an['fun']))
            ctx.count('outcome:' + (ob['out'] if isinstance(ob['out'], str) else 'ok'))
            if an['fun'] in ('EIGSH', 'EIGS'):
                ctx.count('sigma:' + ('None' if sigma_now is None else 'zero' if sigma_now == 0 else 'nonzero'))
                ctx.count('nmodes:' + str(nmodes_now))
            if an['strict'] and not all(an['strict']):
                ctx.count('columns compared up to sign', sum(1 for b in an['strict'] if not b))
            if not an['recorded'] and not isinstance(ob['out'], str):
                ctx.count('library call not recorded (fallback: idempotence)')
            try:
                oracle_call(ctx, rec, spec, o, ob, sigma_now, nmodes_now)
            except Exception as e:
                ctx.violation('correspondence', 'harness', 'oracle runs', spec.get('stream', '?'),
                              dict(spec=spec_public(spec), error=repr(e)), theorem='harness')
    ctx.oracle_validation['library result satisfies A q = lambda M q (re-checked in Coq at 1e-8)'] = nval

    allc = small + big
    ctx.extra['seconds_python_side'] = round(__import__('time').time() - ctx.t0, 1)
    failing, errs = [], []
    if small:
        f, e = vlib.run_cases(ctx, 'small', HEADER, [x[0] for x in small], chunk=24)
        failing += f
        errs.append(e)
    if big:
        f, e = vlib.run_cases(ctx, 'big', HEADER, [x[0] for x in big], chunk=2)
        failing += [len(small) + i for i in f]
        errs.append(e)
    err = '\n'.join(x for x in errs if x)
    ctx.obligation('correspondence:case files evaluated', 'correspondence', not err, err)
    if err:
        ctx.violation('correspondence', 'EigenSolve', 'case files compile', 'harness', dict(error=err[-3000:]), theorem='cases')
    ctx.extra['failing_cases'] = [allc[i][1]['name'] + ' ' + str(allc[i][1].get('cls')) + ' ' + str(allc[i][1]['sort']) for i in failing[:50]]
    for idx in failing[:20]:
        expr, spec = allc[idx]
        ctx.violation('correspondence', 'EigenSolve._response', 'model == implementation', spec['stream'] + ':' + str(spec.get('cls')),
                      dict(spec=spec_public(spec), coq_check=expr[:3000]), note='Coq model of EigenSolve and implementation differ')


if __name__ == '__main__':
    vlib.main(run, 'C11')
