"""C14 — call histories of OverhangFilter instances (helper of tools/checks/C14.py).

One scenario = ONE DomainDefinition object, some input Signals, some OverhangFilter instances on that domain (each with
its own direction / nsampling / parameters, connected to one of the signals; several instances may read the same
signal) and a list of events executed in order on the real implementation:

    ('set', s, x)      signal_s.state = <fresh array x>
    ('all', s, x)      signal_s.state[:] = x                  in place (the array object the signal holds is kept)
    ('at',  s, i, v)   signal_s.state[i] = v                  in place
    ('at+', s, i, h)   signal_s.state[i] += h                 in place (what pymoto.finite_difference does)
    ('resp', j)        instance_j.response()                  -> observation: copy of its output signal's state
    ('seed', j, w)     output_signal_j.sensitivity = w
    ('sens', j)        instance_j.sensitivity()
    ('reset', j)       instance_j.reset()

The same event list is (a) written into the Coq case files as a `list (event Q)` and evaluated on the model with memory
(Model/OverhangHist.v: run_Q), every response compared inside Coq; (b) used by the implementation-side oracle: every
response of the history is compared with the naive layer-by-layer scheme of the CURRENT input, with a fresh instance
(new domain, new signal, new filter) and with the base-layer / no-overshoot clauses.
"""
from fractions import Fraction
import math
import numpy as np

DIRS2 = [(0, 1), (0, -1), (1, 1), (1, -1)]
DIRS3 = DIRS2 + [(2, 1), (2, -1)]


def spell(rng, axis, sign, dim):
    """a spelling of an axis direction: string (sign before / after, upper case) or vector (scaled, length 2 or 3)"""
    kind = rng.choice(['pre', 'post', 'vec', 'vec-scaled', 'vec2'])
    c = 'xyz'[axis]
    if kind == 'pre':
        return ('+' if sign > 0 else '-') + (c.upper() if rng.random() < 0.3 else c)
    if kind == 'post':
        return c + ('+' if sign > 0 else '-')
    v = [0.0, 0.0, 0.0]
    v[axis] = float(sign) * (1.0 if kind == 'vec' else rng.choice([2.0, 0.25, 5.0]))
    if kind == 'vec2' and axis < 2:
        return v[:2]
    return v


def nlayers(grid, axis):
    return (grid[0], grid[1], max(grid[2], 1))[axis]


def build_scenarios(rng, quick, big):
    """-> list of dict(tag, grid, nsig, insts=[dict(src, axis, sign, direction, ns)], script)
    script: list of abstract steps; the values (fields, seeds, entries) are filled in by `instantiate`.
    big = larger grids (oracle with float parameters); otherwise the small grids of the exact rational model."""
    out = []

    def inst(grid, src, axis, sign, ns):
        dim = 2 if grid[2] == 0 else 3
        return dict(src=src, axis=axis, sign=sign, direction=spell(rng, axis, sign, dim), ns=ns)

    # A. one instance, one signal: the optimisation-loop history (>= 3 layers in every print direction)
    script_a = [('resp', 0), ('all', 0), ('resp', 0), ('at', 0), ('resp', 0), ('at+', 0), ('resp', 0),
                ('seed', 0), ('sens', 0), ('reset', 0), ('resp', 0), ('set', 0), ('resp', 0),
                ('seed', 0), ('sens', 0), ('all', 0), ('resp', 0), ('reset', 0), ('resp', 0),
                ('at+', 0), ('at+', 0), ('seed', 0), ('sens', 0), ('sens', 0), ('reset', 0), ('resp', 0)]
    g2 = (6, 5, 0) if big else (4, 3, 0)
    g3 = (4, 5, 4) if big else (3, 4, 3)
    for (axis, sign) in DIRS2:
        out.append(dict(tag='single-instance', grid=g2, nsig=1, insts=[inst(g2, 0, axis, sign, rng.choice([None, 3]))],
                        script=script_a))
    for t, (axis, sign) in enumerate(DIRS3):
        out.append(dict(tag='single-instance', grid=g3, nsig=1, insts=[inst(g3, 0, axis, sign, (5, 9, None)[t % 3])],
                        script=script_a))
    # B. every direction as its own instance on ONE domain, two signals, interleaved evaluation orders
    for grid in ((5, 4, 0) if big else (3, 4, 0), (4, 3, 4) if big else (3, 3, 3)):
        dirs = DIRS2 if grid[2] == 0 else DIRS3
        insts = [inst(grid, j % 2, axis, sign, 3 if grid[2] == 0 else (5, 9)[(j // 2) % 2]) for j, (axis, sign) in enumerate(dirs)]
        n = len(insts)
        order = list(range(n))
        script = [('resp', j) for j in order]
        script += [('all', 0)] + [('resp', j) for j in reversed(order)]
        script += [('seed', 1), ('sens', 1), ('seed', n - 1), ('sens', n - 1), ('at', 1), ('at+', 0)]
        perm = order[:]
        rng.shuffle(perm)
        script += [('resp', j) for j in perm] + [('reset', 1), ('set', 0), ('reset', n - 1)]
        script += [('resp', j) for j in order[::2]] + [('resp', j) for j in order[1::2]]
        out.append(dict(tag='multi-instance', grid=grid, nsig=2, insts=insts, script=script))
    # C. 3-D domains with a size-1 axis: every print direction x nsampling {default, 5, 9} on one domain and one signal
    thin = [(1, 3, 3), (3, 1, 3), (3, 3, 1), (1, 1, 3), (1, 3, 1), (3, 1, 1), (1, 1, 1)]
    if big:
        thin = [(1, 5, 4), (5, 1, 4), (5, 4, 1), (1, 1, 5), (1, 5, 1), (5, 1, 1), (1, 1, 1), (2, 6, 1), (6, 2, 1)]
    for grid in thin:
        insts = [inst(grid, 0, axis, sign, ns) for (axis, sign) in DIRS3 for ns in (None, 5, 9)]
        n = len(insts)
        perm = list(range(n))
        rng.shuffle(perm)
        script = [('resp', j) for j in range(n)] + [('seed', perm[0]), ('sens', perm[0]), ('all', 0)] + \
                 [('resp', j) for j in perm] + [('reset', perm[0])]
        out.append(dict(tag='size-1-axis', grid=grid, nsig=1, insts=insts, script=script))
    # D. random histories
    for t in range(6 if quick else 40):
        dim = 2 if t % 2 == 0 else 3
        hi = 6 if big else 4
        grid = (rng.randint(1, hi), rng.randint(1, hi), 0 if dim == 2 else rng.randint(1, hi - 1))
        dirs = DIRS2 if dim == 2 else DIRS3
        nsig = rng.choice((1, 2))
        insts = []
        for j in range(rng.randint(1, 3)):
            axis, sign = rng.choice(dirs)
            insts.append(inst(grid, rng.randrange(nsig), axis, sign, 3 if dim == 2 else rng.choice((None, 5, 9))))
        responded = set()
        script = []
        for _ in range(rng.randint(8, 16)):
            kind = rng.choice(['resp', 'resp', 'resp', 'all', 'at', 'at+', 'set', 'seed-sens', 'reset'])
            j = rng.randrange(len(insts))
            if kind == 'resp':
                script.append(('resp', j))
                responded.add(j)
            elif kind == 'seed-sens':
                if j in responded:
                    script += [('seed', j), ('sens', j)]
            elif kind == 'reset':
                script.append(('reset', j))
            else:
                script.append((kind, rng.randrange(nsig)))
        script += [('resp', j) for j in range(len(insts))]
        out.append(dict(tag='random-history', grid=grid, nsig=nsig, insts=insts, script=script))
    return out


def instantiate(rng, sc, field, entry, step):
    """fill the abstract script with values: field(nel) -> a design (list), entry() -> one density,
    step(v) -> a finite-difference-like increment for an entry whose current value is v (keeps it in [0, 1]).
    Returns (initial signals, events)."""
    a, b, c = sc['grid']
    nel = a * b * max(c, 1)
    sigs = [field(nel) for _ in range(sc['nsig'])]
    cur = [list(x) for x in sigs]
    events = []
    for st in sc['script']:
        k = st[0]
        if k in ('set', 'all'):
            x = field(nel)
            cur[st[1]] = list(x)
            events.append((k, st[1], x))
        elif k == 'at':
            i, v = rng.randrange(nel), entry()
            cur[st[1]][i] = v
            events.append((k, st[1], i, v))
        elif k == 'at+':
            i = rng.randrange(nel)
            h = step(cur[st[1]][i])
            cur[st[1]][i] = cur[st[1]][i] + h
            events.append((k, st[1], i, h))
        elif k == 'seed':
            events.append((k, st[1], [Fraction(rng.randint(-8, 8), 4) for _ in range(nel)]))
        else:
            events.append(st)
    return sigs, events


class Patched:
    """Signal.__init__ inspects the call stack (~5 ms): patch the helper while many signals are built"""
    def __init__(self, pym):
        import pymoto.core_objects as co
        self.co = co

    def __enter__(self):
        self.old = getattr(self.co, 'get_init_str', None)
        if self.old is not None:
            self.co.get_init_str = lambda *a, **k: ''
        return self

    def __exit__(self, *exc):
        if self.old is not None:
            self.co.get_init_str = self.old
        return False


def drive(pym, sc, sigs0, events, params):
    """run the history on the implementation.  params[j] = dict(xi_0, p, eps) (floats) of instance j.
    -> (observations, problems, dom); observation = dict(pos, j, out, x) with x = contents of the input signal when
    response() was called; problems = list of (predicate, detail) found on the way (a module call replaced / modified
    the array of an input signal, the output aliases the input, the direction attribute changed).
    Vector directions are handed over as numpy arrays which the caller overwrites right after construction."""
    a, b, c = sc['grid']
    dom = pym.DomainDefinition(a, b, c)
    signals = [pym.Signal(f'x{s}', np.array([float(v) for v in x], dtype=np.float64)) for s, x in enumerate(sigs0)]
    mods, dirs0 = [], []
    obs, problems = [], []
    for j, ins in enumerate(sc['insts']):
        d = ins['direction']
        darr = d if isinstance(d, str) else np.array(d, dtype=np.float64)
        mods.append(pym.OverhangFilter(signals[ins['src']], domain=dom, direction=darr, nsampling=ins['ns'], **params[j]))
        if not isinstance(d, str):
            if not np.array_equal(darr, np.array(d, dtype=np.float64)):
                problems.append(('the constructor leaves the caller\'s direction array unchanged', dict(instance=j)))
            darr[:] = -7.0 * darr[::-1] + 1.0     # the caller re-uses its array
        dirs0.append(np.array(mods[-1].direction, dtype=np.float64, copy=True))
        expect = [0.0, 0.0, 0.0]
        expect[ins['axis']] = float(ins['sign'])
        if dirs0[-1].tolist() != expect:
            problems.append(('direction attribute is the requested axis direction',
                             dict(instance=j, expected=expect, got=dirs0[-1].tolist())))

    def guarded(pos, what, fn):
        held = [s.state for s in signals]
        before = [h.copy() for h in held]
        fn()
        for s, (sig, h, bf) in enumerate(zip(signals, held, before)):
            if sig.state is not h:
                problems.append((f'{what} leaves the input signal holding the same array', dict(pos=pos, signal=s)))
            elif not np.array_equal(h, bf):
                problems.append((f'{what} leaves the array of the input signal unchanged',
                                 dict(pos=pos, signal=s, before=bf.tolist(), after=h.tolist())))

    for pos, ev in enumerate(events):
        k = ev[0]
        if k == 'set':
            signals[ev[1]].state = np.array([float(v) for v in ev[2]], dtype=np.float64)
        elif k == 'all':
            signals[ev[1]].state[:] = np.array([float(v) for v in ev[2]], dtype=np.float64)
        elif k == 'at':
            signals[ev[1]].state[ev[2]] = float(ev[3])
        elif k == 'at+':
            signals[ev[1]].state[ev[2]] += float(ev[3])
        elif k == 'resp':
            j = ev[1]
            x = signals[sc['insts'][j]['src']].state.copy()
            guarded(pos, 'response()', mods[j].response)
            out = np.array(mods[j].sig_out[0].state, dtype=np.float64, copy=True)
            if np.shares_memory(mods[j].sig_out[0].state, signals[sc['insts'][j]['src']].state):
                problems.append(('the output state does not share memory with the input array', dict(pos=pos, instance=j)))
            obs.append(dict(pos=pos, j=j, out=out, x=x))
        elif k == 'seed':
            mods[ev[1]].sig_out[0].sensitivity = np.array([float(v) for v in ev[2]], dtype=np.float64)
        elif k == 'sens':
            guarded(pos, 'sensitivity()', mods[ev[1]].sensitivity)
        elif k == 'reset':
            guarded(pos, 'reset()', mods[ev[1]].reset)
        else:
            raise ValueError(k)
    for j, m in enumerate(mods):
        if not np.array_equal(np.asarray(m.direction, dtype=np.float64), dirs0[j]):
            problems.append(('direction attribute unchanged by the history',
                             dict(instance=j, expected=dirs0[j].tolist(), got=np.asarray(m.direction).tolist())))
    return obs, problems, dom


def events_json(events):
    out = []
    for ev in events:
        out.append([ev[0]] + [([float(v) for v in e] if isinstance(e, list) else (float(e) if isinstance(e, Fraction) else e))
                              for e in ev[1:]])
    return out


# ---------------------------------------------------------------------------------------------------------------
# Coq literals of a history
def coq_events(events, sigs0, ql, qlit):
    """-> (Coq term of type list (event Q)); 'at+' is written as the absolute value it produces (exact: dyadic data)"""
    cur = [list(x) for x in sigs0]
    terms = []
    for ev in events:
        k = ev[0]
        if k == 'set':
            cur[ev[1]] = list(ev[2])
            terms.append(f'SetSig {ev[1]} {ql(ev[2])}%Q')
        elif k == 'all':
            cur[ev[1]] = list(ev[2])
            terms.append(f'WriteAll {ev[1]} {ql(ev[2])}%Q')
        elif k in ('at', 'at+'):
            v = ev[3] if k == 'at' else cur[ev[1]][ev[2]] + ev[3]
            cur[ev[1]][ev[2]] = v
            terms.append(f'WriteAt {ev[1]} {ev[2]} {qlit(v)}%Q')
        elif k == 'resp':
            terms.append(f'Respond {ev[1]}')
        elif k == 'seed':
            terms.append(f'Seed {ev[1]} {ql(ev[2])}%Q')
        elif k == 'sens':
            terms.append(f'Sens {ev[1]}')
        elif k == 'reset':
            terms.append(f'Reset {ev[1]}')
    return '[' + '; '.join(terms) + ']'
