#!/bin/bash
# usage: _zi_check.sh Cxx [args]   (like ./check but through the development driver)
HERE=/verif
PID="$1"
export PYTHONPATH="${VERIF_REPO:-/repo}:$HERE/tools:$HERE/tools/checks"
export PYTHONHASHSEED=0 OMP_NUM_THREADS=1 OPENBLAS_NUM_THREADS=1 MKL_NUM_THREADS=1 MPLBACKEND=Agg PYTHONDONTWRITEBYTECODE=1 PYMOTO_VERIF=1
export OCAMLRUNPARAM="${OCAMLRUNPARAM:-s=4M,i=256M}"
ulimit -v 24000000 2>/dev/null || true
cd "$HERE"
exec /venv/bin/python -W ignore "$HERE/tools/checks/_zi_run.py" "$@"
