"""C12 — element-level operators reproduce affine fields exactly and agree with assembly."""
import os, json, glob, itertools
from fractions import Fraction
import numpy as np
import vlib
from vlib import zl, ql, zlit, qlit

HEADER = '''From Coq Require Import ZArith QArith List Bool.
From Bignums Require Import BigQ.
From Pymoto Require Import Base.Num Base.Cmp Base.Qsqrt3 Base.SparseLin Base.FEMat Base.SpCanon.
From Pymoto Require Import Model.Grid Model.Shape Model.ElemMat Model.Assembly Model.ElemOps.
Import ListNotations.
Open Scope Z_scope.
Definition G (a b c : Z) := {| nelx := a; nely := b; nelz := c |}.
Definition rel (s : Q) : Q := ((1 # 1000000000) * s)%Q.
Definition inj (q : Q) : Bs3 := s3_of (bq q).
Definition injl (h : list Q) : list Bs3 := s3_injl (bql h).
Definition R3 : Bs3 := s3_root.
(* operator arrays of the derived modules: evaluated in Q(sqrt 3); the sqrt(3) part must vanish *)
Definition rat (em : @opmat Bs3) : @opmat bigQ :=
  {| om_lead := om_lead em; om_kd := om_kd em; om_rows := s3_ratm (om_rows em) |}.
Definition israt (em : @opmat Bs3) : bool := s3_rational_m (om_rows em).
Definition OM (lead : list Z) (kd : Z) (rows : list (list Q)) : @opmat bigQ :=
  {| om_lead := lead; om_kd := kd; om_rows := bqm rows |}.
Definition strainM (d : nat) (h : list Q) (v : bool) := strain_opmat R3 d (injl h) v.
Definition stressM (d : nat) (h : list Q) (E nu : Q) (mode : Z) := stress_opmat R3 d (injl h) (inj E) (inj nu) mode.
Definition thermoM (d : nat) (h : list Q) (E nu al : Q) (mode : Z) := thermo_opmat R3 d (injl h) (inj E) (inj nu) (inj al) mode.
Definition avgM (d : nat) (h : list Q) : @opmat bigQ := average_opmat d (bql h).
'''

ERR = {None: 0, 'TypeError': 1, 'ValueError': 2, 'IndexError': 3, 'AssertionError': 4, 'RuntimeError': 5}
MODES = {'strain': 0, 'stress': 1, 'Plane-Strain': 0, 'plane stress': 1}
KNOWN = ('Strain._prepare', 'strain_affine.shear_component', 'gradient with non-zero shear part')


def fr(x):
    return Fraction(float(x))


def qmat(a):
    a = np.asarray(a, dtype=float)
    return ql([[fr(v) for v in r] for r in a]) + '%Q'


def qvec(a):
    return ql([fr(v) for v in np.asarray(a, dtype=float).ravel()]) + '%Q'


def err_name(e):
    n = type(e).__name__
    return n if n in ERR else 'Other'


def rand_sizes(rng, exact):
    if exact:
        return [float(Fraction(rng.choice((1, 2, 3, 4, 6, 8)), rng.choice((1, 2, 4, 8)))) for _ in range(3)]
    return [rng.randint(2, 40) / rng.randint(3, 13) for _ in range(3)]


def rand_grid(rng, dim=None, small=False):
    dim = dim or rng.choice((2, 2, 3))
    if dim == 2:
        return rng.randint(1, 4), rng.randint(1, 3), 0
    if small:
        return rng.randint(1, 2), rng.randint(1, 2), rng.randint(1, 2)
    return rng.randint(1, 4), rng.randint(1, 3), rng.randint(1, 3)


def affine_field(d, Gm, c):
    pos = d.get_node_position().T          # (nnodes, dim)
    return (pos @ np.asarray(Gm, dtype=float).T + np.asarray(c, dtype=float)).ravel()


def run(ctx):
    import pymoto as pym
    rng = ctx.rng
    ctx.rule = ('cases: (a) ElementOperation / NodalOperation with random integer operator arrays of 0-D..3-D leading shape, last axis '
                '#dofs_per_element or #nodes_per_element (repeat-per-dof branch), integer nodal/element data, grids up to 4x3x3, ndof 1..3: '
                'response AND sensitivity compared exactly, output shape compared; (b) Strain(voigt True/False) / Stress / ElementAverage / '
                'ThermoMechanical: operator array (element_matrix) and responses on affine fields u = G x + c with integer gradients and on random '
                'fields, dyadic and non-dyadic element sizes (1e-9 relative; model evaluated in Q(sqrt 3), sqrt(3)-part must vanish; ElementAverage '
                'exact for dyadic sizes); (c) malformed stream: exception class. non-trivial = grid with >= 2 elements; distinct by all parameters')
    ctx.assumptions += ['theorems are about exact (real) arithmetic; floats are tied by exact (integer/dyadic data) or 1e-9 relative comparison',
                        '2-D Stress/ThermoMechanical include the out-of-plane thickness element_size[2] exactly as the code does (D *= element_size[2])',
                        'np.einsum / np.add.at are read as the sums they denote (order of floating additions is not modelled)',
                        'a module instance is used with one vector size only (the cached dofconn / repeated operator of ElementOperation is history, C03)']
    ctx.trusted += ['Print Assumptions: real-number theorems rely on the Coq stdlib Reals axioms (ClassicalDedekindReals.sig_forall_dec, '
                    'sig_not_dec, FunctionalExtensionality.functional_extensionality_dep)',
                    'Bignums (BigQ on 63-bit machine integers) is used to EVALUATE the models in the correspondence check only',
                    'np.count_nonzero on the float B matrix is modelled by the exact zero test of the exact B matrix']
    vlib.audit(ctx)
    if not vlib.ensure_static(ctx, ['theories/Props/C12.vo', 'theories/Base/SpCanon.vo', 'theories/Base/Cmp.vo', 'theories/Model/ElemOps.vo']):
        return
    vlib.check_props(ctx)

    checks, labels, replay = [], [], []

    def add(label, expr, nontrivial=True, case=None):
        checks.append(expr)
        labels.append(label)
        replay.append(case)
        ctx.case(label, nontrivial, sample=dict(case=str(label)[:200], coq=expr[:300]))

    quick = ctx.quick()
    ocases = []      # for the oracle

    # ---------------------------------------------------------------- corpus
    corpus = []
    for path in sorted(glob.glob(os.path.join(vlib.ROOT, 'corpus', 'C12', '*.json'))):
        with open(path) as f:
            for c in json.load(f)['cases']:
                c['corpus'] = os.path.basename(path)
                corpus.append(c)
                ctx.count('corpus')

    # ---------------------------------------------------------------- (a) generic ElementOperation / NodalOperation
    def generic_case(c):
        a, b, cz = c['grid']
        d = pym.DomainDefinition(a, b, cz)
        g = f'(G {a} {b} {cz})'
        en = d.elemnodes
        EM = np.array(c['em'], dtype=float)
        lead = list(EM.shape[:-1])
        kd = EM.shape[-1]
        rows = EM.reshape(-1, kd)
        om = f'(OM {zl(lead)} {kd} {qmat(rows)})'
        nt = d.nel >= 2
        label = (c['what'], tuple(c['grid']), tuple(EM.shape), c.get('ndof'), str(c.get('u'))[:120], c.get('malformed'), c.get('corpus'))
        if c['what'] == 'elemop':
            u = np.array(c['u'], dtype=float)
            err, y, du = None, None, None
            try:
                m = pym.ElementOperation(pym.Signal('u', u), domain=d, element_matrix=EM)
                m.response()
                y = np.array(m.sig_out[0].state, dtype=float)
                dy = np.array(c['dy'], dtype=float).reshape(y.shape) if c.get('dy') is not None else None
                if dy is not None:
                    m.sig_out[0].sensitivity = dy
                    m.sensitivity()
                    du = np.array(m.sig_in[0].sensitivity, dtype=float)
            except Exception as e:  # noqa
                err = err_name(e)
            ctx.count(f'ElementOperation lead{len(lead)}D dim{d.dim}' + (' malformed' if c.get('malformed') else ''))
            if err is not None or c.get('malformed'):
                ctx.count(f'error {err}')
                add(label, f'Z.eqb (eo_status {g} {om} {u.size}) {ERR.get(err, 6)}', nt, case=c)
                return
            parts = [f'Z.eqb (eo_status {g} {om} {u.size}) 0',
                     f'Zl_eqb (eo_shape {g} {om} {u.size}) {zl(list(y.shape))}',
                     f'bqm_close 0 (eo_response {g} {om} (bql {qvec(u)})) {qmat(y.reshape(-1, y.shape[-1]))}']
            if du is not None:
                parts.append(f'bql_close 0 (eo_sensitivity {g} {om} {u.size} (bqm {qmat(dy.reshape(-1, dy.shape[-1]))})) {qvec(du)}')
            add(label, ' && '.join(parts), nt, case=c)
            ocases.append(dict(kind='elemop', c=c, y=y))
        else:
            x = np.array(c['x'], dtype=float)
            err, f_, dx_ = None, None, None
            try:
                m = pym.NodalOperation(pym.Signal('x', x), domain=d, element_matrix=EM)
                m.response()
                f_ = np.array(m.sig_out[0].state, dtype=float)
                if c.get('df') is not None:
                    m.sig_out[0].sensitivity = np.array(c['df'], dtype=float)
                    m.sensitivity()
                    dx_ = np.array(m.sig_in[0].sensitivity, dtype=float)
            except Exception as e:  # noqa
                err = err_name(e)
            ctx.count(f'NodalOperation lead{len(lead)}D dim{d.dim}' + (' malformed' if c.get('malformed') else ''))
            if err is not None or c.get('malformed'):
                ctx.count(f'error {err}')
                add(label, f'Z.eqb (no_status {g} {om}) {ERR.get(err, 6)}', nt, case=c)
                return
            xr = x.reshape(-1, x.shape[-1])
            parts = [f'Z.eqb (no_status {g} {om}) 0',
                     f'bql_close 0 (no_response {g} {om} (bqm {qmat(xr)})) {qvec(f_)}']
            if dx_ is not None:
                parts.append(f'bqm_close 0 (no_sensitivity {g} {om} (bql {qvec(c["df"])})) {qmat(dx_.reshape(-1, dx_.shape[-1]))}')
            add(label, ' && '.join(parts), nt, case=c)
            ocases.append(dict(kind='nodalop', c=c, f=f_))

    def rand_lead(rng_):
        k = rng_.choice((0, 1, 1, 2, 2, 3))
        return [rng_.randint(1, 3) for _ in range(k)]

    gen = list(corpus)
    ngen = 60 if quick else 500
    for t in range(ngen):
        a, b, cz = rand_grid(rng)
        dim = 2 if cz == 0 else 3
        en = 2 ** dim
        nn = (a + 1) * (b + 1) * (cz + 1)
        nel = a * b * max(cz, 1)
        ndof = rng.choice((1, 2, 3)) if dim == 2 else rng.choice((1, 1, 2, 3))
        lead = rand_lead(rng)
        if rng.random() < 0.55:
            node_level = rng.random() < 0.45
            kd = en if node_level else en * ndof
            EM = [rng.randint(-4, 4) for _ in range(int(np.prod(lead)) * kd)]
            EM = np.array(EM, dtype=float).reshape(lead + [kd]).tolist()
            u = [rng.randint(-5, 5) for _ in range(nn * ndof)]
            oshape = ([ndof] if (node_level and ndof > 1) else []) + lead + [nel]
            dy = [rng.randint(-3, 3) for _ in range(int(np.prod(oshape)))]
            gen.append(dict(what='elemop', grid=[a, b, cz], em=EM, u=u, dy=dy, ndof=ndof))
        else:
            kd = en * ndof
            EM = np.array([rng.randint(-4, 4) for _ in range(int(np.prod(lead)) * kd)], dtype=float).reshape(lead + [kd]).tolist()
            x = np.array([rng.randint(-5, 5) for _ in range(int(np.prod(lead)) * nel)], dtype=float).reshape(lead + [nel]).tolist()
            df = [rng.randint(-3, 3) for _ in range(nn * ndof)]
            gen.append(dict(what='nodalop', grid=[a, b, cz], em=EM, x=x, df=df, ndof=ndof))
    # malformed
    for t in range(10 if quick else 50):
        a, b, cz = rand_grid(rng)
        dim = 2 if cz == 0 else 3
        en = 2 ** dim
        nn = (a + 1) * (b + 1) * (cz + 1)
        nel = a * b * max(cz, 1)
        what = rng.choice(('kd_prepare', 'usize', 'kd_assert', 'no_kd'))
        if what == 'kd_prepare':
            EM = np.ones((2, en + rng.choice((1, 2, 3)))).tolist()
            gen.append(dict(what='elemop', grid=[a, b, cz], em=EM, u=[1] * nn, dy=None, malformed=what))
        elif what == 'usize':
            gen.append(dict(what='elemop', grid=[a, b, cz], em=np.ones(en).tolist(), u=[1] * (nn + rng.choice((1, 2))) if nn > 2 else [1] * (nn + 1), dy=None, malformed=what))
        elif what == 'kd_assert':
            gen.append(dict(what='elemop', grid=[a, b, cz], em=np.ones(en * 2).tolist(), u=[1] * (nn * 3), dy=None, malformed=what))
        else:
            gen.append(dict(what='nodalop', grid=[a, b, cz], em=np.ones(en + 1).tolist(), x=[1] * nel, df=None, malformed=what))
    for c in gen:
        if c['what'] in ('elemop', 'nodalop'):
            generic_case(c)

    # ---------------------------------------------------------------- (b) derived modules
    def derived_case(c):
        a, b, cz = c['grid']
        hs = c['sizes']
        d = pym.DomainDefinition(a, b, cz, *hs)
        dim = d.dim
        g = f'(G {a} {b} {cz})'
        hq = ql([fr(h) for h in hs]) + '%Q'
        nt = d.nel >= 2
        kind = c['what']
        label = (kind, tuple(c['grid']), tuple(hs), str(c.get('kw')), str(c.get('G')), str(c.get('c0')), c.get('field'), c.get('corpus'),
                 str(c.get('x'))[:80])
        ctx.count(f'{kind} dim{dim}')
        if kind in ('strain', 'stress', 'average'):
            if c.get('field') == 'affine':
                u = affine_field(d, c['G'], c['c0']) if kind != 'average' else None
                if kind == 'average':
                    nd = c['kw']['ndof']
                    pos = d.get_node_position().T
                    u = (pos @ np.asarray(c['G'], dtype=float).T + np.asarray(c['c0'], dtype=float)).ravel()
            else:
                u = np.array(c['u'], dtype=float)
            s = pym.Signal('u', u)
            if kind == 'strain':
                m = pym.Strain(s, domain=d, voigt=c['kw']['voigt'])
                om = f'(strainM {dim}%nat {hq} {vlib.blit(c["kw"]["voigt"])})'
            elif kind == 'stress':
                kw = c['kw']
                m = pym.Stress(s, domain=d, e_modulus=kw['E'], poisson_ratio=kw['nu'], plane=kw['plane'])
                om = f'(stressM {dim}%nat {hq} {qlit(fr(kw["E"]))}%Q {qlit(fr(kw["nu"]))}%Q {MODES[kw["plane"]]})'
            else:
                m = pym.ElementAverage(s, domain=d)
                om = f'(avgM {dim}%nat {hq})'
            EMi = np.array(m.element_matrix, dtype=float)      # operator array as prepared
            m.response()
            y = np.array(m.sig_out[0].state, dtype=float)
            sc = max(1.0, float(np.abs(y).max()), float(np.abs(u).max()) * float(np.abs(EMi).max()))
            scE = max(1e-300, float(np.abs(EMi).max()))
            exact = kind == 'average' and c.get('exact')
            tolE = '0' if exact else f'(rel {qlit(fr(scE))})'
            tolY = '0' if exact else f'(rel {qlit(fr(sc))})'
            if kind == 'average':
                parts = [f'bqm_close {tolE} (om_rows {om}) {qmat(EMi.reshape(-1, EMi.shape[-1]))}',
                         f'Zl_eqb (eo_shape {g} {om} {u.size}) {zl(list(y.shape))}',
                         f'bqm_close {tolY} (eo_response {g} {om} (bql {qvec(u)})) {qmat(y.reshape(-1, y.shape[-1]))}']
                add(label, ' && '.join(parts), nt, case=c)
            else:
                parts = [f'israt M', f'bqm_close {tolE} (om_rows (rat M)) {qmat(EMi)}',
                         f'Zl_eqb (eo_shape {g} (rat M) {u.size}) {zl(list(y.shape))}',
                         f'bqm_close {tolY} (eo_response {g} (rat M) (bql {qvec(u)})) {qmat(y)}']
                add(label, f'(let M := {om} in ' + ' && '.join(parts) + ')', nt, case=c)
            ocases.append(dict(kind=kind, c=c, y=y, u=u, EM=EMi))
        elif kind == 'thermo':
            kw = c['kw']
            x = np.array(c['x'], dtype=float)
            m = pym.ThermoMechanical(pym.Signal('x', x), domain=d, e_modulus=kw['E'], poisson_ratio=kw['nu'], alpha=kw['alpha'], plane=kw['plane'])
            EMi = np.array(m.element_matrix, dtype=float)
            m.response()
            f_ = np.array(m.sig_out[0].state, dtype=float)
            om = f'(thermoM {dim}%nat {hq} {qlit(fr(kw["E"]))}%Q {qlit(fr(kw["nu"]))}%Q {qlit(fr(kw["alpha"]))}%Q {MODES[kw["plane"]]})'
            scE = max(1e-300, float(np.abs(EMi).max()))
            sc = max(1e-300, float(np.abs(f_).max()), scE * float(np.abs(x).max()))
            parts = ['israt M', f'bqm_close (rel {qlit(fr(scE))}) (om_rows (rat M)) {qmat(EMi.reshape(1, -1))}',
                     f'bql_close (rel {qlit(fr(sc))}) (no_response {g} (rat M) [bql {qvec(x)}]) {qvec(f_)}']
            add(label, f'(let M := {om} in ' + ' && '.join(parts) + ')', nt, case=c)
            ocases.append(dict(kind=kind, c=c, f=f_, EM=EMi))

    def rand_mat(r_):
        return r_.choice((1.0, 2.0, 67.0, r_.uniform(0.2, 300))), r_.choice((0.3, 0.0, 0.25, r_.uniform(-0.8, 0.45)))

    def rand_G(r_, dim, shear):
        Gm = [[r_.randint(-3, 3) for _ in range(dim)] for _ in range(dim)]
        if not shear:      # shear-free: skew-symmetric off-diagonal part
            for i in range(dim):
                for j in range(i):
                    Gm[i][j] = -Gm[j][i]
        elif all(Gm[i][j] + Gm[j][i] == 0 for i in range(dim) for j in range(i)):
            Gm[0][1] += 1
        return Gm

    der = [c for c in corpus if c['what'] in ('strain', 'stress', 'average', 'thermo')]
    nder = 44 if quick else 400
    for t in range(nder):
        kind = rng.choice(('strain', 'strain', 'stress', 'stress', 'average', 'thermo'))
        dim = rng.choice((2, 2, 3))
        a, b, cz = rand_grid(rng, dim=dim, small=(dim == 3 and rng.random() < 0.6))
        exact = rng.random() < 0.5
        hs = rand_sizes(rng, exact)
        nn = (a + 1) * (b + 1) * (cz + 1)
        nel = a * b * max(cz, 1)
        E, nu = rand_mat(rng)
        plane = rng.choice(list(MODES))
        if kind in ('strain', 'stress'):
            kw = dict(voigt=rng.random() < 0.7) if kind == 'strain' else dict(E=E, nu=nu, plane=plane)
            if rng.random() < 0.75:
                shear = rng.random() < 0.6
                der.append(dict(what=kind, grid=[a, b, cz], sizes=hs, kw=kw, field='affine', G=rand_G(rng, dim, shear),
                                c0=[rng.randint(-2, 2) for _ in range(dim)], x=[rng.choice((0.0, 1.0, 0.5, rng.uniform(0.01, 1))) for _ in range(nel)]))
            else:
                der.append(dict(what=kind, grid=[a, b, cz], sizes=hs, kw=kw, field='random', u=[rng.randint(-5, 5) for _ in range(nn * dim)]))
        elif kind == 'average':
            nd = rng.choice((1, 1, 2, 3))
            der.append(dict(what=kind, grid=[a, b, cz], sizes=hs, kw=dict(ndof=nd), field='affine', exact=exact,
                            G=[[rng.randint(-3, 3) for _ in range(dim)] for _ in range(nd)], c0=[rng.randint(-2, 2) for _ in range(nd)]))
        else:
            der.append(dict(what=kind, grid=[a, b, cz], sizes=hs, kw=dict(E=E, nu=nu, plane=plane, alpha=rng.choice((1e-6, 0.5, 1.0, rng.uniform(0.1, 2)))),
                            x=[rng.choice((0.0, 1.0, 0.5, rng.uniform(0.01, 1))) for _ in range(nel)] if rng.random() < 0.7 else [1.0] * nel))
    for c in der:
        derived_case(c)

    # balance the shards: 3-D cases in Q(sqrt 3) are the heavy ones
    def cost(e):
        heavy = ('stressM 3%nat' in e) or ('thermoM 3%nat' in e) or ('strainM 3%nat' in e)
        return (6 if heavy else 0.5 if 'M 2%nat' in e else 0.1) + len(e) / 30000.0
    chunk = 14 if quick else 24
    nsh = max(1, -(-len(checks) // chunk))
    order = sorted(range(len(checks)), key=lambda i: -cost(checks[i]))
    perm = [i for k in range(nsh) for i in order[k::nsh]]
    checks = [checks[i] for i in perm]
    labels = [labels[i] for i in perm]
    replay = [replay[i] for i in perm]
    chunk = max(len(order[k::nsh]) for k in range(nsh))
    failing, err = vlib.run_cases(ctx, 'ops', HEADER, checks, chunk=chunk, timeout=1500)
    ctx.obligation('correspondence:case files evaluated', 'correspondence', not err, err)
    if err:
        ctx.violation('correspondence', 'ElementOperation', 'case files compile', 'harness', dict(error=err[-3000:]), theorem='cases_ops')
    sites = dict(elemop='ElementOperation._response', nodalop='NodalOperation._response', strain='Strain._prepare', stress='Stress._prepare',
                 average='ElementAverage._prepare', thermo='ThermoMechanical._prepare')
    for idx in failing[:20]:
        lab = labels[idx]
        ctx.violation('correspondence', sites.get(lab[0], str(lab[0])), 'model == implementation', str(lab[0]),
                      dict(label=str(lab)[:1500], case=replay[idx], coq_check=checks[idx][:3000]), note='Coq model and implementation differ')
    oracle(ctx, pym, ocases)


# ---------------------------------------------------------------------------------------------------- oracle
def get_D_ref(E, nu, mode, dim):
    if dim == 3:
        c = E / ((1 + nu) * (1 - 2 * nu))
        D = np.zeros((6, 6))
        D[:3, :3] = c * nu
        D[np.arange(3), np.arange(3)] = c * (1 - nu)
        D[np.arange(3, 6), np.arange(3, 6)] = c * (1 - 2 * nu) / 2
        return D
    if mode == 0:
        c = E / ((1 + nu) * (1 - 2 * nu))
        return c * np.array([[1 - nu, nu, 0], [nu, 1 - nu, 0], [0, 0, (1 - 2 * nu) / 2]])
    return E / (1 - nu ** 2) * np.array([[1, nu, 0], [nu, 1, 0], [0, 0, (1 - nu) / 2]])


def true_strain(Gm, dim):
    """symmetric gradient in Voigt form with engineering shear; 3-D order xx yy zz yz zx xy"""
    Gm = np.asarray(Gm, dtype=float)
    if dim == 2:
        return np.array([Gm[0, 0], Gm[1, 1], Gm[0, 1] + Gm[1, 0]])
    return np.array([Gm[0, 0], Gm[1, 1], Gm[2, 2], Gm[1, 2] + Gm[2, 1], Gm[0, 2] + Gm[2, 0], Gm[0, 1] + Gm[1, 0]])


def oracle(ctx, pym, ocases):
    """the property, stated in numpy, on the implementation's outputs"""
    rs = np.random.default_rng(ctx.seed)
    for oc in ocases:
        ctx.search_evaluations += 1
        c = oc['c']
        kind = oc['kind']
        a, b, cz = c['grid']
        dim = 2 if cz == 0 else 3
        pub = {k: v for k, v in c.items()}

        def bad(site, pred, icls, expected=None, got=None):
            ctx.violation('impl-violates', site, pred, icls, pub, expected=expected, got=got)
        if kind in ('elemop', 'nodalop'):
            # NodalOperation is the transpose of ElementOperation for the same operator array
            d = pym.DomainDefinition(a, b, cz)
            EM = np.array(c['em'], dtype=float)
            kd = EM.shape[-1]
            if kd % d.elemnodes != 0:
                continue
            ndof = kd // d.elemnodes
            u = rs.integers(-4, 5, size=d.nnodes * ndof).astype(float)
            x = rs.integers(-4, 5, size=list(EM.shape[:-1]) + [d.nel]).astype(float)
            me = pym.ElementOperation(pym.Signal('u', u), domain=d, element_matrix=EM.copy())
            me.response()
            mn = pym.NodalOperation(pym.Signal('x', x), domain=d, element_matrix=EM.copy())
            mn.response()
            lhs = float(np.sum(me.sig_out[0].state * x))
            rhs = float(np.dot(mn.sig_out[0].state, u))
            if abs(lhs - rhs) > 1e-9 * max(1.0, abs(lhs)):
                bad('NodalOperation._response', '<x, ElementOperation(u)> == <NodalOperation(x), u>', f'dim{dim}', lhs, rhs)
            continue
        hs = c['sizes']
        d = pym.DomainDefinition(a, b, cz, *hs)
        if kind in ('strain', 'stress') and c.get('field') == 'affine':
            Gm = np.asarray(c['G'], dtype=float)
            eps = true_strain(Gm, dim)
            shear_nz = bool(np.any(np.abs(eps[dim:]) > 0))
            icls = 'gradient with non-zero shear part' if shear_nz else 'gradient with zero shear part'
            y = oc['y']
            sc = max(1.0, float(np.abs(Gm).max()))
            if kind == 'strain':
                voigt = c['kw']['voigt']
                exp = eps.copy()
                if not voigt:
                    exp[dim:] = exp[dim:] / 2      # tensor components eps_ij, as the docstring states for voigt=False
                if y.shape != (len(eps), d.nel):
                    bad('Strain._prepare', 'strain_affine.shape', icls, [len(eps), d.nel], list(y.shape))
                    continue
                if np.abs(y[:dim] - exp[:dim, None]).max() > 1e-9 * sc:
                    bad('Strain._prepare', 'strain_affine.normal_component', icls, exp[:dim].tolist(), y[:dim, 0].tolist())
                if np.abs(y[dim:] - exp[dim:, None]).max() > 1e-9 * sc:
                    bad('Strain._prepare', 'strain_affine.shear_component', icls, exp[dim:].tolist(), y[dim:, 0].tolist())
            else:
                kw = c['kw']
                D = get_D_ref(kw['E'], kw['nu'], MODES[kw['plane']], dim) * (hs[2] if dim == 2 else 1.0)
                sig = D @ eps
                ssc = max(1.0, float(np.abs(sig).max()), float(np.abs(D).max()) * sc)
                if y.shape != (len(eps), d.nel):
                    bad('Stress._prepare', 'stress_affine.shape', icls, [len(eps), d.nel], list(y.shape))
                    continue
                if np.abs(y[:dim] - sig[:dim, None]).max() > 1e-9 * ssc:
                    bad('Stress._prepare', 'stress_affine.normal_component', icls, sig[:dim].tolist(), y[:dim, 0].tolist())
                if np.abs(y[dim:] - sig[dim:, None]).max() > 1e-9 * ssc:
                    # the shear stress is D times the doubled shear strain of Strain._prepare: same finding
                    bad('Strain._prepare', 'strain_affine.shear_component', icls, sig[dim:].tolist(), y[dim:, 0].tolist())
                # stress is the constitutive matrix times the module's own strain
                ms = pym.Strain(pym.Signal('u', oc['u']), domain=d)
                ms.response()
                if np.abs(y - D @ ms.sig_out[0].state).max() > 1e-9 * ssc:
                    bad('Stress._prepare', 'stress == D @ strain', icls)
                # energy: sum_e x_e V_e sigma_e . eps_e == u^T K u  (2-D: D carries the thickness, V_e is the in-plane area)
                x = np.array(c['x'], dtype=float)
                mk = pym.AssembleStiffness(pym.Signal('x', x), domain=d, e_modulus=kw['E'], poisson_ratio=kw['nu'], plane=kw['plane'])
                mk.response()
                K = mk.sig_out[0].state
                uKu = float(oc['u'] @ (K @ oc['u']))
                Ve = float(np.prod(hs[:dim]))
                en_mod = float(np.sum(x * Ve * np.sum(y * ms.sig_out[0].state, axis=0)))
                if abs(en_mod - uKu) > 1e-9 * max(1.0, abs(uKu)):
                    # the energy identity inherits the doubled shear (4x shear energy) -- only with non-zero shear
                    bad('Strain._prepare', 'strain_affine.shear_component' if shear_nz else 'energy identity', icls, uKu, en_mod)
        elif kind == 'average':
            nd = c['kw']['ndof']
            Gm = np.asarray(c['G'], dtype=float)
            c0 = np.asarray(c['c0'], dtype=float)
            y = oc['y'].reshape(nd, d.nel) if nd > 1 else oc['y'].reshape(1, d.nel)
            nz = max(cz, 1)
            ok = True
            for k in range(nz):
                for j in range(b):
                    for i in range(a):
                        e = (k * b + j) * a + i
                        cen = (np.array([i, j, k][:dim]) + 0.5) * np.array(hs[:dim])
                        exp = Gm @ cen + c0
                        if np.abs(y[:, e] - exp).max() > 1e-9 * max(1.0, float(np.abs(exp).max())):
                            ok = False
            if not ok:
                bad('ElementAverage._prepare', 'element average of a linear nodal field is its centroid value', f'dim{dim}')
        elif kind == 'thermo':
            kw = c['kw']
            f_ = oc['f'].reshape(d.nnodes, dim)
            fsc = max(1e-300, float(np.abs(f_).max()))
            if np.abs(f_.sum(axis=0)).max() > 1e-9 * fsc * d.nnodes:
                bad('ThermoMechanical._prepare', 'thermal load is self-equilibrated', f'dim{dim}', 0.0, f_.sum(axis=0).tolist())
            if dim == 3 or MODES[kw['plane']] == 1:
                x = np.array(c['x'], dtype=float)
                mk = pym.AssembleStiffness(pym.Signal('x', x), domain=d, e_modulus=kw['E'], poisson_ratio=kw['nu'], plane=kw['plane'])
                mk.response()
                uexp = (kw['alpha'] * d.get_node_position().T).ravel()
                Ku = mk.sig_out[0].state @ uexp
                if np.abs(Ku - oc['f']).max() > 1e-9 * max(fsc, float(np.abs(Ku).max())):
                    bad('ThermoMechanical._prepare', 'thermal load equals K times the free thermal expansion field', f'dim{dim}')


if __name__ == '__main__':
    vlib.main(run, 'C12')
