"""C12 — element-level operators reproduce affine fields exactly and agree with assembly."""
import os, json, glob, itertools
from fractions import Fraction
import numpy as np
import vlib
from vlib import zl, ql, zlit, qlit
import c12_hist

HEADER = '''From Coq Require Import ZArith QArith List Bool.
From Bignums Require Import BigQ.
From Pymoto Require Import Base.Num Base.Cmp Base.Qsqrt3 Base.SparseLin Base.FEMat Base.SpCanon.
From Pymoto Require Import Model.Grid Model.Shape Model.ElemMat Model.Assembly Model.ElemOps.
Import ListNotations.
Open Scope Z_scope.
Definition G (a b c : Z) := {| nelx := a; nely := b; nelz := c |}.
Definition rel (s : Q) : Q := ((1 # 1000000000) * s)%Q.
Definition inj (q : Q) : Bs3 := s3_of (bq q).
Definition injl (h : list Q) : list Bs3 := s3_injl (bql h).
Definition R3 : Bs3 := s3_root.
(* operator arrays of the derived modules: evaluated in Q(sqrt 3); the sqrt(3) part must vanish *)
Definition rat (em : @opmat Bs3) : @opmat bigQ :=
  {| om_lead := om_lead em; om_kd := om_kd em; om_rows := s3_ratm (om_rows em) |}.
Definition israt (em : @opmat Bs3) : bool := s3_rational_m (om_rows em).
Definition OM (lead : list Z) (kd : Z) (rows : list (list Q)) : @opmat bigQ :=
  {| om_lead := lead; om_kd := kd; om_rows := bqm rows |}.
Definition strainM (d : nat) (h : list Q) (v : bool) := strain_opmat R3 d (injl h) v.
Definition stressM (d : nat) (h : list Q) (E nu : Q) (mode : Z) := stress_opmat R3 d (injl h) (inj E) (inj nu) mode.
Definition thermoM (d : nat) (h : list Q) (E nu al : Q) (mode : Z) := thermo_opmat R3 d (injl h) (inj E) (inj nu) (inj al) mode.
Definition avgM (d : nat) (h : list Q) : @opmat bigQ := average_opmat d (bql h).
''' + c12_hist.HEADER_EXTRA

ERR = {None: 0, 'TypeError': 1, 'ValueError': 2, 'IndexError': 3, 'AssertionError': 4, 'RuntimeError': 5}
MODES = {'strain': 0, 'stress': 1, 'Plane-Strain': 0, 'plane stress': 1}
KNOWN = ('Strain._prepare', 'strain_affine.shear_component', 'gradient with non-zero shear part')
# F32 (repaired): ElementOperation._sensitivity allocated zeros_like(state) and truncated the sensitivities of integer-typed nodal vectors
INTU = ('ElementOperation._sensitivity', 'sensitivity is the transpose of the operator (NodalOperation response for the same element matrix)',
        'integer-typed nodal vector')
SENS_PRED = INTU[1]
SHEAR_ORDER = 'strain_affine.shear components in Voigt order (up to the known factor 2)'
# how a constructor argument is handed over: Python / numpy scalar kinds of the element sizes
KINDS = {'float': float, 'int': int, 'np.float64': np.float64, 'np.int64': np.int64, 'np.int32': np.int32}
INT_KINDS = ('int', 'np.int64', 'np.int32')


def mk_sizes(hs, kinds=None):
    """element sizes as they are handed to DomainDefinition: kinds[i] names the scalar type of entry i (None: as stored)"""
    if kinds is None:
        return list(hs)
    out = []
    for h, k in zip(hs, kinds):
        if k in INT_KINDS:
            assert float(h) == int(h), (h, k)
            out.append(KINDS[k](int(h)))
        else:
            out.append(KINDS[k](h))
    return out


def mk_arr(data, dtype=None):
    """array of the named dtype (None: float64); the data must be representable (integers for integer dtypes)"""
    a = np.array(data, dtype=float)
    if dtype in (None, 'float64'):
        return a
    b = a.astype(np.dtype(dtype))
    assert np.array_equal(b.astype(float), a), (dtype, 'data not representable')
    return b


def is_int_valued(a):
    a = np.asarray(a, dtype=float)
    return bool(np.all(a == np.round(a)))


def fr(x):
    return Fraction(float(x))


def qmat(a):
    a = np.asarray(a, dtype=float)
    return ql([[fr(v) for v in r] for r in a]) + '%Q'


def qvec(a):
    return ql([fr(v) for v in np.asarray(a, dtype=float).ravel()]) + '%Q'


def err_name(e):
    n = type(e).__name__
    return n if n in ERR else 'Other'


def rand_sizes(rng, exact):
    if exact:
        return [float(Fraction(rng.choice((1, 2, 3, 4, 6, 8)), rng.choice((1, 2, 4, 8)))) for _ in range(3)]
    return [rng.randint(2, 40) / rng.randint(3, 13) for _ in range(3)]


def rand_grid(rng, dim=None, small=False):
    dim = dim or rng.choice((2, 2, 3))
    if dim == 2:
        return rng.randint(1, 4), rng.randint(1, 3), 0
    if small:
        return rng.randint(1, 2), rng.randint(1, 2), rng.randint(1, 2)
    return rng.randint(1, 4), rng.randint(1, 3), rng.randint(1, 3)


def affine_field(d, Gm, c):
    pos = d.get_node_position().T          # (nnodes, dim)
    return (pos @ np.asarray(Gm, dtype=float).T + np.asarray(c, dtype=float)).ravel()


def field_of(c, d):
    """the nodal vector of a derived case on domain d, in the dtype named by the case (integer dtypes only for integer data)"""
    if c.get('field') == 'affine':
        u = affine_field(d, c['G'], c['c0'])
    else:
        u = np.array(c['u'], dtype=float)
    dt = c.get('u_dtype')
    if dt not in (None, 'float64') and is_int_valued(u):
        return mk_arr(u, dt)
    return np.asarray(u, dtype=float)


def build_module(pym, c, d, v):
    """the derived module of case c on domain d with input v, and the Coq operator array of the model"""
    kind, kw = c['what'], c.get('kw', {})
    dim = d.dim
    hq = ql([fr(h) for h in c['sizes']]) + '%Q'
    if kind == 'strain':
        return pym.Strain(pym.Signal('u', v), domain=d, voigt=kw['voigt']), f'(strainM {dim}%nat {hq} {vlib.blit(kw["voigt"])})'
    if kind == 'stress':
        return (pym.Stress(pym.Signal('u', v), domain=d, e_modulus=kw['E'], poisson_ratio=kw['nu'], plane=kw['plane']),
                f'(stressM {dim}%nat {hq} {qlit(fr(kw["E"]))}%Q {qlit(fr(kw["nu"]))}%Q {MODES[kw["plane"]]})')
    if kind == 'average':
        return pym.ElementAverage(pym.Signal('u', v), domain=d), f'(avgM {dim}%nat {hq})'
    return (pym.ThermoMechanical(pym.Signal('x', v), domain=d, e_modulus=kw['E'], poisson_ratio=kw['nu'], alpha=kw['alpha'], plane=kw['plane']),
            f'(thermoM {dim}%nat {hq} {qlit(fr(kw["E"]))}%Q {qlit(fr(kw["nu"]))}%Q {qlit(fr(kw["alpha"]))}%Q {MODES[kw["plane"]]})')


def run(ctx):
    import pymoto as pym
    rng = ctx.rng
    ctx.rule = ('cases: (a) ElementOperation / NodalOperation with exactly representable operator arrays (integers or multiples of 1/4) of 0-D..3-D leading '
                'shape, last axis #dofs_per_element or #nodes_per_element (repeat-per-dof branch), grids up to 4x3x3, ndof 1..3, operator / nodal vector / '
                'element data / seeds handed over as float64, float32, int64, int32 arrays: response AND sensitivity compared exactly, output shape compared; '
                'deterministic stress set on every seed: the SAME operator through NodalOperation and ElementOperation (dof and node level) for leading shapes '
                '(2,2) (3,3) (2,3) (3,2) (2,2,2) (1,2) (2,1,3) (3,) () in 2-D and 3-D with data not symmetric in the leading indices, and the full grid of '
                'operator x vector x seed dtypes with non-integer values on the float side; (b) Strain(voigt True/False) / Stress / ElementAverage / '
                'ThermoMechanical: operator array (element_matrix) and responses on affine fields u = G x + c with integer gradients and on random '
                'fields, dyadic and non-dyadic element sizes, integer-valued element sizes handed over as Python ints / numpy int32/int64 / mixed kinds / '
                'mixed with floats (deterministic set: every module and plane mode in 2-D with thickness 1, 2, 3 and in 3-D), material constants as floats and '
                'Python ints, integer-typed nodal vectors and densities (1e-9 relative; model evaluated in Q(sqrt 3), sqrt(3)-part must vanish; ElementAverage '
                'exact for dyadic sizes); deterministic Voigt-order set on every seed (2-D / 3-D Strain voigt True/False and Stress, non-cubic elements, affine '
                'fields with pairwise different normal components and shear components 7, 2, 3); (c) malformed stream: exception class; an exception on a '
                'well-formed case is a failing input; (d) histories (c12_hist.py): every module kind built on ONE domain object and evaluated round-robin '
                '(response, sensitivity, response on a new strided / integer-typed input, Fortran-ordered seed, in-place modified input, None seed, first input '
                'and seed again), 2-D with thickness 2, 3-D, integer sizes, + random event orders; one correspondence case per instance (hrun of Model/ElemHist.v). '
                'non-trivial = grid with >= 2 elements; distinct by all parameters incl. dtypes/kinds')
    ctx.assumptions += ['theorems are about exact (real) arithmetic; floats are tied by exact (integer/dyadic data) or 1e-9 relative comparison',
                        '2-D Stress/ThermoMechanical include the out-of-plane thickness element_size[2] exactly as the code does (D *= element_size[2])',
                        'np.einsum / np.add.at are read as the sums they denote (order of floating additions is not modelled)',
                        'a module instance is used with one vector size only (hypothesis of C12_elemop_history; the implementation raises when the size of the '
                        'nodal vector changes on an ElementOperation instance: the cached dofconn no longer fits)',
                        'the model is over values: the scalar type / dtype a size, constant, operator or vector is handed over in is explored by the generators and '
                        'the twin-domain oracle (integer sizes == equal float sizes), not modelled; single-precision element sizes are not generated']
    ctx.trusted += ['Print Assumptions: real-number theorems rely on the Coq stdlib Reals axioms (ClassicalDedekindReals.sig_forall_dec, '
                    'sig_not_dec, FunctionalExtensionality.functional_extensionality_dep)',
                    'Bignums (BigQ on 63-bit machine integers) is used to EVALUATE the models in the correspondence check only',
                    'np.count_nonzero on the float B matrix is modelled by the exact zero test of the exact B matrix']
    vlib.audit(ctx)
    if not vlib.ensure_static(ctx, ['theories/Props/C12.vo', 'theories/Props/C12h.vo', 'theories/Base/SpCanon.vo', 'theories/Base/Cmp.vo',
                                    'theories/Model/ElemOps.vo', 'theories/Model/ElemHist.vo']):
        return
    vlib.check_props(ctx)
    vlib.check_props(ctx, 'theories/Props/C12h.v')      # histories on one module instance: no memory beyond the documented cache

    checks, labels, replay = [], [], []

    def add(label, expr, nontrivial=True, case=None):
        checks.append(expr)
        labels.append(label)
        replay.append(case)
        ctx.case(label, nontrivial, sample=dict(case=str(label)[:200], coq=expr[:300]))

    quick = ctx.quick()
    ocases = []      # for the oracle

    # ---------------------------------------------------------------- corpus
    corpus = []
    for path in sorted(glob.glob(os.path.join(vlib.ROOT, 'corpus', 'C12', '*.json'))):
        with open(path) as f:
            for c in json.load(f)['cases']:
                c['corpus'] = os.path.basename(path)
                corpus.append(c)
                ctx.count('corpus')

    # ---------------------------------------------------------------- (a) generic ElementOperation / NodalOperation
    def generic_case(c):
        a, b, cz = c['grid']
        d = pym.DomainDefinition(a, b, cz)
        g = f'(G {a} {b} {cz})'
        en = d.elemnodes
        EM = mk_arr(c['em'], c.get('em_dtype'))
        lead = list(EM.shape[:-1])
        kd = EM.shape[-1]
        rows = EM.reshape(-1, kd)
        om = f'(OM {zl(lead)} {kd} {qmat(rows)})'
        nt = d.nel >= 2
        dts = tuple(str(c.get(k)) for k in ('em_dtype', 'u_dtype', 'dy_dtype', 'x_dtype', 'df_dtype'))
        label = (c['what'], tuple(c['grid']), tuple(EM.shape), c.get('ndof'), str(c.get('u'))[:120], c.get('malformed'), c.get('corpus'),
                 c.get('stress'), dts, str(c['em'])[:80])
        ctx.count(f'operator dtype {EM.dtype}')

        def raised(site, e):
            # a well-formed case must not raise: concrete failing input
            ctx.violation('impl-violates', site, 'well-formed operator array and data are accepted', f'leading shape {len(lead)}-D',
                          {k: v for k, v in c.items()}, expected='no exception', got=f'{type(e).__name__}: {str(e)[:300]}')
        if c['what'] == 'elemop':
            u = mk_arr(c['u'], c.get('u_dtype'))
            err, y, du, dy = None, None, None, None
            stage = 'ElementOperation._response'
            try:
                m = pym.ElementOperation(pym.Signal('u', u), domain=d, element_matrix=EM)
                m.response()
                y = np.array(m.sig_out[0].state, dtype=float)
                dy = mk_arr(c['dy'], c.get('dy_dtype')).reshape(y.shape) if c.get('dy') is not None else None
                if dy is not None:
                    stage = 'ElementOperation._sensitivity'
                    m.sig_out[0].sensitivity = dy
                    m.sensitivity()
                    du = np.array(m.sig_in[0].sensitivity, dtype=float)
            except Exception as e:  # noqa
                err = err_name(e)
                if not c.get('malformed'):
                    raised(stage, e)
            ctx.count(f'ElementOperation lead{len(lead)}D dim{d.dim}' + (' malformed' if c.get('malformed') else ''))
            ctx.count(f'nodal vector dtype {u.dtype}')
            if err is not None or c.get('malformed'):
                ctx.count(f'error {err}')
                add(label, f'Z.eqb (eo_status {g} {om} {u.size}) {ERR.get(err, 6)}', nt, case=c)
                return
            parts = [f'Z.eqb (eo_status {g} {om} {u.size}) 0',
                     f'Zl_eqb (eo_shape {g} {om} {u.size}) {zl(list(y.shape))}',
                     f'bqm_close 0 (eo_response {g} {om} (bql {qvec(u)})) {qmat(y.reshape(-1, y.shape[-1]))}']
            if du is not None:
                parts.append(f'bql_close 0 (eo_sensitivity {g} {om} {u.size} (bqm {qmat(dy.reshape(-1, dy.shape[-1]))})) {qvec(du)}')
            add(label, ' && '.join(parts), nt, case=c)
            ocases.append(dict(kind='elemop', c=c, y=y, du=du, dy=dy))
        else:
            x = mk_arr(c['x'], c.get('x_dtype'))
            err, f_, dx_ = None, None, None
            stage = 'NodalOperation._response'
            try:
                m = pym.NodalOperation(pym.Signal('x', x), domain=d, element_matrix=EM)
                m.response()
                f_ = np.array(m.sig_out[0].state, dtype=float)
                if c.get('df') is not None:
                    stage = 'NodalOperation._sensitivity'
                    m.sig_out[0].sensitivity = mk_arr(c['df'], c.get('df_dtype'))
                    m.sensitivity()
                    dx_ = np.array(m.sig_in[0].sensitivity, dtype=float)
            except Exception as e:  # noqa
                err = err_name(e)
                if not c.get('malformed'):
                    raised(stage, e)
            ctx.count(f'NodalOperation lead{len(lead)}D dim{d.dim}' + (' malformed' if c.get('malformed') else ''))
            ctx.count(f'element data dtype {x.dtype}')
            if err is not None or c.get('malformed'):
                ctx.count(f'error {err}')
                add(label, f'Z.eqb (no_status {g} {om}) {ERR.get(err, 6)}', nt, case=c)
                return
            xr = x.reshape(-1, x.shape[-1])
            parts = [f'Z.eqb (no_status {g} {om}) 0',
                     f'bql_close 0 (no_response {g} {om} (bqm {qmat(xr)})) {qvec(f_)}']
            if dx_ is not None:
                parts.append(f'bqm_close 0 (no_sensitivity {g} {om} (bql {qvec(c["df"])})) {qmat(dx_.reshape(-1, dx_.shape[-1]))}')
            add(label, ' && '.join(parts), nt, case=c)
            ocases.append(dict(kind='nodalop', c=c, f=f_, dx=dx_))

    def rand_lead(rng_):
        k = rng_.choice((0, 1, 1, 2, 2, 3))
        return [rng_.randint(1, 3) for _ in range(k)]

    def rand_data(r_, n, lo, hi, dtypes=('float64',), dyadic=0.35):
        """n exactly representable numbers and the dtype they are handed over in: integers in an integer or float dtype,
        or multiples of 1/4 (float64 only)"""
        if r_.random() < dyadic:
            return [r_.randint(4 * lo, 4 * hi) / 4 for _ in range(n)], 'float64'
        return [r_.randint(lo, hi) for _ in range(n)], r_.choice(dtypes)

    EM_DT = ('float64', 'float64', 'int64', 'int32', 'float32')
    VEC_DT = ('float64', 'float64', 'int64', 'int32', 'float32')

    def shaped(data, shape):
        return np.array(data, dtype=float).reshape(shape).tolist()

    def gen_generic(r_, what, grid, ndof, lead, node_level=False, tag=None, nonsym=False):
        a, b, cz = grid
        dim = 2 if cz == 0 else 3
        en = 2 ** dim
        nn = (a + 1) * (b + 1) * (cz + 1)
        nel = a * b * max(cz, 1)
        nrow = int(np.prod(lead)) if lead else 1
        kd = en if (node_level and what == 'elemop') else en * ndof
        em, em_dt = rand_data(r_, nrow * kd, -4, 4, EM_DT)
        EM = np.array(em, dtype=float).reshape(list(lead) + [kd])
        if nonsym and len(lead) >= 2 and lead[0] == lead[1] and lead[0] > 1 and np.array_equal(EM, np.swapaxes(EM, 0, 1)):
            EM[(0, 1) + (0,) * (EM.ndim - 2)] += 1
        c = dict(what=what, grid=list(grid), em=EM.tolist(), em_dtype=em_dt, ndof=ndof)
        if tag:
            c['stress'] = tag
        if what == 'elemop':
            u, u_dt = rand_data(r_, nn * ndof, -5, 5, VEC_DT, dyadic=0.2)
            oshape = ([ndof] if (kd == en and ndof > 1) else []) + list(lead) + [nel]
            dy, dy_dt = rand_data(r_, int(np.prod(oshape)), -3, 3, VEC_DT)
            c.update(u=u, u_dtype=u_dt, dy=dy, dy_dtype=dy_dt)
        else:
            x, x_dt = rand_data(r_, nrow * nel, -5, 5, VEC_DT)
            X = np.array(x, dtype=float).reshape(list(lead) + [nel])
            if nonsym and len(lead) >= 2 and lead[0] == lead[1] and lead[0] > 1 and np.array_equal(X, np.swapaxes(X, 0, 1)):
                X[(0, 1) + (0,) * (X.ndim - 2)] += 1
            df, df_dt = rand_data(r_, nn * ndof, -3, 3, VEC_DT)
            c.update(x=X.tolist(), x_dtype=x_dt, df=df, df_dtype=df_dt)
        return c

    gen = list(corpus)
    # deterministic stress cases (the same on every seed): operators with >= 2 leading dimensions of equal and unequal sizes,
    # data not symmetric in those indices, the SAME operator array through NodalOperation and ElementOperation (dof level and
    # node level), response and sensitivity; every combination of float / integer typed operator, nodal and element data
    import random as _random
    rs_ = _random.Random(1212)
    k_ = 0
    for grid in ([2, 1, 0], [1, 2, 1]):
        for lead in ([2, 2], [3, 3], [2, 3], [3, 2], [2, 2, 2], [1, 2], [2, 1, 3], [3], []):
            ndof = (1, 2, 3)[k_ % 3]
            k_ += 1
            cn = gen_generic(rs_, 'nodalop', grid, ndof, lead, tag='lead', nonsym=True)
            ce = gen_generic(rs_, 'elemop', grid, ndof, lead, tag='lead', nonsym=True)
            ce['em'], ce['em_dtype'] = cn['em'], cn['em_dtype']       # the same operator array for both modules
            gen += [cn, ce, gen_generic(rs_, 'elemop', grid, ndof, lead, node_level=True, tag='lead-node', nonsym=True)]
    # dtype grid on one small operator: every pairing of operator / vector / seed dtype, with non-integer values on the float side
    for em_dt, v_dt, s_dt in itertools.product(('float64', 'int64'), ('float64', 'int64', 'int32'), ('float64', 'int64')):
        for what in ('elemop', 'nodalop'):
            c = gen_generic(rs_, what, [2, 2, 0], 2, [2], tag='dtype')
            frac = lambda n, lo, hi: [rs_.randint(4 * lo, 4 * hi) / 4 for _ in range(n)]   # noqa
            intg = lambda n, lo, hi: [rs_.randint(lo, hi) for _ in range(n)]               # noqa
            pick = lambda dt: (frac if dt == 'float64' else intg)                          # noqa
            c['em'] = shaped(pick(em_dt)(16, -4, 4), [2, 8])
            c['em_dtype'] = em_dt
            if what == 'elemop':
                c.update(u=pick(v_dt)(18, -5, 5), u_dtype=v_dt, dy=pick(s_dt)(8, -3, 3), dy_dtype=s_dt)
            else:
                c.update(x=shaped(pick(v_dt)(8, -5, 5), [2, 4]), x_dtype=v_dt, df=pick(s_dt)(18, -3, 3), df_dtype=s_dt)
            gen.append(c)
    ngen = 60 if quick else 500
    for t in range(ngen):
        a, b, cz = rand_grid(rng)
        dim = 2 if cz == 0 else 3
        ndof = rng.choice((1, 2, 3)) if dim == 2 else rng.choice((1, 1, 2, 3))
        lead = rand_lead(rng)
        if rng.random() < 0.55:
            gen.append(gen_generic(rng, 'elemop', [a, b, cz], ndof, lead, node_level=rng.random() < 0.45))
        else:
            gen.append(gen_generic(rng, 'nodalop', [a, b, cz], ndof, lead))
    # malformed
    for t in range(10 if quick else 50):
        a, b, cz = rand_grid(rng)
        dim = 2 if cz == 0 else 3
        en = 2 ** dim
        nn = (a + 1) * (b + 1) * (cz + 1)
        nel = a * b * max(cz, 1)
        what = rng.choice(('kd_prepare', 'usize', 'kd_assert', 'no_kd'))
        if what == 'kd_prepare':
            EM = np.ones((2, en + rng.choice((1, 2, 3)))).tolist()
            gen.append(dict(what='elemop', grid=[a, b, cz], em=EM, u=[1] * nn, dy=None, malformed=what))
        elif what == 'usize':
            gen.append(dict(what='elemop', grid=[a, b, cz], em=np.ones(en).tolist(), u=[1] * (nn + rng.choice((1, 2))) if nn > 2 else [1] * (nn + 1), dy=None, malformed=what))
        elif what == 'kd_assert':
            gen.append(dict(what='elemop', grid=[a, b, cz], em=np.ones(en * 2).tolist(), u=[1] * (nn * 3), dy=None, malformed=what))
        else:
            gen.append(dict(what='nodalop', grid=[a, b, cz], em=np.ones(en + 1).tolist(), x=[1] * nel, df=None, malformed=what))
    for c in gen:
        if c['what'] in ('elemop', 'nodalop'):
            generic_case(c)

    # ---------------------------------------------------------------- (b) derived modules
    def derived_case(c):
        a, b, cz = c['grid']
        hs = c['sizes']
        d = pym.DomainDefinition(a, b, cz, *mk_sizes(hs, c.get('size_kinds')))
        dim = d.dim
        g = f'(G {a} {b} {cz})'
        hq = ql([fr(h) for h in hs]) + '%Q'
        nt = d.nel >= 2
        kind = c['what']
        label = (kind, tuple(c['grid']), tuple(hs), str(c.get('kw')), str(c.get('G')), str(c.get('c0')), c.get('field'), c.get('corpus'),
                 str(c.get('x'))[:80], str(c.get('size_kinds')), c.get('u_dtype'), c.get('x_dtype'), c.get('stress'))
        ctx.count(f'{kind} dim{dim}')
        ctx.count(f'element_size dtype {d.element_size.dtype}' + (' (sizes given as ' + '/'.join(c['size_kinds']) + ')' if c.get('size_kinds') else ''))
        if kind in ('strain', 'stress', 'average'):
            u = field_of(c, d)
            ctx.count(f'nodal vector dtype {u.dtype}')
            m, om = build_module(pym, c, d, u)
            EMi = np.array(m.element_matrix, dtype=float)      # operator array as prepared
            m.response()
            y = np.array(m.sig_out[0].state, dtype=float)
            sc = max(1.0, float(np.abs(y).max()), float(np.abs(u).max()) * float(np.abs(EMi).max()))
            scE = max(1e-300, float(np.abs(EMi).max()))
            exact = kind == 'average' and c.get('exact')
            tolE = '0' if exact else f'(rel {qlit(fr(scE))})'
            tolY = '0' if exact else f'(rel {qlit(fr(sc))})'
            if kind == 'average':
                parts = [f'bqm_close {tolE} (om_rows {om}) {qmat(EMi.reshape(-1, EMi.shape[-1]))}',
                         f'Zl_eqb (eo_shape {g} {om} {u.size}) {zl(list(y.shape))}',
                         f'bqm_close {tolY} (eo_response {g} {om} (bql {qvec(u)})) {qmat(y.reshape(-1, y.shape[-1]))}']
                add(label, ' && '.join(parts), nt, case=c)
            else:
                parts = [f'israt M', f'bqm_close {tolE} (om_rows (rat M)) {qmat(EMi)}',
                         f'Zl_eqb (eo_shape {g} (rat M) {u.size}) {zl(list(y.shape))}',
                         f'bqm_close {tolY} (eo_response {g} (rat M) (bql {qvec(u)})) {qmat(y)}']
                add(label, f'(let M := {om} in ' + ' && '.join(parts) + ')', nt, case=c)
            ocases.append(dict(kind=kind, c=c, y=y, u=u, EM=EMi))
        elif kind == 'thermo':
            x = mk_arr(c['x'], c.get('x_dtype'))
            m, om = build_module(pym, c, d, x)
            EMi = np.array(m.element_matrix, dtype=float)
            m.response()
            f_ = np.array(m.sig_out[0].state, dtype=float)
            scE = max(1e-300, float(np.abs(EMi).max()))
            sc = max(1e-300, float(np.abs(f_).max()), scE * float(np.abs(x).max()))
            parts = ['israt M', f'bqm_close (rel {qlit(fr(scE))}) (om_rows (rat M)) {qmat(EMi.reshape(1, -1))}',
                     f'bql_close (rel {qlit(fr(sc))}) (no_response {g} (rat M) [bql {qvec(x)}]) {qvec(f_)}']
            add(label, f'(let M := {om} in ' + ' && '.join(parts) + ')', nt, case=c)
            ocases.append(dict(kind=kind, c=c, f=f_, EM=EMi))

    def rand_mat(r_):
        # material constants as Python floats AND as Python ints (E = 2, nu = 0)
        return r_.choice((1.0, 2.0, 67.0, 1, 2, 67, r_.uniform(0.2, 300))), r_.choice((0.3, 0.0, 0.25, 0, r_.uniform(-0.8, 0.45)))

    def rand_G(r_, dim, shear):
        Gm = [[r_.randint(-3, 3) for _ in range(dim)] for _ in range(dim)]
        if not shear:      # shear-free: skew-symmetric off-diagonal part
            for i in range(dim):
                for j in range(i):
                    Gm[i][j] = -Gm[j][i]
        elif all(Gm[i][j] + Gm[j][i] == 0 for i in range(dim) for j in range(i)):
            Gm[0][1] += 1
        return Gm

    def rand_kinds(r_):
        """how integer-valued element sizes are handed over: all of one integer kind (element_size becomes an integer array),
        integer kinds mixed, or integers mixed with floats"""
        t = r_.random()
        if t < 0.4:
            return [r_.choice(INT_KINDS)] * 3
        if t < 0.7:
            return [r_.choice(INT_KINDS) for _ in range(3)]
        return [r_.choice(tuple(KINDS)) for _ in range(3)]

    def gen_derived(r_, kind, dim, grid, hs, kinds, exact, shear=True, field='affine', tag=None, plane=None, mat=None, voigt=None):
        a, b, cz = grid
        nn = (a + 1) * (b + 1) * (cz + 1)
        nel = a * b * max(cz, 1)
        E, nu = mat or rand_mat(r_)
        plane = plane or r_.choice(list(MODES))
        c = dict(what=kind, grid=list(grid), sizes=list(hs))
        if kinds is not None:
            c['size_kinds'] = list(kinds)
        if tag:
            c['stress'] = tag
        int_sizes = all(float(h) == int(h) for h in hs)
        if kind in ('strain', 'stress'):
            kw = dict(voigt=(r_.random() < 0.7) if voigt is None else voigt) if kind == 'strain' else dict(E=E, nu=nu, plane=plane)
            if field == 'affine':
                c.update(kw=kw, field='affine', G=rand_G(r_, dim, shear), c0=[r_.randint(-2, 2) for _ in range(dim)],
                         x=[r_.choice((0.0, 1.0, 0.5, r_.uniform(0.01, 1))) for _ in range(nel)])
                if tag:   # stress cases: never a vanishing normal strain
                    for i in range(dim):
                        c['G'][i][i] = c['G'][i][i] or (i + 1)
                if int_sizes:
                    c['u_dtype'] = r_.choice(('float64', 'int64', 'int32'))
            else:
                c.update(kw=kw, field='random', u=[r_.randint(-5, 5) for _ in range(nn * dim)], u_dtype=r_.choice(('float64', 'int64', 'int32')))
        elif kind == 'average':
            nd = r_.choice((1, 1, 2, 3))
            c.update(kw=dict(ndof=nd), field='affine', exact=exact, G=[[r_.randint(-3, 3) for _ in range(dim)] for _ in range(nd)],
                     c0=[r_.randint(-2, 2) for _ in range(nd)])
            if int_sizes:
                c['u_dtype'] = r_.choice(('float64', 'int64'))
        else:
            c.update(kw=dict(E=E, nu=nu, plane=plane, alpha=r_.choice((1e-6, 0.5, 1.0, 1, 2, r_.uniform(0.1, 2)))))
            t = r_.random()
            if t < 0.5:
                c['x'] = [r_.choice((0.0, 1.0, 0.5, r_.uniform(0.01, 1))) for _ in range(nel)]
            elif t < 0.75:
                c.update(x=[r_.choice((0, 1, 1, 2)) for _ in range(nel)], x_dtype=r_.choice(('int64', 'int32', 'float64')))
            else:
                c['x'] = [1.0] * nel
        return c

    der = [c for c in corpus if c['what'] in ('strain', 'stress', 'average', 'thermo')]
    # deterministic stress cases (the same on every seed): integer-valued element sizes handed over as Python ints, numpy ints,
    # mixed integer kinds and integers mixed with floats, 2-D (thickness 1, 2 and 3) and 3-D, every derived module and plane mode;
    # the oracle compares each with the twin domain built from the equal float sizes
    rs_ = _random.Random(1213)
    SZ = ([2, 3, 1], [1, 2, 3], [3, 1, 2], [2, 2, 2], [1, 1, 1])
    KS = (['int'] * 3, ['np.int64'] * 3, ['int', 'np.int32', 'np.int64'], ['np.int32'] * 3, ['int', 'float', 'int'], ['np.float64', 'int', 'np.int64'])
    k_ = 0
    for dim in (2, 3):
        grid = [2, 2, 0] if dim == 2 else [2, 1, 1]
        specs = [('strain', dict(voigt=True)), ('strain', dict(voigt=False)), ('stress', dict(plane='strain')), ('average', {}), ('thermo', dict(plane='stress'))]
        if dim == 2:
            specs += [('stress', dict(plane='plane stress')), ('thermo', dict(plane='Plane-Strain'))]
        for kind, opt in specs:
            hs, kinds = SZ[k_ % len(SZ)], KS[k_ % len(KS)] if k_ % 7 != 6 else ['int'] * 3
            k_ += 1
            der.append(gen_derived(rs_, kind, dim, grid, hs, kinds, True, tag='int-sizes', mat=(2.5, 0.25) if k_ % 2 else (2, 0), **opt))
    # deterministic Voigt-order cases (the same on every seed): affine fields whose normal components are pairwise different and whose
    # shear components are pairwise different in magnitude (3-D: gamma_yz = 7, gamma_zx = 2, gamma_xy = 3; none is twice another), on
    # non-cubic elements; Strain with voigt True / False and Stress: a permutation of the shear rows (get_B's own `voigt` flag selects the
    # order [xy, yz, zx]) cannot coincide with the documented order or with the known factor 2
    G3 = [[2, 1, 4], [2, -3, 5], [-2, 2, 5]]
    G2 = [[2, 1], [3, -3]]
    for dim, grid, hs, kind, opt in ((3, [2, 1, 2], [0.5, 2.0, 1.0], 'strain', dict(voigt=False)),
                                     (3, [1, 2, 1], [1.0, 0.5, 2.0], 'strain', dict(voigt=True)),
                                     (3, [1, 2, 1], [2.0, 1.0, 0.5], 'stress', dict(plane='strain')),
                                     (2, [2, 2, 0], [0.5, 2.0, 1.0], 'strain', dict(voigt=False)),
                                     (2, [3, 1, 0], [2.0, 0.5, 1.0], 'strain', dict(voigt=True)),
                                     (2, [2, 2, 0], [1.0, 0.5, 2.0], 'stress', dict(plane='plane stress')),
                                     (2, [1, 2, 0], [0.5, 1.0, 1.0], 'stress', dict(plane='strain'))):
        c = gen_derived(rs_, kind, dim, grid, hs, None, True, tag='voigt-order', mat=(2.5, 0.25), **opt)
        c.update(G=[list(r) for r in (G3 if dim == 3 else G2)], c0=[1, -2, 3][:dim])
        c.pop('u_dtype', None)
        der.append(c)
    nder = 44 if quick else 400
    for t in range(nder):
        kind = rng.choice(('strain', 'strain', 'stress', 'stress', 'average', 'thermo'))
        dim = rng.choice((2, 2, 3))
        grid = rand_grid(rng, dim=dim, small=(dim == 3 and rng.random() < 0.6))
        exact = rng.random() < 0.5
        kinds = None
        if rng.random() < 0.3:       # integer-valued sizes in every way of handing them over
            hs, kinds, exact = [rng.choice((1, 1, 2, 3, 4)) for _ in range(3)], rand_kinds(rng), True
        else:
            hs = rand_sizes(rng, exact)
        field = 'affine' if (kind not in ('strain', 'stress') or rng.random() < 0.75) else 'random'
        der.append(gen_derived(rng, kind, dim, grid, hs, kinds, exact, shear=rng.random() < 0.6, field=field))
    dsites = dict(strain='Strain._prepare', stress='Stress._prepare', average='ElementAverage._prepare', thermo='ThermoMechanical._prepare')
    for c in der:
        try:
            derived_case(c)
        except Exception as e:  # noqa -- every derived case is well-formed: an exception is a concrete failing input
            ctx.violation('impl-violates', dsites[c['what']], 'well-formed domain, material constants and field are accepted', c['what'],
                          {k: v for k, v in c.items()}, expected='no exception', got=f'{type(e).__name__}: {str(e)[:300]}')

    # ---------------------------------------------------------------- (d) histories: instances used repeatedly, several instances on one domain
    import sys
    c12_hist.run_histories(ctx, pym, add, sys.modules[__name__])

    # balance the shards: 3-D cases in Q(sqrt 3) are the heavy ones
    def cost(e):
        heavy = ('stressM 3%nat' in e) or ('thermoM 3%nat' in e) or ('strainM 3%nat' in e)
        return (6 if heavy else 0.5 if 'M 2%nat' in e else 0.1) + len(e) / 30000.0
    chunk = 14 if quick else 24
    nsh = max(1, -(-len(checks) // chunk))
    order = sorted(range(len(checks)), key=lambda i: -cost(checks[i]))
    perm = [i for k in range(nsh) for i in order[k::nsh]]
    checks = [checks[i] for i in perm]
    labels = [labels[i] for i in perm]
    replay = [replay[i] for i in perm]
    chunk = max(len(order[k::nsh]) for k in range(nsh))
    failing, err = vlib.run_cases(ctx, 'ops', HEADER, checks, chunk=chunk, timeout=1500)
    ctx.obligation('correspondence:case files evaluated', 'correspondence', not err, err)
    if err:
        ctx.violation('correspondence', 'ElementOperation', 'case files compile', 'harness', dict(error=err[-3000:]), theorem='cases_ops')
    sites = dict(elemop='ElementOperation._response', nodalop='NodalOperation._response', strain='Strain._prepare', stress='Stress._prepare',
                 average='ElementAverage._prepare', thermo='ThermoMechanical._prepare')
    for idx in failing[:20]:
        lab = labels[idx]
        ctx.violation('correspondence', sites.get(lab[0], str(lab[0])), 'model == implementation', str(lab[0]),
                      dict(label=str(lab)[:1500], case=replay[idx], coq_check=checks[idx][:3000]), note='Coq model and implementation differ')
    oracle(ctx, pym, ocases)


# ---------------------------------------------------------------------------------------------------- oracle
def get_D_ref(E, nu, mode, dim):
    if dim == 3:
        c = E / ((1 + nu) * (1 - 2 * nu))
        D = np.zeros((6, 6))
        D[:3, :3] = c * nu
        D[np.arange(3), np.arange(3)] = c * (1 - nu)
        D[np.arange(3, 6), np.arange(3, 6)] = c * (1 - 2 * nu) / 2
        return D
    if mode == 0:
        c = E / ((1 + nu) * (1 - 2 * nu))
        return c * np.array([[1 - nu, nu, 0], [nu, 1 - nu, 0], [0, 0, (1 - 2 * nu) / 2]])
    return E / (1 - nu ** 2) * np.array([[1, nu, 0], [nu, 1, 0], [0, 0, (1 - nu) / 2]])


def true_strain(Gm, dim):
    """symmetric gradient in Voigt form with engineering shear; 3-D order xx yy zz yz zx xy"""
    Gm = np.asarray(Gm, dtype=float)
    if dim == 2:
        return np.array([Gm[0, 0], Gm[1, 1], Gm[0, 1] + Gm[1, 0]])
    return np.array([Gm[0, 0], Gm[1, 1], Gm[2, 2], Gm[1, 2] + Gm[2, 1], Gm[0, 2] + Gm[2, 0], Gm[0, 1] + Gm[1, 0]])


def eff_operator(EM, en, ndof):
    """the operator ElementOperation applies to a vector with ndof dofs per node (node-level arrays are repeated per dof)"""
    EM = np.asarray(EM, dtype=float)
    if EM.shape[-1] == en * ndof:
        return EM
    out = np.zeros((ndof,) + EM.shape[:-1] + (ndof * en,))
    for i in range(ndof):
        for n in range(en):
            out[(i,) + (Ellipsis, n * ndof + i)] = EM[..., n]
    return out


def ref_gather(EMe, dofconn, u):
    """y[idx, e] = sum_k EMe[idx, k] * u[dofconn[e, k]], written out"""
    u = np.asarray(u, dtype=float)
    nel = dofconn.shape[0]
    out = np.zeros(EMe.shape[:-1] + (nel,))
    for idx in np.ndindex(*EMe.shape[:-1]):
        for e in range(nel):
            out[idx + (e,)] = sum(float(EMe[idx][k]) * float(u[dofconn[e, k]]) for k in range(EMe.shape[-1]))
    return out


def ref_scatter(EMe, dofconn, n, y):
    """f[dofconn[e, k]] += sum_idx EMe[idx, k] * y[idx, e], written out"""
    y = np.asarray(y, dtype=float).reshape(EMe.shape[:-1] + (dofconn.shape[0],))
    out = np.zeros(n)
    for e in range(dofconn.shape[0]):
        for idx in np.ndindex(*EMe.shape[:-1]):
            for k in range(EMe.shape[-1]):
                out[dofconn[e, k]] += float(EMe[idx][k]) * float(y[idx + (e,)])
    return out


def differs(got, ref, tol=1e-12):
    got, ref = np.asarray(got, dtype=float), np.asarray(ref, dtype=float)
    return got.shape != ref.shape or not np.all(np.isfinite(got)) or float(np.abs(got - ref).max(initial=0.0)) > tol * max(1.0, float(np.abs(ref).max(initial=0.0)))


def oracle(ctx, pym, ocases):
    """the property, stated in numpy, on the implementation's outputs"""
    rs = np.random.default_rng(ctx.seed)
    for oc in ocases:
        ctx.search_evaluations += 1
        c = oc['c']
        pub = {k: v for k, v in c.items()}

        def bad(site, pred, icls, expected=None, got=None):
            ctx.violation('impl-violates', site, pred, icls, pub, expected=expected, got=got)
        try:
            oracle_one(ctx, pym, oc, rs, bad)
        except Exception as e:  # noqa  -- every case handed to the oracle is well-formed: an exception is a failing input
            import traceback
            tb = traceback.extract_tb(e.__traceback__)
            where = next((f'{fr_.name}' for fr_ in reversed(tb) if 'pymoto' in fr_.filename and fr_.name.startswith('_')), tb[-1].name)
            bad(f'{where}', 'well-formed operator array and data are accepted', str(oc['kind']), 'no exception', f'{type(e).__name__}: {str(e)[:300]}')


def oracle_one(ctx, pym, oc, rs, bad):
    if True:
        c = oc['c']
        kind = oc['kind']
        a, b, cz = c['grid']
        dim = 2 if cz == 0 else 3
        if kind in ('elemop', 'nodalop'):
            d = pym.DomainDefinition(a, b, cz)
            EM = mk_arr(c['em'], c.get('em_dtype'))
            lead = EM.shape[:-1]
            kd = EM.shape[-1]
            icls = f'leading shape {len(lead)}-D'
            # (1) explicit references for response and sensitivity (no einsum / tensordot / add.at)
            if kind == 'elemop':
                u = mk_arr(c['u'], c.get('u_dtype'))
                nd = u.size // d.nnodes
                EMe = eff_operator(EM, d.elemnodes, nd)
                dc = d.get_dofconnectivity(nd)
                ref = ref_gather(EMe, dc, u)
                if differs(oc['y'], ref):
                    bad('ElementOperation._response', 'y[.., e] == sum_k B[.., k] u[dofconn[e, k]]', icls, ref.tolist(), oc['y'].tolist())
                if oc.get('du') is not None:
                    refs = ref_scatter(EMe, dc, u.size, oc['dy'])
                    if differs(oc['du'], refs):
                        if u.dtype.kind in 'iu':
                            bad(*INTU, refs.tolist(), oc['du'].tolist())
                        else:
                            bad('ElementOperation._sensitivity', SENS_PRED, icls, refs.tolist(), oc['du'].tolist())
            else:
                nd = kd // d.elemnodes
                dc = d.get_dofconnectivity(nd)
                x = mk_arr(c['x'], c.get('x_dtype'))
                ref = ref_scatter(np.asarray(EM, dtype=float), dc, nd * d.nnodes, x)
                if differs(oc['f'], ref):
                    bad('NodalOperation._response', 'f[dofconn[e, k]] accumulates sum_.. A[.., k] x[.., e]', icls, ref.tolist(), oc['f'].tolist())
                if oc.get('dx') is not None:
                    refs = ref_gather(np.asarray(EM, dtype=float), dc, mk_arr(c['df'], c.get('df_dtype')))
                    if differs(oc['dx'], refs):
                        bad('NodalOperation._sensitivity', 'sensitivity is the transpose of the operator (ElementOperation response for the same element matrix)',
                            icls, refs.tolist(), oc['dx'].tolist())
            # (2) NodalOperation is the transpose of ElementOperation for the same operator array, in the operator's own dtype
            if kd % d.elemnodes != 0:
                return
            ndof = kd // d.elemnodes
            u = rs.integers(-4, 5, size=d.nnodes * ndof).astype(float)
            x = rs.integers(-4, 5, size=list(lead) + [d.nel]).astype(float)
            me = pym.ElementOperation(pym.Signal('u', u), domain=d, element_matrix=EM.copy())
            me.response()
            mn = pym.NodalOperation(pym.Signal('x', x), domain=d, element_matrix=EM.copy())
            mn.response()
            lhs = float(np.sum(me.sig_out[0].state * x))
            rhs = float(np.dot(mn.sig_out[0].state, u))
            if abs(lhs - rhs) > 1e-9 * max(1.0, abs(lhs)):
                bad('NodalOperation._response', '<x, ElementOperation(u)> == <NodalOperation(x), u>', f'dim{dim}', lhs, rhs)
            # ... and each module's sensitivity is the other module's response
            me.sig_out[0].sensitivity = x
            me.sensitivity()
            if differs(me.sig_in[0].sensitivity, mn.sig_out[0].state):
                bad('ElementOperation._sensitivity', SENS_PRED, icls, np.asarray(mn.sig_out[0].state).tolist(), np.asarray(me.sig_in[0].sensitivity).tolist())
            mn.sig_out[0].sensitivity = u
            mn.sensitivity()
            if differs(mn.sig_in[0].sensitivity, me.sig_out[0].state):
                bad('NodalOperation._sensitivity', 'sensitivity is the transpose of the operator (ElementOperation response for the same element matrix)',
                    icls, np.asarray(me.sig_out[0].state).tolist(), np.asarray(mn.sig_in[0].sensitivity).tolist())
            return
        hs = c['sizes']
        d = pym.DomainDefinition(a, b, cz, *mk_sizes(hs, c.get('size_kinds')))
        site = dict(strain='Strain._prepare', stress='Stress._prepare', average='ElementAverage._prepare', thermo='ThermoMechanical._prepare')[kind]
        if kind in ('strain', 'stress') and c.get('field') == 'affine':
            Gm = np.asarray(c['G'], dtype=float)
            eps = true_strain(Gm, dim)
            shear_nz = bool(np.any(np.abs(eps[dim:]) > 0))
            icls = 'gradient with non-zero shear part' if shear_nz else 'gradient with zero shear part'
            y = oc['y']
            sc = max(1.0, float(np.abs(Gm).max()))
            if kind == 'strain':
                voigt = c['kw']['voigt']
                exp = eps.copy()
                if not voigt:
                    exp[dim:] = exp[dim:] / 2      # tensor components eps_ij, as the docstring states for voigt=False
                if y.shape != (len(eps), d.nel):
                    bad('Strain._prepare', 'strain_affine.shape', icls, [len(eps), d.nel], list(y.shape))
                    return
                if np.abs(y[:dim] - exp[:dim, None]).max() > 1e-9 * sc:
                    bad('Strain._prepare', 'strain_affine.normal_component', icls, exp[:dim].tolist(), y[:dim, 0].tolist())
                if np.abs(y[dim:] - exp[dim:, None]).max() > 1e-9 * sc:
                    # K05 is a FACTOR: every shear component is twice the documented one, in the documented (Voigt) order.  Anything
                    # else (components permuted, a sign, one component off) is not that finding.
                    if np.abs(y[dim:] - 2 * exp[dim:, None]).max() <= 1e-9 * sc:
                        bad(*KNOWN, exp[dim:].tolist(), y[dim:, 0].tolist())
                    else:
                        bad('Strain._prepare', SHEAR_ORDER, f'dim{dim} voigt={voigt}',
                            dict(documented=exp[dim:].tolist(), with_known_factor_2=(2 * exp[dim:]).tolist(), order='yz zx xy' if dim == 3 else 'xy'),
                            y[dim:, 0].tolist())
            else:
                kw = c['kw']
                D = get_D_ref(kw['E'], kw['nu'], MODES[kw['plane']], dim) * (hs[2] if dim == 2 else 1.0)
                sig = D @ eps
                ssc = max(1.0, float(np.abs(sig).max()), float(np.abs(D).max()) * sc)
                if y.shape != (len(eps), d.nel):
                    bad('Stress._prepare', 'stress_affine.shape', icls, [len(eps), d.nel], list(y.shape))
                    return
                if np.abs(y[:dim] - sig[:dim, None]).max() > 1e-9 * ssc:
                    bad('Stress._prepare', 'stress_affine.normal_component', icls, sig[:dim].tolist(), y[:dim, 0].tolist())
                if np.abs(y[dim:] - sig[dim:, None]).max() > 1e-9 * ssc:
                    # the shear stress is D times the doubled shear strain of Strain._prepare: same finding -- if it is exactly that factor
                    eps_k = eps.copy()
                    eps_k[dim:] *= 2
                    sig_k = D @ eps_k
                    if np.abs(y[dim:] - sig_k[dim:, None]).max() <= 1e-9 * ssc:
                        bad(*KNOWN, sig[dim:].tolist(), y[dim:, 0].tolist())
                    else:
                        bad('Stress._prepare', 'stress_affine.shear components in Voigt order (up to the known factor 2)', f'dim{dim}',
                            dict(documented=sig[dim:].tolist(), with_known_factor_2=sig_k[dim:].tolist()), y[dim:, 0].tolist())
                # stress is the constitutive matrix times the module's own strain
                ms = pym.Strain(pym.Signal('u', oc['u']), domain=d)
                ms.response()
                if np.abs(y - D @ ms.sig_out[0].state).max() > 1e-9 * ssc:
                    bad('Stress._prepare', 'stress == D @ strain', icls)
                # energy: sum_e x_e V_e sigma_e . eps_e == u^T K u  (2-D: D carries the thickness, V_e is the in-plane area)
                x = np.array(c['x'], dtype=float)
                mk = pym.AssembleStiffness(pym.Signal('x', x), domain=d, e_modulus=kw['E'], poisson_ratio=kw['nu'], plane=kw['plane'])
                mk.response()
                K = mk.sig_out[0].state
                uKu = float(oc['u'] @ (K @ oc['u']))
                Ve = float(np.prod(hs[:dim]))
                en_mod = float(np.sum(x * Ve * np.sum(y * ms.sig_out[0].state, axis=0)))
                if abs(en_mod - uKu) > 1e-9 * max(1.0, abs(uKu)):
                    # the energy identity inherits the doubled shear: exactly 3 more shear energies (C12_energy_2d/_3d) -- only with non-zero shear
                    gam = np.zeros_like(eps)
                    gam[dim:] = eps[dim:]
                    en_k05 = uKu + 3 * Ve * float(gam @ (D @ gam)) * float(np.sum(x))
                    if shear_nz and abs(en_mod - en_k05) <= 1e-9 * max(1.0, abs(en_k05), abs(uKu)):
                        bad(*KNOWN, uKu, en_mod)
                    else:
                        bad('Strain._prepare', 'energy identity', icls, dict(uKu=uKu, with_known_shear_factor=en_k05), en_mod)
        elif kind == 'average':
            nd = c['kw']['ndof']
            Gm = np.asarray(c['G'], dtype=float)
            c0 = np.asarray(c['c0'], dtype=float)
            y = oc['y'].reshape(nd, d.nel) if nd > 1 else oc['y'].reshape(1, d.nel)
            nz = max(cz, 1)
            ok = True
            for k in range(nz):
                for j in range(b):
                    for i in range(a):
                        e = (k * b + j) * a + i
                        cen = (np.array([i, j, k][:dim]) + 0.5) * np.array(hs[:dim])
                        exp = Gm @ cen + c0
                        if np.abs(y[:, e] - exp).max() > 1e-9 * max(1.0, float(np.abs(exp).max())):
                            ok = False
            if not ok:
                bad('ElementAverage._prepare', 'element average of a linear nodal field is its centroid value', f'dim{dim}')
        elif kind == 'thermo':
            kw = c['kw']
            f_ = oc['f'].reshape(d.nnodes, dim)
            fsc = max(1e-300, float(np.abs(f_).max()))
            if np.abs(f_.sum(axis=0)).max() > 1e-9 * fsc * d.nnodes:
                bad('ThermoMechanical._prepare', 'thermal load is self-equilibrated', f'dim{dim}', 0.0, f_.sum(axis=0).tolist())
            if dim == 3 or MODES[kw['plane']] == 1:
                x = mk_arr(c['x'], c.get('x_dtype'))
                mk = pym.AssembleStiffness(pym.Signal('x', x), domain=d, e_modulus=kw['E'], poisson_ratio=kw['nu'], plane=kw['plane'])
                mk.response()
                uexp = (kw['alpha'] * d.get_node_position().T).ravel()
                Ku = mk.sig_out[0].state @ uexp
                if np.abs(Ku - oc['f']).max() > 1e-9 * max(fsc, float(np.abs(Ku).max())):
                    bad('ThermoMechanical._prepare', 'thermal load equals K times the free thermal expansion field', f'dim{dim}')

        # the way the element sizes are handed over (Python int, numpy int, float, mixed) must not matter: twin domain from the equal floats
        if c.get('size_kinds') and any(k != 'float' for k in c['size_kinds']):
            df_ = pym.DomainDefinition(a, b, cz, *[float(h) for h in hs])
            vin = np.asarray(oc['u'], dtype=float) if kind != 'thermo' else np.array(c['x'], dtype=float)
            mt, _ = build_module(pym, c, df_, vin)
            EMt = np.array(mt.element_matrix, dtype=float)     # as prepared (ElementOperation may expand it per dof in response)
            mt.response()
            got = oc['f'] if kind == 'thermo' else oc['y']
            exp = np.array(mt.sig_out[0].state, dtype=float)
            if differs(oc['EM'], EMt) or differs(got, exp):
                bad(site, 'result does not depend on the scalar type of the element sizes (integer sizes == equal float sizes)',
                    f'dim{dim}', exp.tolist(), np.asarray(got).tolist())
        # the sensitivity of the (linear) derived module is the transpose of its response:  <dy, y(v)> == <du(dy), v>
        if kind in ('strain', 'stress', 'average'):
            m, _ = build_module(pym, c, d, oc['u'])
            m.response()
            dy = rs.integers(-6, 7, size=np.shape(m.sig_out[0].state)) / 2
            m.sig_out[0].sensitivity = dy
            m.sensitivity()
            du = np.asarray(m.sig_in[0].sensitivity, dtype=float)
            v = rs.integers(-4, 5, size=oc['u'].size).astype(float)
            mv, _ = build_module(pym, c, d, v)
            mv.response()
            lhs, rhs = float(np.sum(dy * mv.sig_out[0].state)), float(np.dot(du, v))
            scl = max(1.0, float(np.abs(dy).sum() * np.abs(mv.sig_out[0].state).max()))
            if du.shape != oc['u'].shape or abs(lhs - rhs) > 1e-9 * scl:
                if oc['u'].dtype.kind in 'iu':
                    bad(*INTU, lhs, rhs)
                else:
                    bad('ElementOperation._sensitivity', SENS_PRED, kind, lhs, rhs)

if __name__ == '__main__':
    vlib.main(run, 'C12')
