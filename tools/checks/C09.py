"""C09 — density filters are the normalised local averages they are defined to be (FilterConv, DensityFilter)."""
import os, json, math, itertools
from fractions import Fraction
from numbers import Number
import numpy as np
import vlib
from vlib import zl, ql, zlit, qlit

HEADER = '''From Coq Require Import ZArith QArith List Bool.
From Pymoto Require Import Base.Num Base.Cmp Base.SparseLin Model.Grid Model.Pad Model.Conv Model.DensFilt Model.FiltHist.
Import ListNotations.
Open Scope Z_scope.
Definition G (a b c : Z) := {| nelx := a; nely := b; nelz := c |}.
Definition S : bmode Q := BSym.  Definition E : bmode Q := BEdge.  Definition W : bmode Q := BWrap.
Definition C (v : Q) : bmode Q := BConst v.
Definition PC (g : grid) (px py pz : Z) (a b c d e f : bmode Q) : padcfg Q :=
  {| pg := g; ppx := px; ppy := py; ppz := pz; mx0 := a; mx1 := b; my0 := c; my1 := d; mz0 := e; mz1 := f |}.
Definition lookup (tab : list (Z * Q)) (k : Z) : Q :=
  match find (fun p => fst p =? k) tab with Some p => snd p | None => 0%Q end.
Definition Qmax (a b : Q) : Q := if Qle_bool a b then b else a.
Definition cols_eqb (m : list (list (Z * Q))) (o : list (list Z)) : bool := Zll_eqb (map (map fst) m) o.
Definition vals_close (t : Q) (m : list (list (Z * Q))) (o : list (list Q)) : bool := Qll_close t (map (map snd) m) o.
Inductive fo := OY (y : list Q) | OP (p : list (list (list Q))).
Definition fobs_ok (o : fobs Q) (b : Q * fo) : bool :=
  match o, snd b with
  | ObsY y, OY y' => Ql_close (fst b) y y'
  | ObsPad p, OP p' => Qlll_close (fst b) p p'
  | _, _ => false
  end.
Fixpoint fhist_ok (outs : list (fobs Q)) (obs : list (Q * fo)) : bool :=
  match outs, obs with
  | [], [] => true
  | o :: t, b :: u => fobs_ok o b && fhist_ok t u
  | _, _ => false
  end.
Fixpoint dhist_ok (outs : list (option (list Q))) (obs : list (Q * list Q)) : bool :=
  match outs, obs with
  | [], [] => true
  | Some y :: t, b :: u => Ql_close (fst b) y (snd b) && dhist_ok t u
  | _, _ => false
  end.
Definition DO (g : grid) (de : Z) (wt : Z -> Q) (np : option (list Z)) : dopts Q :=
  {| do_g := g; do_delem := de; do_wtab := wt; do_nonpad := np |}.
Definition err_eqb (a b : option perr) : bool :=
  match a, b with None, None => true | Some ErrValue, Some ErrValue => true | Some ErrAssert, Some ErrAssert => true
  | Some ErrOther, Some ErrOther => true | _, _ => false end.
'''

MODES = ['symmetric', 'edge', 'wrap', 'const']
BC_KEYS = ['xmin_bc', 'xmax_bc', 'ymin_bc', 'ymax_bc', 'zmin_bc', 'zmax_bc']


# ----------------------------------------------------------------------------- helpers
def coq_mode(m):
    if m == 'symmetric':
        return 'S'
    if m == 'edge':
        return 'E'
    if m == 'wrap':
        return 'W'
    return f'(C {qlit(Fraction(m))}%Q)'


def coq_modes(modes):
    return ' '.join(coq_mode(m) for m in modes)


def qarr(a):
    """numpy float array (any ndim) -> nested list of exact Fractions"""
    a = np.asarray(a, dtype=float)
    if a.ndim == 0:
        return Fraction(float(a))
    return [qarr(r) for r in a]


def make_modes(kinds, rng=None):
    """kinds: six names from MODES; constant sides get distinct negative values -(side+1) (or small random)"""
    out = []
    for s, k in enumerate(kinds):
        if k == 'const':
            out.append(-float(s + 1) if rng is None else float(rng.choice([0, 1, -1, 2, 0.5, -(s + 1)])))
        else:
            out.append(k)
    return out


def build_fconv(pym, grid, modes, weights=None, radius=None, relative_units=True, sizes=None, x=None):
    nx, ny, nz = grid
    dom = pym.DomainDefinition(nx, ny, nz) if sizes is None else pym.DomainDefinition(nx, ny, nz, *sizes)
    sx = pym.Signal('x', np.zeros(dom.nel) if x is None else np.asarray(x, dtype=float))
    kw = dict(zip(BC_KEYS, modes))
    if weights is not None:
        m = pym.FilterConv(sx, domain=dom, weights=weights, **kw)
    else:
        m = pym.FilterConv(sx, domain=dom, radius=radius, relative_units=relative_units, **kw)
    return dom, sx, m


def sel_points(shape, index):
    """the (i, j, k) positions of the original domain an index expression selects (independent of meshgrid)"""
    codes = np.arange(int(np.prod(shape))).reshape(shape)
    sel = np.asarray(codes[index]).ravel()
    ny, nz = shape[1], shape[2]
    return [(int(c) // (ny * nz), (int(c) // nz) % ny, int(c) % nz) for c in sel]


def pts_lit(pts):
    return '[' + '; '.join(f'({a}, {b}, {c})' for a, b, c in pts) + ']'


def exc_enum(e):
    for cls, name in ((TypeError, 'TypeError'), (ValueError, 'ValueError'), (IndexError, 'IndexError'),
                      (AssertionError, 'AssertionError'), (RuntimeError, 'RuntimeError')):
        if isinstance(e, cls):
            return name
    return 'Other'


def ext1_ref(m0, m1, n, i):
    """ideal 1-D extension (python reference, independent of the implementation): ('i', idx) or ('c', value)"""
    def sym(j):
        r = j % (2 * n)
        return r if r < n else 2 * n - 1 - r
    if 0 <= i < n:
        return ('i', i)
    m = m0 if i < 0 else m1
    if m == 'symmetric':
        return ('i', sym(i))
    if m == 'edge':
        return ('i', 0 if i < 0 else n - 1)
    if m == 'wrap':
        return ('i', i % n)
    return ('c', float(m))


def compatible(m0, m1):
    if m0 == 'symmetric':
        return m1 == 'symmetric'
    if m0 == 'wrap' and m1 == 'symmetric':
        return False
    return True


def ideal_ok(grid, pads, modes):
    """the ideal extension is defined by the property text: pad <= n on the axis, or modes whose repeated rule is
    unambiguous (see Pad.v modes_compatible)"""
    n1 = [max(1, grid[0]), max(1, grid[1]), max(1, grid[2])]
    return all(pads[d] <= n1[d] or compatible(modes[2 * d], modes[2 * d + 1]) for d in range(3))


def ref_xpad(grid, pads, modes, x, upts=()):
    """reference padded field: ideal extension of the VALUES axis by axis, then user overrides"""
    nx, ny, nz = grid
    n1 = [max(1, nx), max(1, ny), max(1, nz)]
    out = np.zeros([n1[d] + 2 * pads[d] for d in range(3)])
    for I in range(out.shape[0]):
        for J in range(out.shape[1]):
            for L in range(out.shape[2]):
                sz = ext1_ref(modes[4], modes[5], n1[2], L - pads[2])
                if sz[0] == 'c':
                    out[I, J, L] = sz[1]
                    continue
                sy = ext1_ref(modes[2], modes[3], n1[1], J - pads[1])
                if sy[0] == 'c':
                    out[I, J, L] = sy[1]
                    continue
                sxx = ext1_ref(modes[0], modes[1], n1[0], I - pads[0])
                if sxx[0] == 'c':
                    out[I, J, L] = sxx[1]
                    continue
                out[I, J, L] = x[(sz[1] * ny + sy[1]) * nx + sxx[1]]
    for pts, v in upts:
        for (a, b, c) in pts:
            out[a + pads[0], b + pads[1], c + pads[2]] = v
    return out


def ref_conv(grid, w, xp):
    """direct-loop valid convolution + numbering"""
    nx, ny, nz = grid
    n1 = [max(1, nx), max(1, ny), max(1, nz)]
    kx, ky, kz = w.shape
    y = np.zeros(nx * ny * n1[2])
    for a in range(n1[0]):
        for b in range(n1[1]):
            for c in range(n1[2]):
                s = 0.0
                for qa in range(kx):
                    for qb in range(ky):
                        for qc in range(kz):
                            s += w[qa, qb, qc] * xp[a + kx - 1 - qa, b + ky - 1 - qb, c + kz - 1 - qc]
                y[(c * ny + b) * nx + a] = s
    return y


class Cases:
    def __init__(self, ctx):
        self.ctx = ctx
        self.checks, self.labels, self.replay = [], [], []

    def add(self, label, expr, nontrivial=True, replay=None):
        self.checks.append(expr)
        self.labels.append(label)
        self.replay.append(replay if replay is not None else dict(label=repr(label)))
        self.ctx.case(label, nontrivial, sample=dict(case=repr(label)[:200], coq=expr[:300]))


# ----------------------------------------------------------------------------- case builders
def guarded(fn):
    """a valid input on which the implementation raises or returns non-finite numbers is a violation with that
    input as the replay (the check goes on with the next case)"""
    def wrapper(ctx, *args, **kw):
        try:
            return fn(ctx, *args, **kw)
        except Exception as e:       # noqa
            import traceback
            site = {'case_dens': 'DensityFilter', 'case_radius': 'FilterConv(radius)'}.get(fn.__name__, 'FilterConv')
            ctx.violation('impl-violates', site, 'valid input handled: no exception, finite output', fn.__name__,
                          dict(args=repr([a for a in args if not hasattr(a, '__dict__') or isinstance(a, np.ndarray)])[:3000],
                               error=repr(e)[:500], where=traceback.format_exc()[-1200:]))
            return None
    wrapper.__name__ = fn.__name__
    return wrapper


def finite(*arrays):
    for a in arrays:
        if not np.all(np.isfinite(np.asarray(a, dtype=float))):
            raise FloatingPointError('non-finite output')


@guarded
def case_pad(ctx, pym, cs, grid, pads, modes, tag='pad'):
    """el3d_orig, el3d_pad (exact) and get_padded_vector on x_e = e + 1 (exact)"""
    nx, ny, nz = grid
    shape = [2 * p + 1 for p in pads]
    w = np.ones(shape[:2] if (nz == 0 and pads[2] == 0) else shape)
    dom, sx, m = build_fconv(pym, grid, modes, weights=w)
    x = np.arange(dom.nel) + 1.0
    xp = m.get_padded_vector(x)
    g = f'(G {nx} {ny} {nz})'
    c = f'(PC {g} {pads[0]} {pads[1]} {pads[2]} {coq_modes(modes)})'
    w3 = w if w.ndim == 3 else w[:, :, None]
    expr = (f'(Zlll_eqb (el3d_orig {c}) {zl(m.el3d_orig.tolist())} && Zlll_eqb (el3d_pad {c}) {zl(m.el3d_pad.tolist())} && '
            f'Qlll_eqb (xpad_arr {c} [] {ql(qarr(x))}%Q) {ql(qarr(xp))}%Q')
    if tag != 'pad-2d-exh':      # pad_sizes = shape // 2 through the constructor model
        expr += (f' && (let f := mk_fconv {g} {ql(qarr(w3))}%Q {coq_modes(modes)} [] in '
                 f'Zl_eqb [ppx (fc_pad f); ppy (fc_pad f); ppz (fc_pad f)] {zl(list(m.pad_sizes))})')
    expr += ')'
    kinds = tuple('const' if isinstance(mm, Number) else mm for mm in modes)
    ctx.count('pad:dim%d' % (2 if nz == 0 else 3))
    ctx.count('pad:oversize' if any(pads[d] > max(1, grid[d]) for d in range(3)) else 'pad:within')
    cs.add((tag, grid, tuple(pads), kinds), expr, nontrivial=any(pads),
           replay=dict(kind='pad', grid=grid, pads=list(pads), modes=[str(mm) for mm in modes]))


def case_nppad(ctx, cs, n, pl, pr, mode):
    a = np.arange(n) + 10
    r = np.pad(a, (pl, pr), mode=mode) if mode != 'constant' else np.pad(a, (pl, pr), mode=mode, constant_values=-7)
    md = dict(symmetric='NpSym', edge='NpEdge', wrap='NpWrap', constant='NpConst')[mode]
    cs.add(('np.pad', n, pl, pr, mode), f'Zl_eqb (np_pad {md} (-7) {pl} {pr} {zl(a.tolist())}) {zl(r.tolist())}',
           nontrivial=pl + pr > 0, replay=dict(kind='np.pad', n=n, pl=pl, pr=pr, mode=mode))
    ctx.oracle_validation['np.pad index semantics (Pad.v np_pad)'] = \
        ctx.oracle_validation.get('np.pad index semantics (Pad.v np_pad)', 0) + 1


def tol_for(*arrays):
    mx = 1.0
    for a in arrays:
        a = np.asarray(a, dtype=float)
        if a.size:
            mx = max(mx, float(np.max(np.abs(a))))
    return Fraction(1, 10 ** 9) * Fraction(mx)


def run_module(m, sx, x, seed):
    """public protocol: response, seed, sensitivity"""
    sx.state = np.asarray(x, dtype=float).copy()
    m.response()
    y = np.array(m.sig_out[0].state, dtype=float).copy()
    m.sig_out[0].sensitivity = np.asarray(seed, dtype=float).copy()
    m.sensitivity()
    dx = np.array(sx.sensitivity, dtype=float).copy()
    m.reset()
    return y, dx


@guarded
def case_resp(ctx, pym, cs, grid, w, modes, x, seed, uovs=(), tag='resp'):
    """FilterConv with explicit weights: response and sensitivity (toleranced), user overrides"""
    nx, ny, nz = grid
    dom, sx, m = build_fconv(pym, grid, modes, weights=w, x=x)
    n1 = (max(1, nx), max(1, ny), max(1, nz))
    upts = []
    for index, v in uovs:
        m.override_values(index, v)
        upts.append((sel_points(n1, index), v))
    y, dx = run_module(m, sx, x, seed)
    finite(y, dx)
    w3 = w if w.ndim == 3 else w[:, :, None]
    g = f'(G {nx} {ny} {nz})'
    up = '[' + '; '.join(f'({pts_lit(p)}, {qlit(Fraction(v))}%Q)' for p, v in upts) + ']'
    f = f'(mk_fconv {g} {ql(qarr(w3))}%Q {coq_modes(modes)} {up})'
    ty, td = tol_for(y, x), tol_for(dx, seed)
    n = dom.nel
    expr = (f'(let f := {f} in let x := {ql(qarr(x))}%Q in let s := {ql(qarr(seed))}%Q in '
            f'Ql_close {qlit(ty)}%Q (fc_response f x) {ql(qarr(y))}%Q && Ql_close {qlit(ty)}%Q (fc_response_lin f x) {ql(qarr(y))}%Q && '
            f'Ql_close {qlit(td)}%Q (fc_sensitivity f {n}%nat s) {ql(qarr(dx))}%Q && '
            f'Ql_close {qlit(td)}%Q (fc_sensitivity_lin f {n}%nat s) {ql(qarr(dx))}%Q)')
    kinds = tuple('const' if isinstance(mm, Number) else mm for mm in modes)
    k = 'scipy.signal.convolve(valid)/correlate(full) = defining sums (1e-9)'
    ctx.oracle_validation[k] = ctx.oracle_validation.get(k, 0) + 1
    ctx.count('resp:dim%d' % (2 if nz == 0 else 3))
    ctx.count('resp:overrides' if uovs else 'resp:plain')
    cs.add((tag, grid, w3.shape, kinds, len(uovs), hash(x.tobytes()) & 0xffff), expr,
           replay=dict(kind='resp', grid=grid, weights=w3.tolist(), modes=[str(mm) for mm in modes], x=list(map(float, x)),
                       seed=list(map(float, seed)), overrides=[(p, v) for p, v in upts]))
    return m, y, dx, upts


def wtab_for(r, scale, shift, maxkey_coords):
    """exact rationals of the floats max(0, r - sqrt(key / 4^shift)) for every key the model may ask for"""
    keys = set()
    (ax, ay, az) = maxkey_coords
    for a in range(ax + 1):
        for b in range(ay + 1):
            for c in range(az + 1):
                keys.add((a * scale[0]) ** 2 + (b * scale[1]) ** 2 + (c * scale[2]) ** 2)
    tab = []
    for k in sorted(keys):
        d = math.sqrt(k * (4.0 ** -shift))
        tab.append((k, Fraction(max(0.0, float(r) - d))))
    return tab


def tab_lit(tab):
    return '[' + '; '.join(f'({k}, {qlit(v)}%Q)' for k, v in tab) + ']'


@guarded
def case_radius(ctx, pym, cs, grid, r, relative, sizes4, modes, x, seed):
    """FilterConv(radius=...): kernel (shape exact, values toleranced), response, sensitivity"""
    nx, ny, nz = grid
    sizes = [s / 4.0 for s in sizes4]
    dom, sx, m = build_fconv(pym, grid, modes, radius=r, relative_units=relative, sizes=sizes, x=x)
    y, dx = run_module(m, sx, x, seed)
    finite(y, dx)
    w = np.array(m.weights)
    rq = Fraction(float(r))
    scale = (1, 1, 1) if relative else tuple(sizes4)
    shift = 0 if relative else 2          # sizes are multiples of 1/4 : squared distance = key / 16
    d = [Fraction(1)] * 3 if relative else [Fraction(s, 4) for s in sizes4]
    g = f'(G {nx} {ny} {nz})'
    tab = wtab_for(float(r), scale, shift, (nx, ny, nz))
    dl = [f'(radius_delem {qlit(rq)}%Q {qlit(d[i])}%Q {grid[i]})' for i in range(3)]
    kern = f'(radius_kernel {dl[0]} {dl[1]} {dl[2]} {scale[0]} {scale[1]} {scale[2]} (lookup {tab_lit(tab)}))'
    f = f'(mk_fconv {g} {kern} {coq_modes(modes)} [])'
    ty, td = tol_for(y, x), tol_for(dx, seed)
    expr = (f'(let f := {f} in let x := {ql(qarr(x))}%Q in let s := {ql(qarr(seed))}%Q in '
            f'Zl_eqb [{dl[0]}; {dl[1]}; {dl[2]}] {zl([s // 2 for s in w.shape])} && '
            f'Qlll_close (1#1000000000)%Q (fc_w f) {ql(qarr(w))}%Q && '
            f'Ql_close {qlit(ty)}%Q (fc_response f x) {ql(qarr(y))}%Q && '
            f'Ql_close {qlit(td)}%Q (fc_sensitivity_lin f {dom.nel}%nat s) {ql(qarr(dx))}%Q)')
    kinds = tuple('const' if isinstance(mm, Number) else mm for mm in modes)
    ctx.count('radius:relative' if relative else 'radius:absolute')
    ctx.count('radius:r<1' if r < 1 else ('radius:r>domain' if r > max(nx, ny, max(nz, 1)) else 'radius:mid'))
    cs.add(('radius', grid, float(r), relative, tuple(sizes4), kinds), expr,
           replay=dict(kind='radius', grid=grid, radius=float(r), relative_units=relative, sizes=sizes,
                       modes=[str(mm) for mm in modes], x=list(map(float, x)), seed=list(map(float, seed))))
    return m, y, dx


@guarded
def case_dens(ctx, pym, cs, grid, r, x, seed, nonpad=None):
    """DensityFilter: H structure exactly (rows of sorted columns), values/Hs/response/sensitivity toleranced"""
    nx, ny, nz = grid
    dom = pym.DomainDefinition(nx, ny, nz)
    sx = pym.Signal('x', np.asarray(x, dtype=float))
    kw = {} if nonpad is None else dict(nonpadding=np.array(nonpad, dtype=int))
    m = pym.DensityFilter(sx, domain=dom, radius=r, **kw)
    y, dx = run_module(m, sx, x, seed)
    finite(y, dx)
    H = m.H.tocoo()
    rows = [[] for _ in range(dom.nel)]
    for i, j, v in zip(H.row.tolist(), H.col.tolist(), H.data.tolist()):
        rows[i].append((j, v))
    rows = [sorted(rw) for rw in rows]
    Hs = np.asarray(m.Hs, dtype=float).ravel()
    rq = Fraction(float(r))
    g = f'(G {nx} {ny} {nz})'
    tab = wtab_for(float(r), (1, 1, 1), 0, (nx, ny, max(nz, 1)))
    wt = f'(lookup {tab_lit(tab)})'
    npd = 'None' if nonpad is None else f'(Some {zl(list(nonpad))})'
    ty, td = tol_for(y, x), tol_for(dx, seed)
    t9 = '(1#1000000000)%Q'
    expr = (f'(let g := {g} in let de := dens_delem {qlit(rq)}%Q in let wt := {wt} in '
            f'let rows := map (fun el => sort_cols (h_row g de wt el)) (zrange (nel g)) in '
            f'cols_eqb rows {zl([[c for c, _ in rw] for rw in rows])} && '
            f'vals_close {t9} rows {ql([[Fraction(v) for _, v in rw] for rw in rows])}%Q && '
            f'Zl_eqb (map (nwind g de) (zrange (nel g))) {zl([len(rw) for rw in rows])} && '
            f'Ql_close {qlit(tol_for(Hs))}%Q (let mx := max_rowsum g de wt Qmax in map (dens_Hs_of g de wt mx {npd}) (zrange (nel g))) {ql(qarr(Hs))}%Q && '
            f'Ql_close {qlit(ty)}%Q (dens_response g de wt Qmax {npd} {ql(qarr(x))}%Q) {ql(qarr(y))}%Q && '
            f'Ql_close {qlit(td)}%Q (dens_sensitivity g de wt Qmax {npd} {ql(qarr(seed))}%Q) {ql(qarr(dx))}%Q && '
            f'Ql_close {qlit(ty)}%Q (apply (dens_triples g de wt Qmax {npd}) {dom.nel}%nat {ql(qarr(x))}%Q) {ql(qarr(y))}%Q)')
    k = 'scipy.sparse coo->csc, H.sum(1), H*x = row sums / row dot products (1e-9)'
    ctx.oracle_validation[k] = ctx.oracle_validation.get(k, 0) + 1
    ctx.count('dens:dim%d' % (2 if nz == 0 else 3))
    ctx.count('dens:nonpadding' if nonpad is not None else 'dens:plain')
    ctx.count('dens:r<1' if r < 1 else ('dens:r>domain' if r > max(nx, ny, max(nz, 1)) else 'dens:mid'))
    cs.add(('dens', grid, float(r), None if nonpad is None else tuple(nonpad)), expr,
           replay=dict(kind='dens', grid=grid, radius=float(r), nonpadding=None if nonpad is None else list(nonpad),
                       x=list(map(float, x)), seed=list(map(float, seed))))
    return m, y, dx


def case_malformed(ctx, pym, cs, kind, shape=None):
    dom = pym.DomainDefinition(3, 2)
    sx = pym.Signal('x', np.zeros(6))
    has_w, has_r = kind in ('both', 'even'), kind in ('both',)
    if kind == 'neither':
        has_w = has_r = False
    try:
        kw = {}
        if has_w:
            kw['weights'] = np.ones(shape)
        if has_r:
            kw['radius'] = 1.5
        pym.FilterConv(sx, domain=dom, **kw)
        got = None
    except Exception as e:
        got = exc_enum(e)
    obs = {None: 'None', 'ValueError': '(Some ErrValue)', 'AssertionError': '(Some ErrAssert)'}.get(got, '(Some ErrOther)')
    sh = list(shape) + [1] * (3 - len(shape)) if shape is not None else [1, 1, 1]
    ctx.count('malformed:' + kind)
    cs.add(('malformed', kind, tuple(sh)), f'err_eqb (fc_prepare_check {vlib.blit(has_w)} {vlib.blit(has_r)} {zl(sh)}) {obs}',
           replay=dict(kind='malformed', what=kind, shape=sh, got=got))


# ----------------------------------------------------------------------------- oracle (implementation side)
def oracle_fconv(ctx, grid, w, modes, x, y, upts, pads, call='FilterConv._response'):
    """independent reference + the predicates of the property on the implementation's output"""
    ctx.search_evaluations += 1
    kinds = tuple('const' if isinstance(mm, Number) else mm for mm in modes)
    case = dict(grid=grid, weights=np.asarray(w).tolist(), modes=[str(mm) for mm in modes], x=list(map(float, x)),
                overrides=[(p, v) for p, v in upts])
    scale = max(1.0, float(np.max(np.abs(x))) if len(x) else 1.0) * max(1.0, float(np.sum(np.abs(w))))
    w3 = w if w.ndim == 3 else w[:, :, None]
    if ideal_ok(grid, pads, modes):
        yr = ref_conv(grid, w3, ref_xpad(grid, pads, modes, x, upts))
        if yr.shape != y.shape or np.max(np.abs(yr - y)) > 1e-9 * scale:
            ctx.violation('impl-violates', call, 'y = kernel * ideally extended field', 'modes=' + '/'.join(kinds),
                          case, expected=yr.tolist(), got=y.tolist())
    noconst = not any(isinstance(mm, Number) for mm in modes) and not upts
    if noconst and np.all(w3 >= 0) and abs(np.sum(w3) - 1) < 1e-12:
        if np.min(y) < np.min(x) - 1e-9 * scale or np.max(y) > np.max(x) + 1e-9 * scale:
            ctx.violation('impl-violates', call, 'min x <= y <= max x', 'non-negative normalised kernel, no constants',
                          case, expected=[float(np.min(x)), float(np.max(x))], got=y.tolist())
        mirror = all(np.allclose(w3, np.flip(w3, axis=a), atol=1e-14) for a in range(3))
        if all(mm == 'symmetric' for mm in modes) and mirror:
            if abs(np.sum(y) - np.sum(x)) > 1e-9 * scale * len(x):
                ctx.violation('impl-violates', call, 'sum y = sum x', 'all symmetric, mirror-symmetric kernel',
                              case, expected=float(np.sum(x)), got=float(np.sum(y)))


def oracle_const(ctx, m, sx, n, modes, call):
    """a constant field stays the same constant (non-negative normalised kernel, no constant padding)"""
    ctx.search_evaluations += 1
    for cval in (1.0, -2.5):
        sx.state = np.full(n, cval)
        m.response()
        y = np.asarray(m.sig_out[0].state, dtype=float)
        if np.max(np.abs(y - cval)) > 1e-9 * abs(cval):
            ctx.violation('impl-violates', call, 'constant field preserved', 'non-negative normalised kernel, no constants',
                          dict(modes=[str(mm) for mm in modes], n=n, c=cval), expected=cval, got=y.tolist())


def oracle_dens(ctx, grid, r, x, y, nonpad):
    ctx.search_evaluations += 1
    nx, ny, nz = grid
    nz1 = max(nz, 1)
    n = nx * ny * nz1
    co = [(e % nx, (e // nx) % ny, e // (nx * ny)) for e in range(n)]
    Hf = np.zeros((n, n))
    for i in range(n):
        for j in range(n):
            d = math.sqrt(sum((co[i][t] - co[j][t]) ** 2 for t in range(3)))
            Hf[i, j] = max(0.0, r - d)
    s = Hf.sum(1)
    if nonpad is not None:
        s = np.where(np.isin(np.arange(n), nonpad), s, s.max())
    yr = Hf @ x / s
    scale = max(1.0, float(np.max(np.abs(x))))
    case = dict(grid=grid, radius=float(r), x=list(map(float, x)), nonpadding=None if nonpad is None else list(nonpad))
    if np.max(np.abs(yr - y)) > 1e-9 * scale:
        ctx.violation('impl-violates', 'DensityFilter._response', 'y_i = sum_j H_ij x_j / sum_j H_ij over ALL pairs',
                      'radius %s domain' % ('>' if r > max(nx, ny, nz1) else '<='), case, expected=yr.tolist(), got=y.tolist())
    if nonpad is None and (np.min(y) < np.min(x) - 1e-9 * scale or np.max(y) > np.max(x) + 1e-9 * scale):
        ctx.violation('impl-violates', 'DensityFilter._response', 'min x <= y <= max x', 'no nonpadding', case,
                      expected=[float(np.min(x)), float(np.max(x))], got=y.tolist())


# ----------------------------------------------------------------------------- histories / populations of filter modules
def index_of(spec, shape):
    """JSON index specification -> numpy index expression for an array of `shape`"""
    f = spec['form']
    if f == 'mask':
        return np.array(spec['mask'], dtype=bool).reshape(shape)
    if f == 'ints':
        return tuple(np.array(a, dtype=int) for a in spec['idx'])
    if f == 'point':
        return tuple(int(a) for a in spec['p'])
    if f == 'slice':
        return (slice(spec['a'], spec['a'] + 2), slice(None), 0)
    if f == 'box':
        return tuple(np.meshgrid(*[np.array(r, dtype=int) for r in spec['ranges']], indexing='ij'))
    if f == 'empty':
        return (np.array([], dtype=int), np.array([], dtype=int), np.array([], dtype=int))
    raise ValueError(f)


def cone_ref(r, relative, sizes, shape):
    """the cone kernel max(0, r - d) / sum on the offsets of a kernel of the given (odd) shape"""
    d = [1.0, 1.0, 1.0] if relative else list(sizes)
    ax = [(np.arange(s) - s // 2) * d[k] for k, s in enumerate(shape)]
    X, Y, Z = np.meshgrid(*ax, indexing='ij')
    w = np.maximum(0.0, r - np.sqrt(X * X + Y * Y + Z * Z))
    return w / w.sum()


def kern_coq(grid, r, relative, sizes4):
    rq = Fraction(float(r))
    scale = (1, 1, 1) if relative else tuple(sizes4)
    shift = 0 if relative else 2
    d = [Fraction(1)] * 3 if relative else [Fraction(sv, 4) for sv in sizes4]
    tab = wtab_for(float(r), scale, shift, tuple(grid))
    dl = [f'(radius_delem {qlit(rq)}%Q {qlit(d[i])}%Q {grid[i]})' for i in range(3)]
    return f'(radius_kernel {dl[0]} {dl[1]} {dl[2]} {scale[0]} {scale[1]} {scale[2]} (lookup {tab_lit(tab)}))'


def run_population(ctx, pym, cs, pop):
    """several filter modules in one process on shared DomainDefinition objects and one shared input signal; a global
    sequence of operations (constructions included) is executed on the implementation; every FilterConv module's own
    sub-history is evaluated by Model/FiltHist.v `frun`, all DensityFilter modules together by `drun`; every response is
    compared with an independent numpy statement of the property.
    pop = dict(name, grid, sizes4, mods=[spec], ops=[[what, k, ...]])"""
    grid = tuple(pop['grid'])
    nx, ny, nz = grid
    n1 = (max(1, nx), max(1, ny), max(1, nz))
    nelem = nx * ny * n1[2]
    sizes4 = pop.get('sizes4') or [4, 4, 4]
    sizes = [sv / 4.0 for sv in sizes4]
    doms = [pym.DomainDefinition(nx, ny, nz, *sizes), pym.DomainDefinition(nx, ny, nz, *sizes)]
    sx = pym.Signal('x', np.zeros(nelem))
    mods = [dict(spec=sp_, m=None, ops=[], obs=[], ovs=[], owned=[]) for sp_ in pop['mods']]
    g = f'(G {nx} {ny} {nz})'
    dens_ops, dens_obs, dens_index = [], [], {}
    pub = dict(pop)

    def bad(site, pred, detail, expected=None, got=None):
        ctx.violation('impl-violates', site, pred, 'several modules / histories', dict(population=pub, detail=detail),
                      expected=expected, got=got)

    def own(rec, name, arr):
        rec['owned'].append((name, arr, arr.copy()))

    for step, op in enumerate(pop['ops']):
        what, k = op[0], op[1]
        rec = mods[k]
        spec = rec['spec']
        site = 'DensityFilter' if spec['kind'] == 'dens' else 'FilterConv'
        try:
            if what == 'new':
                dom = doms[spec.get('dom', 0)]
                if spec['kind'] == 'dens':
                    kw = {}
                    if spec.get('nonpad') is not None:
                        npd = np.array(spec['nonpad'], dtype=int)
                        own(rec, 'nonpadding', npd)
                        kw['nonpadding'] = npd
                    rec['m'] = pym.DensityFilter(sx, domain=dom, radius=spec['radius'], **kw)
                    dens_index[k] = len(dens_index)
                    tab = wtab_for(float(spec['radius']), (1, 1, 1), 0, (nx, ny, n1[2]))
                    npq = 'None' if spec.get('nonpad') is None else f'(Some {zl(list(spec["nonpad"]))})'
                    dens_ops.append(f'DNew (DO {g} (dens_delem {qlit(Fraction(float(spec["radius"])))}%Q) (lookup {tab_lit(tab)}) {npq})')
                    ctx.count('hist:dens ' + ('nonpadding' if spec.get('nonpad') is not None else 'plain'))
                else:
                    modes = [mm if isinstance(mm, str) else float(mm) for mm in spec['modes']]
                    kw = dict(zip(BC_KEYS, modes))
                    if spec.get('weights') is not None:
                        w = np.array(spec['weights'], dtype=float)
                        own(rec, 'weights', w)
                        rec['m'] = pym.FilterConv(sx, domain=dom, weights=w, **kw)
                        w3 = w if w.ndim == 3 else w[:, :, None]
                        rec['f0'] = f'(mk_fconv {g} {ql(qarr(w3))}%Q {coq_modes(modes)} [])'
                    else:
                        r, rel = spec['radius']
                        rec['m'] = pym.FilterConv(sx, domain=dom, radius=r, relative_units=rel, **kw)
                        rec['f0'] = f'(mk_fconv {g} {kern_coq(grid, r, rel, sizes4)} {coq_modes(modes)} [])'
                    rec['modes'] = modes
                    rec['w'] = np.array(rec['m'].weights, dtype=float)
                    rec['pads'] = list(rec['m'].pad_sizes)
                    rec['pshape'] = tuple(n1[d] + 2 * rec['pads'][d] for d in range(3))
                    ctx.count('hist:fconv ' + ('weights' if spec.get('weights') is not None else 'radius'))
                continue
            m = rec['m']
            if m is None:
                raise RuntimeError('module was not constructed')
            if what in ('resp', 'padded'):
                x = np.array(op[2], dtype=float)
                xin = x.copy()
                if what == 'resp':
                    sx.state = xin
                    m.response()
                    y = np.array(m.sig_out[0].state, dtype=float).copy()
                else:
                    y = np.array(m.get_padded_vector(xin), dtype=float)
                finite(y)
                ctx.search_evaluations += 1
                if not np.array_equal(xin, x):
                    bad(site, 'caller-owned argument is left unchanged', dict(step=step, argument='x'))
                det = dict(step=step, module=k, op=what, x=list(map(float, x)))
                if spec['kind'] == 'dens':
                    dens_ops.append(f'DResp {dens_index[k]}%nat {ql(qarr(x))}%Q')
                    dens_obs.append(f'({qlit(tol_for(y, x))}%Q, {ql(qarr(y))}%Q)')
                    oracle_dens(ctx, grid, float(spec['radius']), x, y, spec.get('nonpad'))
                    ctx.count('hist:dens response')
                else:
                    rec['ops'].append(('FResp ' if what == 'resp' else 'FPadded ') + f'{ql(qarr(x))}%Q')
                    rec['obs'].append(f'({qlit(tol_for(y, x))}%Q, {"OY" if what == "resp" else "OP"} {ql(qarr(y))}%Q)')
                    ctx.count('hist:fconv ' + what + (' after overrides' if rec['ovs'] else ''))
                    w3, pads, modes = rec['w'], rec['pads'], rec['modes']
                    if ideal_ok(grid, pads, modes):
                        xp = ref_xpad(grid, pads, modes, x)
                        for pts, v in rec['ovs']:
                            for (a, b, c) in pts:
                                xp[a, b, c] = v
                        ref = ref_conv(grid, w3, xp) if what == 'resp' else xp
                        scale = max(1.0, float(np.max(np.abs(x)))) * max(1.0, float(np.sum(np.abs(w3))))
                        if ref.shape != y.shape or np.max(np.abs(ref - y)) > 1e-9 * scale:
                            bad(site, 'y = kernel * extended field with ALL registered overrides' if what == 'resp'
                                else 'padded vector = extended field with ALL registered overrides', det,
                                expected=np.asarray(ref).tolist(), got=y.tolist())
                    if not rec['ovs'] and what == 'resp' and not any(isinstance(mm, Number) for mm in modes) \
                            and np.all(w3 >= 0) and abs(np.sum(w3) - 1) < 1e-12:
                        sc_ = max(1.0, float(np.max(np.abs(x))))
                        if np.min(y) < np.min(x) - 1e-9 * sc_ or np.max(y) > np.max(x) + 1e-9 * sc_:
                            bad(site, 'min x <= y <= max x', det, [float(np.min(x)), float(np.max(x))], y.tolist())
            elif what == 'ovval':
                idx = index_of(op[2], n1)
                pts = sel_points(n1, idx)
                m.override_values(idx, float(op[3]))
                rec['ops'].append(f'FOvVal {pts_lit(pts)} {qlit(Fraction(float(op[3])))}%Q')
                rec['ovs'].append(([(a + rec['pads'][0], b + rec['pads'][1], c + rec['pads'][2]) for a, b, c in pts], float(op[3])))
                ctx.count('hist:override_values ' + op[2]['form'])
            elif what == 'ovpad':
                idx = index_of(op[2], rec['pshape'])
                pts = sel_points(rec['pshape'], idx)
                m.override_padded_values(idx, float(op[3]))
                rec['ops'].append(f'FOvPad {pts_lit(pts)} {qlit(Fraction(float(op[3])))}%Q')
                rec['ovs'].append((pts, float(op[3])))
                ctx.count('hist:override_padded_values ' + op[2]['form'])
            elif what == 'setradius':
                r, rel = op[2], op[3]
                m.set_filter_radius(r, rel)
                w = np.array(m.weights, dtype=float)
                ctx.search_evaluations += 1
                if w.shape != rec['w'].shape:
                    raise RuntimeError('harness: set_filter_radius changed the kernel shape (outside the generated class)')
                wr = cone_ref(r, rel, sizes, w.shape)
                if np.max(np.abs(w - wr)) > 1e-12:
                    bad('FilterConv.set_filter_radius', 'kernel = normalised cone', dict(step=step, radius=r, relative_units=rel),
                        expected=wr.tolist(), got=w.tolist())
                rec['w'] = w
                rec['ops'].append(f'FSetW {kern_coq(grid, r, rel, sizes4)}')
                ctx.count('hist:set_filter_radius')
        except Exception as e:   # noqa
            import traceback
            bad(site, 'admissible history handled: no exception, finite output', dict(step=step, op=repr(op)[:300], error=repr(e)[:400],
                                                                                      where=traceback.format_exc()[-800:]))
            rec['broken'] = True
    for k, rec in enumerate(mods):
        for name, arr, snap in rec['owned']:
            ctx.search_evaluations += 1
            if not np.array_equal(arr, snap):
                bad('DensityFilter' if rec['spec']['kind'] == 'dens' else 'FilterConv', 'caller-owned argument is left unchanged',
                    dict(module=k, argument=name))
        if rec['spec']['kind'] == 'fconv' and rec.get('f0') and rec['obs'] and not rec.get('broken'):
            expr = f'fhist_ok (frun {rec["f0"]} [' + '; '.join(rec['ops']) + ']) [' + '; '.join(rec['obs']) + ']'
            cs.add(('hist-fconv', pop['name'], k, len(rec['obs'])), expr, replay=dict(kind='population', population=pub, module=k))
    if dens_obs and not any(r_.get('broken') for r_ in mods if r_['spec']['kind'] == 'dens'):
        expr = 'dhist_ok (drun Qmax [] [' + '; '.join(dens_ops) + ']) [' + '; '.join(dens_obs) + ']'
        cs.add(('hist-dens', pop['name'], len(dens_obs)), expr, replay=dict(kind='population', population=pub))
    ctx.count('hist:populations')


RESIZE_TRIPLE = ('FilterConv.set_filter_radius', 'response = convolution with the re-sized kernel',
                 'radius changes the kernel shape after construction')


def probe_resize(ctx, pym):
    """candidate finding OUT_OF_SCOPE_C09_set_filter_radius_resize: set_filter_radius after construction with a radius of another
    int(r/dx) leaves pad sizes / index arrays stale.  Outside the generated class (see assumptions); the observation is
    recorded, and reported through the violation protocol only once the triple is registered in known_findings.json."""
    from scipy.signal import convolve as sconv
    d = pym.DomainDefinition(3, 3)
    x = np.arange(9.0)
    sx = pym.Signal('x', x)
    m = pym.FilterConv(sx, domain=d, radius=1.5)
    m.response()
    ctx.search_evaluations += 1
    try:
        m.set_filter_radius(2.5)
        m.response()
        y = np.array(m.sig_out[0].state, dtype=float)
        w = np.array(m.weights)
        p = [k // 2 for k in w.shape]
        xp = np.pad(x[d.elements], [(p[0], p[0]), (p[1], p[1]), (p[2], p[2])], mode='symmetric')
        yref = np.zeros(9)
        yref[d.elements] = sconv(xp, w, mode='valid')
        ok = y.shape == yref.shape and bool(np.max(np.abs(y - yref)) <= 1e-9 * 8)
        got = y.tolist()
    except Exception as e:   # noqa
        ok, got, yref = False, repr(e)[:200], np.zeros(0)
    registered = any(f.get('status') == 'known' and (f['call_site'], f['predicate'], f['input_class']) == RESIZE_TRIPLE
                     for f in ctx.findings)
    ctx.extra['set_filter_radius_resize'] = 'consistent' if ok else ('stale padding (registered finding)' if registered
                                                                     else 'stale padding (candidate finding, not registered)')
    if not ok and registered:
        ctx.violation('impl-violates', *RESIZE_TRIPLE, dict(grid=[3, 3, 0], radius0=1.5, radius1=2.5), expected=yref.tolist(), got=got)


def interior_of(grid):
    nx, ny, nz = grid
    n1z = max(nz, 1)
    return [(c * ny + b) * nx + a for c in range(n1z) for b in range(ny) for a in range(nx)
            if 0 < a < nx - 1 and (ny < 3 or 0 < b < ny - 1) and (n1z < 3 or 0 < c < n1z - 1)]


def dens_population(name, grid, radii, fld):
    """plain / nonpadding DensityFilters of equal (size, radius) on one domain object and on an equal second one, built and
    evaluated in interleaved order; earlier filters re-evaluated after later ones exist; one FilterConv radius module"""
    n = grid[0] * grid[1] * max(grid[2], 1)
    inner = interior_of(grid) or [0]
    mods, ops = [], []
    x1, x2, xc = fld(n), fld(n), [0.75] * n
    for r in radii:
        b = len(mods)
        mods += [dict(kind='dens', radius=r, nonpad=None, dom=0), dict(kind='dens', radius=r, nonpad=inner, dom=0),
                 dict(kind='dens', radius=r, nonpad=None, dom=1), dict(kind='dens', radius=r, nonpad=sorted(set(range(n)) - set(inner))[:max(1, n // 3)], dom=1),
                 dict(kind='dens', radius=r, nonpad=None, dom=0)]
        ops += [['new', b], ['resp', b, x1], ['new', b + 1], ['resp', b + 1, x1], ['resp', b, x1], ['resp', b, xc],
                ['new', b + 2], ['resp', b + 2, x2], ['new', b + 3], ['resp', b + 3, x2], ['resp', b + 1, x2], ['resp', b, x2],
                ['new', b + 4], ['resp', b + 4, x1], ['resp', b + 4, xc], ['resp', b + 2, xc], ['resp', b + 3, x1]]
    # a nonpadding filter built BEFORE the plain one of the same size and radius
    b = len(mods)
    r = radii[0] + 0.25
    mods += [dict(kind='dens', radius=r, nonpad=inner, dom=0), dict(kind='dens', radius=r, nonpad=None, dom=0),
             dict(kind='fconv', radius=[radii[0], True], modes=['symmetric'] * 6, dom=0)]
    ops += [['new', b], ['resp', b, x1], ['new', b + 1], ['resp', b + 1, x1], ['resp', b + 1, xc], ['resp', 0, x1],
            ['new', b + 2], ['resp', b + 2, x1], ['resp', b + 2, xc], ['resp', 0, xc]]
    return dict(name=name, grid=list(grid), sizes4=[4, 4, 4], mods=mods, ops=ops)


def aniso_populations(seed):
    """the same population structure on strongly anisotropic 3-D domains (z the long axis; a column one element wide), radii
    beyond the short extents and beyond every extent; own random stream (field values only)"""
    import random
    rng = random.Random(f'C09-aniso-pop-{seed}')

    def fld(n):
        return [float(v) for v in rand_field(rng, n)]
    return [dens_population('P6 dens 1x1x5 column, r >= 1 and r > domain', (1, 1, 5), (1.0, 5.5), fld),
            dens_population('P7 dens 2x2x6, r beyond the short extents', (2, 2, 6), (3.5,), fld),
            dens_population('P8 dens 1x5x2', (1, 5, 2), (2.5,), fld)]


def stress_populations(rng):
    """deterministic structure, run on every seed (only the field values vary with the seed)"""
    pops = []

    def fld(n):
        return [float(v) for v in rand_field(rng, n)]
    # ---- P1..P3: DensityFilter populations: plain / nonpadding filters of equal (size, radius) on one domain object and on
    #      an equal second one, built and evaluated in interleaved order; earlier filters re-evaluated after later ones exist
    for name, grid, radii in (('P1 dens 5x4', (5, 4, 0), (2.5, 1.5)), ('P2 dens 3-D', (3, 2, 2), (1.5,)), ('P3 dens 6x1, r > domain', (6, 1, 0), (6.5, 1.0))):
        pops.append(dens_population(name, grid, radii, fld))
    # ---- P4: FilterConv, 2-D: overrides registered after the first response / after get_padded_vector / between responses;
    #      several modules on one domain with different boundary modes; set_filter_radius between responses
    grid = (4, 3, 0)
    n = 12
    w33 = rand_kernel(rng, [3, 3, 1], 'normalised')
    mask = [[[bool((a + b) % 3 == 0)] for b in range(3)] for a in range(4)]
    x1, x2 = fld(n), fld(n)
    mods = [dict(kind='fconv', weights=w33[:, :, 0].tolist(), modes=[0.0, 'symmetric', 'edge', 1.0, 'symmetric', 'symmetric'], dom=0),
            dict(kind='fconv', weights=w33.tolist(), modes=['wrap', 'wrap', 'symmetric', 'edge', 'symmetric', 'symmetric'], dom=0),
            dict(kind='fconv', radius=[1.5, True], modes=['symmetric', 2.0, 'symmetric', 'symmetric', 'symmetric', 'symmetric'], dom=0),
            dict(kind='fconv', radius=[2.6, False], modes=['edge', 'symmetric', -1.0, 'wrap', 'symmetric', 'symmetric'], dom=1)]
    ops = [['new', 0], ['resp', 0, x1], ['ovval', 0, dict(form='mask', mask=mask), 1.0], ['resp', 0, x1],
           ['new', 1], ['padded', 1, x1], ['ovval', 1, dict(form='point', p=[2, 1, 0]), 0.0], ['padded', 1, x1], ['resp', 1, x1],
           ['ovval', 0, dict(form='point', p=[3, 1, 0]), 0.0], ['resp', 0, x2], ['padded', 0, x2],
           ['ovpad', 0, dict(form='ints', idx=[[0, 5], [1, 4], [0, 0]]), 2.0], ['resp', 0, x2],
           ['ovpad', 1, dict(form='empty'), 9.0], ['resp', 1, x2],
           ['ovpad', 1, dict(form='box', ranges=[[0, 1], [0, 1, 2], [0]]), -2.0], ['resp', 1, x2],
           ['ovval', 1, dict(form='slice', a=1), 3.0], ['resp', 1, x1], ['resp', 0, x1],
           ['new', 2], ['resp', 2, x1], ['setradius', 2, 1.9, True], ['resp', 2, x1], ['ovval', 2, dict(form='ints', idx=[[0, 3], [2, 0], [0, 0]]), 0.5],
           ['resp', 2, x1], ['setradius', 2, 1.25, True], ['resp', 2, x2], ['resp', 0, x2],
           ['new', 3], ['ovval', 3, dict(form='point', p=[0, 0, 0]), 1.0], ['resp', 3, x1], ['ovval', 3, dict(form='point', p=[1, 2, 0]), 0.0],
           ['resp', 3, x1], ['setradius', 3, 2.9, False], ['resp', 3, x2], ['resp', 1, x2]]
    pops.append(dict(name='P4 fconv 2-D override histories', grid=list(grid), sizes4=[4, 5, 4], mods=mods, ops=ops))
    # ---- P5: FilterConv 3-D
    grid = (2, 3, 2)
    n = 12
    w333 = rand_kernel(rng, [3, 3, 3], 'normalised')
    x1, x2 = fld(n), fld(n)
    mods = [dict(kind='fconv', weights=w333.tolist(), modes=['symmetric', 'edge', 'wrap', 'wrap', 0.0, 'symmetric'], dom=0),
            dict(kind='fconv', weights=w333.tolist(), modes=['symmetric'] * 6, dom=0)]
    ops = [['new', 0], ['new', 1], ['resp', 0, x1], ['resp', 1, x1], ['ovval', 0, dict(form='point', p=[1, 1, 1]), 1.0], ['resp', 0, x1],
           ['ovval', 1, dict(form='ints', idx=[[0, 1], [2, 0], [1, 0]]), 0.0], ['resp', 1, x1], ['resp', 0, x2],
           ['ovpad', 0, dict(form='ints', idx=[[0], [0], [3]]), 5.0], ['resp', 0, x2], ['padded', 0, x2], ['resp', 1, x2]]
    pops.append(dict(name='P5 fconv 3-D override histories', grid=list(grid), sizes4=[4, 4, 4], mods=mods, ops=ops))
    return pops


def random_population(rng, idx):
    three_d = rng.random() < 0.25
    nx, ny = rng.randint(1, 4), rng.randint(1, 4)
    nz = rng.randint(1, 2) if three_d else 0
    n1 = (nx, ny, max(nz, 1))
    n = nx * ny * n1[2]
    mods, ops = [], []
    radii = [rng.choice([0.75, 1.0, 1.5, 2.0, 2.3, 2.5, max(n1) + 0.5]) for _ in range(2)]

    def fld():
        return [float(v) for v in rand_field(rng, n)]
    nmod = rng.randint(3, 6)
    for k in range(nmod):
        if rng.random() < 0.55:
            r = rng.choice(radii)
            nonpad = sorted(rng.sample(range(n), rng.randint(0, n))) if rng.random() < 0.5 else None
            mods.append(dict(kind='dens', radius=r, nonpad=nonpad, dom=rng.choice((0, 0, 1))))
        else:
            kinds = [rng.choice(MODES) for _ in range(6)]
            modes = make_modes(kinds, rng)
            if rng.random() < 0.5:
                pads = [rng.randint(0, min(n1[d], 1 if three_d else 2)) for d in range(3)]
                if not three_d:
                    pads[2] = 0
                w = rand_kernel(rng, [2 * p + 1 for p in pads], rng.choice(['int', 'normalised']))
                mods.append(dict(kind='fconv', weights=w.tolist(), modes=modes, dom=rng.choice((0, 1))))
            else:
                r = rng.choice([0.75, 1.5, 2.5]) if not three_d else rng.choice([0.75, 1.5])
                mods.append(dict(kind='fconv', radius=[r, True], modes=modes, dom=rng.choice((0, 1))))
        ops += [['new', k], ['resp', k, fld()]]
        for _ in range(rng.randint(1, 3)):
            j = rng.randrange(k + 1)
            if mods[j]['kind'] == 'fconv' and rng.random() < 0.6:
                form = rng.choice(['mask', 'ints', 'point'])
                if form == 'mask':
                    spec = dict(form='mask', mask=[[[rng.random() < 0.3 for _ in range(n1[2])] for _ in range(n1[1])] for _ in range(n1[0])])
                elif form == 'ints':
                    q = rng.randint(1, 3)
                    spec = dict(form='ints', idx=[[rng.randrange(n1[d]) for _ in range(q)] for d in range(3)])
                else:
                    spec = dict(form='point', p=[rng.randrange(n1[d]) for d in range(3)])
                ops.append(['ovval', j, spec, float(rng.choice([0, 1, -3, 2.5]))])
                if mods[j].get('radius') is not None and rng.random() < 0.4:
                    r0 = mods[j]['radius'][0]
                    ops.append(['setradius', j, r0 + rng.choice([0.1, 0.2, -0.2]), True])
            ops.append([rng.choice(['resp', 'resp', 'padded']) if mods[j]['kind'] == 'fconv' else 'resp', j, fld()])
    order = list(range(nmod))
    rng.shuffle(order)
    x = fld()
    ops += [['resp', j, x] for j in order]
    return dict(name=f'random population {idx}', grid=[nx, ny, nz], sizes4=[4, 4, 4], mods=mods, ops=ops)



ANISO_GRIDS = [(1, 1, 6), (1, 6, 1), (6, 1, 1), (2, 2, 6), (6, 2, 2), (2, 6, 2), (1, 6, 0), (6, 1, 0), (1, 2, 5), (3, 1, 4)]
ANISO_RADII = [0.5, 1.0, 1.5, 2.0, 3.5, 5.5, 6.5, 9.0]


def stress_anisotropic(ctx, pym, cs, seed):
    """deterministic, run on every seed (only the field values vary): strongly anisotropic domains -- each axis in turn the
    long one, columns one element wide, 2-D strips -- with radii from below one element to larger than EVERY extent.
    DensityFilter is compared with the Coq model (window of half-width int(r) on all three axes, H structure exactly) and with
    the cone average over ALL elements of the domain (oracle_dens: dense n x n reference, nothing windowed); FilterConv radius
    kernels on the same domains in relative units and in absolute units with anisotropic element sizes."""
    import random
    rng = random.Random(f'C09-aniso-{seed}')
    t = 0
    for grid in ANISO_GRIDS:
        nx, ny, nz = grid
        n1 = (nx, ny, max(nz, 1))
        n = nx * ny * n1[2]
        for r in ANISO_RADII:
            t += 1
            x, sd = rand_field(rng, n), rand_field(rng, n)
            nonpad = sorted(rng.sample(range(n), max(1, n // 2))) if t % 4 == 0 else None
            ctx.count('aniso:dens long axis %s' % 'xyz'[max(range(3), key=lambda d: n1[d])])
            ctx.count('aniso:dens r %s every extent' % ('>' if r > max(n1) else ('< 1' if r < 1 else 'within')))
            res = case_dens(ctx, pym, cs, grid, r, x, sd, nonpad)
            if res is not None:
                m, y, dx = res
                oracle_dens(ctx, grid, float(r), x, y, nonpad)
                if nonpad is None:
                    oracle_const(ctx, m, m.sig_in[0], n, [], 'DensityFilter._response')
            # FilterConv radius kernel on the same domain
            relative = t % 2 == 0
            sizes4 = [4, 4, 4] if relative else [[2, 4, 8], [8, 2, 4], [4, 8, 2], [3, 5, 6]][t % 4]
            kinds = ['symmetric'] * 6 if t % 3 else [['edge', 'wrap', 'symmetric', 'edge', 'wrap', 'wrap'],
                                                     ['wrap', 'const', 'edge', 'symmetric', 'symmetric', 'edge']][(t // 3) % 2]
            modes = make_modes(kinds)
            x, sd = rand_field(rng, n), rand_field(rng, n)
            ctx.count('aniso:radius ' + ('relative' if relative else 'absolute, anisotropic element sizes'))
            res = case_radius(ctx, pym, cs, grid, r, relative, sizes4, modes, x, sd)
            if res is None:
                continue
            m, y, dx = res
            w = np.array(m.weights)
            ctx.search_evaluations += 1
            d = [1.0, 1.0, 1.0] if relative else [s_ / 4.0 for s_ in sizes4]
            want = [min(n1[k], int((r - 1e-10 * d[k]) / d[k])) for k in range(3)]
            if nz == 0:
                want[2] = 0
            wr = cone_ref(r, relative, d, [2 * q + 1 for q in want])
            if list(w.shape) != [2 * q + 1 for q in want] or np.max(np.abs(w - wr)) > 1e-12:
                ctx.violation('impl-violates', 'FilterConv.set_filter_radius', 'kernel = normalised cone on ALL offsets within the radius (clipped to the domain size per axis)',
                              'relative' if relative else 'absolute', dict(grid=grid, radius=r, sizes=d),
                              expected=wr.tolist(), got=w.tolist())
            oracle_fconv(ctx, grid, w, modes, x, y, [], list(m.pad_sizes), call='FilterConv(radius)')
            if not any(isinstance(mm, Number) for mm in modes):
                oracle_const(ctx, m, m.sig_in[0], n, modes, 'FilterConv(radius)')


# ----------------------------------------------------------------------------- generation
def rand_kernel(rng, shape, kind):
    if kind == 'int':
        w = np.array([[[rng.randint(-2, 5) for _ in range(shape[2])] for _ in range(shape[1])] for _ in range(shape[0])], dtype=float)
    elif kind == 'normalised':     # non-negative dyadic entries that sum to one exactly
        w = np.array([[[rng.randint(0, 4) for _ in range(shape[2])] for _ in range(shape[1])] for _ in range(shape[0])], dtype=float)
        w[shape[0] // 2, shape[1] // 2, shape[2] // 2] += 1
        w = w / w.sum()
    else:                           # mirror-symmetric about every axis, non-negative, normalised
        w = np.array([[[rng.randint(0, 4) for _ in range(shape[2])] for _ in range(shape[1])] for _ in range(shape[0])], dtype=float)
        w[shape[0] // 2, shape[1] // 2, shape[2] // 2] += 1
        for a in range(3):
            w = w + np.flip(w, axis=a)
        w = w / w.sum()
    return w


def rand_field(rng, n):
    return np.array([rng.randint(-4, 9) for _ in range(n)], dtype=float)


def gen_overrides(rng, n1):
    out = []
    for _ in range(rng.randint(1, 2)):
        form = rng.choice(['mask', 'ints', 'slice'])
        if form == 'mask':
            idx = np.array([[[rng.random() < 0.3 for _ in range(n1[2])] for _ in range(n1[1])] for _ in range(n1[0])])
        elif form == 'ints':
            k = rng.randint(1, 3)
            idx = (np.array([rng.randrange(n1[0]) for _ in range(k)]), np.array([rng.randrange(n1[1]) for _ in range(k)]),
                   np.array([rng.randrange(n1[2]) for _ in range(k)]))
        else:
            a = rng.randrange(n1[0])
            idx = (slice(a, a + 2), slice(None), 0)
        out.append((idx, float(rng.choice([0, 1, -3, 2.5]))))
    return out


def run_corpus(ctx, pym, cs):
    d = os.path.join(vlib.ROOT, 'corpus', 'C09')
    n = 0
    for fn in sorted(os.listdir(d)) if os.path.isdir(d) else []:
        if not fn.endswith('.json'):
            continue
        for e in json.load(open(os.path.join(d, fn)))['cases']:
            n += 1
            k = e['kind']
            modes = [mm if isinstance(mm, str) else float(mm) for mm in e.get('modes', ['symmetric'] * 6)]
            grid = tuple(e.get('grid', (1, 1, 0)))
            if k == 'pad':
                case_pad(ctx, pym, cs, grid, e['pads'], modes, tag='corpus-pad')
            elif k == 'resp':
                w = np.array(e['weights'], dtype=float)
                x, seed = np.array(e['x'], dtype=float), np.array(e['seed'], dtype=float)
                uovs = [(tuple(np.array(a) for a in zip(*pts)), v) for pts, v in e.get('overrides', [])]
                res = case_resp(ctx, pym, cs, grid, w, modes, x, seed, uovs, tag='corpus-resp')
                if res is None:
                    continue
                m, y, dx, upts = res
                oracle_fconv(ctx, grid, w, modes, x, y, upts, [s // 2 for s in (w.shape if w.ndim == 3 else w.shape + (1,))])
            elif k == 'radius':
                x, seed = np.array(e['x'], dtype=float), np.array(e['seed'], dtype=float)
                res = case_radius(ctx, pym, cs, grid, e['radius'], e['relative_units'], e['sizes4'], modes, x, seed)
                if res is None:
                    continue
                m, y, dx = res
                oracle_fconv(ctx, grid, np.array(m.weights), modes, x, y, [], list(m.pad_sizes), call='FilterConv(radius)')
            elif k == 'dens':
                x, seed = np.array(e['x'], dtype=float), np.array(e['seed'], dtype=float)
                res = case_dens(ctx, pym, cs, grid, e['radius'], x, seed, e.get('nonpadding'))
                if res is None:
                    continue
                m, y, dx = res
                oracle_dens(ctx, grid, e['radius'], x, y, e.get('nonpadding'))
    ctx.count('corpus', n)


def run(ctx):
    import pymoto as pym
    quick = ctx.quick()
    rng = ctx.rng
    ctx.rule = ('corpus first; per-axis exhaustive padding (16 mode pairs x n<=5 x pad<=n+2 on each of the three axes); random '
                '6-tuples of modes x grids 1..5 (2-D and 3-D, one-element-wide included) x pad sizes 0..n+2 (thorough: all 256 '
                '4-tuples x 2-D grids <=3x2 x pad sizes {0,1,n,n+2}); np.pad 1-D index semantics on n<=6 x pads<=2n+3; responses/'
                'sensitivities with integer or dyadic normalised kernels and integer fields incl. override_values; radius '
                'kernels 0.3..domain+1.5 in relative/absolute units; DensityFilter H/Hs/response/sensitivity incl. nonpadding; '
                'malformed constructor calls (exception class only); histories / populations (Model/FiltHist.v): 5 deterministic '
                'populations on every seed + random ones: plain and nonpadding DensityFilters of equal (size, radius) on one shared '
                'DomainDefinition object and on an equal second one plus FilterConv modules (weights / radius, different boundary '
                'modes) on one shared input signal, constructed and evaluated in interleaved order, earlier modules re-evaluated '
                'after later ones exist; FilterConv: override_values (mask/ints/point/slice), override_padded_values '
                '(ints/meshgrid box/empty) and set_filter_radius (kernel shape preserved) called AFTER responses / get_padded_vector, '
                'every later response and padded vector compared with `frun` / `drun` and with a numpy reference.  Anisotropic domains (deterministic, every seed): '
                'DensityFilter and FilterConv radius kernels on 1x1x6, 1x6x1, 6x1x1, 2x2x6, 6x2x2, 2x6x2, 1x2x5, 3x1x4, 1x6, 6x1 with radii 0.5 .. 9 '
                '(below one element .. larger than every extent), compared with the model and with the cone average over ALL elements (dense reference); '
                '3 populations on such domains.  A case is non-trivial when something is padded / the '
                'filter is not the identity; distinct by (kind, grid, pads or kernel shape, modes, data hash)')
    ctx.assumptions += [
        '2-D domains (nelz = 0) are used with 2-D kernels (z-width 1); a z-thick kernel on a 2-D domain is wider than the padded '
        'domain and outside the property',
        'scipy.signal.convolve/correlate are modelled by their defining sums (validated toleranced; FFT switch allowed)',
        'radii are generated away from the float-rounding boundary of int((r-1e-10*dx)/dx) (model evaluates that in exact Q)',
        'theorems about averages/bounds are over the reals; floats are tied by 1e-9 relative comparison in exact Q',
        'set_filter_radius after construction is generated only with radii that keep the kernel shape (pad sizes and index arrays are '
        'computed once in _prepare; a radius with another int(r/dx) makes kernel and padding inconsistent: np.add.at raises or '
        'broadcasts; the docstring does not offer re-sizing, so this is outside the property)']
    ctx.trusted += ['modelled rather than verified: numpy fancy indexing x[el3d_pad], np.add.at scatter, scipy sparse matvec '
                    '(validated by correspondence)',
                    'math.sqrt (harness) and np.sqrt (implementation) are the same correctly rounded IEEE function: the cone '
                    'weight table handed to the model is computed by the harness from the radius, not read from the implementation']
    vlib.audit(ctx)
    if not vlib.ensure_static(ctx):
        return
    vlib.check_props(ctx)
    cs = Cases(ctx)

    # ---- corpus
    run_corpus(ctx, pym, cs)

    # ---- np.pad contract (1-D)
    for mode in ('symmetric', 'edge', 'wrap', 'constant'):
        for n in range(1, 7 if quick else 9):
            pls = range(0, 2 * n + 4)
            for pl in pls:
                for pr in ((0, pl, 2 * n + 3 - pl) if quick else pls):
                    case_nppad(ctx, cs, n, pl, pr, mode)

    # ---- per-axis exhaustive padding
    for axis in range(3):
        for k0, k1 in itertools.product(MODES, MODES):
            for n in range(1, 6):
                for p in range(0, n + 3):
                    grid = [1, 1, 1 if axis == 2 else 0]
                    grid[axis] = n
                    if axis == 2:
                        grid = [1, 2, n]
                    pads = [0, 0, 0]
                    pads[axis] = p
                    kinds = ['symmetric'] * 6
                    kinds[2 * axis], kinds[2 * axis + 1] = k0, k1
                    case_pad(ctx, pym, cs, tuple(grid), pads, make_modes(kinds), tag='pad-axis')

    # ---- mixed 6-tuples
    def rand_pad_case(three_d):
        nx, ny = rng.randint(1, 5), rng.randint(1, 5)
        nz = rng.randint(1, 4) if three_d else 0
        big = rng.random() < 0.35
        pads = [rng.randint(0, (n + 2) if big else min(n, 2)) for n in (nx, ny, max(nz, 1))]
        if not three_d:
            pads[2] = 0
        if three_d and (nx + 2 * pads[0]) * (ny + 2 * pads[1]) * (nz + 2 * pads[2]) > 700:
            pads[rng.randrange(3)] = 0
        kinds = [rng.choice(MODES) for _ in range(6)]
        return (nx, ny, nz), pads, make_modes(kinds)
    for _ in range(350 if quick else 2000):
        case_pad(ctx, pym, cs, *rand_pad_case(False))
    for _ in range(150 if quick else 1200):
        case_pad(ctx, pym, cs, *rand_pad_case(True))
    if not quick:
        for kinds4 in itertools.product(MODES, repeat=4):
            for nx in (1, 2, 3):
                for ny in (1, 2):
                    for px in sorted({0, 1, nx, nx + 2}):
                        for py in sorted({0, 1, ny, ny + 2}):
                            case_pad(ctx, pym, cs, (nx, ny, 0), [px, py, 0], make_modes(list(kinds4) + ['symmetric'] * 2),
                                     tag='pad-2d-exh')
        ctx.extra['exhaustive_2d'] = 'all 256 mode 4-tuples x grids {1,2,3}x{1,2} x pad sizes {0, 1, n, n+2} per axis'

    # ---- responses / sensitivities with explicit kernels
    for t in range(110 if quick else 900):
        three_d = t % 3 == 2
        nx, ny = rng.randint(1, 5), rng.randint(1, 5)
        nz = rng.randint(1, 3) if three_d else 0
        n1 = (nx, ny, max(nz, 1))
        big = rng.random() < 0.25
        pads = [rng.randint(0, (n + 2) if big else min(n, 2)) for n in n1]
        if not three_d:
            pads[2] = 0
        while (2 * pads[0] + 1) * (2 * pads[1] + 1) * (2 * pads[2] + 1) * nx * ny * n1[2] > (2000 if quick else 5000):
            pads[max(range(3), key=lambda d: pads[d])] -= 1
        shape = [2 * p + 1 for p in pads]
        flavour = rng.choice(['int', 'normalised', 'mirror', 'mirror'])
        w = rand_kernel(rng, shape, flavour)
        if flavour == 'int':
            kinds = [rng.choice(MODES) for _ in range(6)]
        elif flavour == 'normalised':
            kinds = [rng.choice(MODES[:3]) for _ in range(6)]
        else:
            kinds = ['symmetric'] * 6 if rng.random() < 0.7 else [rng.choice(MODES[:3]) for _ in range(6)]
        modes = make_modes(kinds, rng)
        x, seed = rand_field(rng, nx * ny * n1[2]), rand_field(rng, nx * ny * n1[2])
        uovs = gen_overrides(rng, n1) if rng.random() < 0.25 else []
        wpass = w[:, :, 0] if (not three_d and rng.random() < 0.5) else w
        ctx.count('kernel:' + flavour)
        res = case_resp(ctx, pym, cs, (nx, ny, nz), wpass, modes, x, seed, uovs)
        if res is None:
            continue
        m, y, dx, upts = res
        oracle_fconv(ctx, (nx, ny, nz), w, modes, x, y, upts, pads)
        if flavour != 'int' and not uovs and not any(isinstance(mm, Number) for mm in modes):
            oracle_const(ctx, m, m.sig_in[0], nx * ny * n1[2], modes, 'FilterConv._response')

    # ---- radius kernels
    radii = [0.3, 0.75, 1.0, 1.25, 1.5, 2.0, 2.3, 2.5, 3.0, 3.7, 4.5, 5.2, 6.5]
    for t in range(45 if quick else 400):
        three_d = t % 3 == 2
        nx, ny = rng.randint(1, 5), rng.randint(1, 5)
        nz = rng.randint(1, 3) if three_d else 0
        n1 = (nx, ny, max(nz, 1))
        relative = rng.random() < 0.5
        sizes4 = [rng.choice([2, 3, 4, 5, 6, 8]) for _ in range(3)]
        r = rng.choice(radii + [max(n1) + 1.5, max(n1) + 0.5])
        if three_d and r > 3.0:
            r = rng.choice([0.3, 1.25, 1.5, 2.3, 2.5])
        kinds = [rng.choice(MODES) for _ in range(6)] if rng.random() < 0.6 else ['symmetric'] * 6
        modes = make_modes(kinds, rng)
        x, seed = rand_field(rng, nx * ny * n1[2]), rand_field(rng, nx * ny * n1[2])
        res = case_radius(ctx, pym, cs, (nx, ny, nz), r, relative, sizes4, modes, x, seed)
        if res is None:
            continue
        m, y, dx = res
        w = np.array(m.weights)
        ctx.search_evaluations += 1
        if np.min(w) < 0 or abs(np.sum(w) - 1) > 1e-12 or any(2 * p + 1 != s for p, s in zip(m.pad_sizes, w.shape)) \
                or any(p > n for p, n in zip(m.pad_sizes, n1)):
            ctx.violation('impl-violates', 'FilterConv.set_filter_radius', 'kernel >= 0, sums to one, no wider than 2n+1',
                          'relative' if relative else 'absolute', dict(grid=(nx, ny, nz), radius=r, sizes=[s / 4 for s in sizes4]),
                          expected=1.0, got=float(np.sum(w)))
        oracle_fconv(ctx, (nx, ny, nz), w, modes, x, y, [], list(m.pad_sizes), call='FilterConv(radius)')
        if not any(isinstance(mm, Number) for mm in modes):
            oracle_const(ctx, m, m.sig_in[0], nx * ny * n1[2], modes, 'FilterConv(radius)')

    # ---- DensityFilter
    for t in range(45 if quick else 400):
        three_d = t % 3 == 2
        nx, ny = rng.randint(1, 5), rng.randint(1, 5)
        nz = rng.randint(1, 3) if three_d else 0
        n1 = (nx, ny, max(nz, 1))
        n = nx * ny * n1[2]
        r = rng.choice(radii + [max(n1) + 1.5, max(n1) + 0.5, 1, 2, 3])
        if n > 40 and r > 3:
            r = rng.choice([0.3, 1.25, 1.5, 2, 2.3, 2.5])
        x, seed = rand_field(rng, n), rand_field(rng, n)
        nonpad = sorted(rng.sample(range(n), rng.randint(0, n))) if rng.random() < 0.3 else None
        res = case_dens(ctx, pym, cs, (nx, ny, nz), r, x, seed, nonpad)
        if res is None:
            continue
        m, y, dx = res
        oracle_dens(ctx, (nx, ny, nz), float(r), x, y, nonpad)
        if nonpad is None:
            oracle_const(ctx, m, m.sig_in[0], n, [], 'DensityFilter._response')

    # ---- strongly anisotropic domains, every run
    stress_anisotropic(ctx, pym, cs, ctx.seed)

    # ---- histories and populations: several modules per process, option-changing methods between responses
    for pop in stress_populations(rng) + aniso_populations(ctx.seed):
        run_population(ctx, pym, cs, pop)
    for t in range(6 if quick else 60):
        run_population(ctx, pym, cs, random_population(rng, t))

    probe_resize(ctx, pym)

    # ---- malformed stream: exception class only
    for kind, shape in (('both', (3, 3)), ('neither', None), ('even', (2, 3)), ('even', (3, 4)), ('even', (3, 3, 2)),
                        ('even', (4, 4, 4))):
        case_malformed(ctx, pym, cs, kind, shape)

    import time
    ctx.extra['seconds_generation_and_oracle'] = round(time.time() - ctx.t0, 1)
    # balance the shards by (estimated) cost
    chunk = 40 if quick else 100
    nshard = max(1, -(-len(cs.checks) // chunk))
    by_cost = sorted(range(len(cs.checks)), key=lambda i: -len(cs.checks[i]))
    order = [i for sh in range(nshard) for i in by_cost[sh::nshard]]      # deal the cases round-robin: balanced shards
    chunk = -(-len(order) // nshard)
    cs.checks = [cs.checks[i] for i in order]
    cs.labels = [cs.labels[i] for i in order]
    cs.replay = [cs.replay[i] for i in order]
    failing, err = vlib.run_cases(ctx, 'c09', HEADER, cs.checks, chunk=chunk, timeout=1500)
    ctx.obligation('correspondence:case files evaluated', 'correspondence', not err, err)
    if err:
        ctx.violation('correspondence', 'FilterConv/DensityFilter', 'case files compile', 'harness', dict(error=err[-3000:]),
                      theorem='cases_c09')
    for idx in failing[:20]:
        lab = cs.labels[idx]
        site = {'dens': 'DensityFilter', 'hist-dens': 'DensityFilter', 'np.pad': 'numpy.pad', 'malformed': 'FilterConv._prepare'}.get(str(lab[0]), 'FilterConv')
        ctx.violation('correspondence', site, 'model == implementation', str(lab[0]),
                      dict(label=repr(lab), replay=cs.replay[idx], coq_check=cs.checks[idx][:3000]),
                      note='Coq model and implementation differ')
    ctx.extra['failing_cases'] = len(failing)
    ctx.extra['seconds_total'] = round(time.time() - ctx.t0, 1)


if __name__ == '__main__':
    vlib.main(run, 'C09')
