import sys, os, time
import vlib, C01_overhang
import pymoto as pym
seed = int(os.environ.get('VERIF_SEED', '1'))
ctx = vlib.Ctx('C01', os.environ.get('TIER', 'quick'), seed)
t = time.time()
C01_overhang.run_part(ctx, pym)
print('time', time.time() - t, 'cases', ctx.evaluations, 'distinct', len(ctx.distinct))
for o in ctx.obligations: print(o['ok'], o['name'], o['detail'][:1500])
for v in ctx.violations[:3]: print({k: (str(x)[:600]) for k, x in v.items()})
