import sys, time
import vlib, C01, C01_overhang
C01_overhang.run_part = lambda ctx, pym: None
_rc = vlib.run_cases
def timed(ctx, name, *a, **k):
    t = time.time(); r = _rc(ctx, name, *a, **k); print('run_cases', name, round(time.time() - t, 1), file=sys.stderr); return r
vlib.run_cases = timed
_rg = C01.run_goals
def timedg(ctx, name, *a, **k):
    t = time.time(); r = _rg(ctx, name, *a, **k); print('run_goals', name, round(time.time() - t, 1), file=sys.stderr); return r
C01.run_goals = timedg
import modzoo
_ac = modzoo.adjoint_check
acc = {}
def timeda(e, *a, **k):
    t = time.time(); r = _ac(e, *a, **k); acc[e['name']] = acc.get(e['name'], 0) + time.time() - t; return r
modzoo.adjoint_check = timeda
sys.argv = ['x', 'C01', '--tier', 'quick']
try:
    vlib.main(C01.run, 'C01')
finally:
    print(sorted(acc.items(), key=lambda kv: -kv[1])[:6], file=sys.stderr)
