import warnings, time, sys
warnings.filterwarnings('ignore')
import numpy as np, pymoto as pym, modzoo, zoo_interactions as zi
class Ctx:
    def __init__(s, seed): s.seed=seed; s.search_evaluations=0; s.v=[]; s.c={}; s.rule=''
    def count(s,k,n=1): s.c[k]=s.c.get(k,0)+n
    def violation(s,*a,**k): s.v.append((a,k))
seed = int(sys.argv[1]) if len(sys.argv) > 1 else 1
prop = sys.argv[2] if len(sys.argv) > 2 else 'C01'
E = modzoo.entries(pym, seed + (11 if prop == 'C04' else 0))
ctx = Ctx(seed)
t0=time.time()
zi.run_part(ctx, pym, E, prop)
print('time', time.time()-t0, 'evals', ctx.search_evaluations)
seen={}
for a,k in ctx.v:
    key=(a[1] if a[1].startswith('Signal') else '*',a[2],a[3])
    if key not in seen:
        seen[key]=0
        print(a[1], '|', a[2], '|', a[3], '|', str(a[4])[:500], '|', str(k.get('got'))[:200])
    seen[key]+=1
for k,n in seen.items(): print(n, k[:2])
if len(sys.argv) > 3 and sys.argv[3] == 'proto':
    import io, contextlib
    rng = np.random.default_rng(seed + 3)
    seen = {}
    for e in E:
        try:
            with contextlib.redirect_stdout(io.StringIO()):
                f = modzoo.protocol_check(e, pym, rng)
        except Exception as ex:
            f = [('EXC ' + type(ex).__name__ + str(ex)[:100], None)]
        for pred, d in f[:2]:
            k = (e['name'], pred[:100])
            if k not in seen: print('PROTO', e['name'], e['cfg'], pred, d)
            seen[k] = seen.get(k, 0) + 1
    print('proto', seen)
