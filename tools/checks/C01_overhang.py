"""C01 (part) — OverhangFilter._sensitivity is the exact adjoint of OverhangFilter._response.

Tie between /repo and the proof development (coq/theories/Model/OverhangAdj.v, Proofs/OverhangAdjP.v, Props/C01c.v):
the real module is run (response, then sensitivity with a random seed w) on rational parameter instances (the ones
tools/checks/C14.py uses for the exact-Q evaluation of the response: integer p, xi_0 = n^(-1/k) so that q = p - k has
1/q in {1, 2, 1/2}; square roots by the integer square root to 2^-64) and Coq evaluates, in exact Q arithmetic,
  (1) model sensitivity sweep (sensitivity_Q: model response with stored smax, then the reverse sweep) == the
      implementation's input sensitivity, 1e-9 relative;
  (2) <w, tangent_Q x v> == <sensitivity_Q x w, v>   exactly (the theorem C01_overhang_algebraic_adjoint on this data);
  (3) <w, tangent_Q x v> == <g_impl, v>, 1e-9 relative (the property itself: tangent sweep = directional derivative by
      C01_overhang_tangent_is_derivative).
Entry point: run_part(ctx, pym), called from tools/checks/C01.py.
"""
from fractions import Fraction
import numpy as np
import vlib
from vlib import ql, qlit
import C14

HEADER = '''From Coq Require Import String Ascii.
From Coq Require Import ZArith QArith Qabs List Bool.
From Pymoto Require Import Base.Num Base.Cmp Model.Grid Model.Overhang Model.OverhangAdj.
Import ListNotations.
Open Scope Z_scope.
Definition G (a b c : Z) := {| nelx := a; nely := b; nelz := c |}.
Definition tol : Q := (1 # 1000000000)%Q.
(* (1) model sensitivity == implementation *)
Definition ovh_sens (g : grid) (a : dir_arg) (ns : option Z) (p : nat) (k eps scale : Q) (x w gimpl : list Q) : bool :=
  match prepare (dim g) a ns with
  | Ok (d, n) => Ql_close (tol * scale)%Q (sensitivity_Q g d n p k eps x w) gimpl
  | Err _ => false
  end.
(* (2) the adjoint identity of the model, exactly *)
Definition ovh_adj (g : grid) (a : dir_arg) (ns : option Z) (p : nat) (k eps : Q) (x w v : list Q) : bool :=
  match prepare (dim g) a ns with
  | Ok (d, n) => Qeq_bool (dot w (tangent_Q g d n p k eps x v)) (dot (sensitivity_Q g d n p k eps x w) v)
  | Err _ => false
  end.
(* (3) <w, J v> of the model tangent == <g, v> of the implementation *)
Definition ovh_dir (g : grid) (a : dir_arg) (ns : option Z) (p : nat) (k eps scale : Q) (x w v gimpl : list Q) : bool :=
  match prepare (dim g) a ns with
  | Ok (d, n) => Qclose (tol * scale)%Q (dot w (tangent_Q g d n p k eps x v)) (dot gimpl v)
  | Err _ => false
  end.
Definition ovh_check (g : grid) (a : dir_arg) (ns : option Z) (p : nat) (k eps scale scale2 : Q) (x w v gimpl : list Q) : bool :=
  match prepare (dim g) a ns with
  | Ok (d, n) =>
      let gm := sensitivity_Q g d n p k eps x w in
      let jv := dot w (tangent_Q g d n p k eps x v) in
      Ql_close (tol * scale)%Q gm gimpl && Qeq_bool jv (dot gm v) && Qclose (tol * scale2)%Q jv (dot gimpl v)
  | Err _ => false
  end.
'''

NAMES = 'xyz'
# hand-picked cases that run first on every run: (grid, axis, sign, nsampling, (p, k), eps)
#   one layer in print direction (the seed is transferred), two layers (one iteration, no loop-back), all-distinct sizes
#   with the larger in-layer size second / first (the shape in which the masks of _sensitivity can go wrong)
FIXED = [
    ((3, 1, 0), 1, 1, 3, (2, Fraction(1)), Fraction(1, 64)),
    ((1, 4, 0), 0, -1, 3, (2, Fraction(1)), Fraction(0)),
    ((3, 2, 0), 1, -1, 3, (3, Fraction(2)), Fraction(1, 64)),
    ((5, 4, 3), 1, 1, 5, (2, Fraction(1)), Fraction(1, 64)),
    ((3, 4, 5), 0, 1, 9, (2, Fraction(1)), Fraction(0)),
    ((4, 3, 2), 2, -1, 9, (3, Fraction(1)), Fraction(1, 64)),
    ((2, 3, 4), 1, -1, 5, (1, Fraction(1, 2)), Fraction(1, 64)),
    ((4, 3, 2), 0, -1, 5, (4, Fraction(3)), Fraction(0)),
]


def direction_of(rng, ax, sg, dim, spelling):
    if spelling == 'str-pre':
        return ('+' if sg > 0 else '-') + NAMES[ax]
    if spelling == 'str-post':
        return NAMES[ax] + ('+' if sg > 0 else '-')
    v = [0.0, 0.0, 0.0]
    v[ax] = float(sg) * (1.0 if spelling == 'vec' else rng.choice([2.0, 0.25, 5.0]))
    return v[:2] if (spelling == 'vec2' and ax < 2) else v


def pick_instance(rng, layers, forced=None):
    """rational instance + field style whose exact rationals stay small (same budget rule as C14)"""
    for attempt in range(60):
        last = attempt == 59
        p, k = (2, Fraction(1)) if last else (forced[0] if forced else rng.choice(C14.INSTANCES))
        eps = Fraction(0) if last else (forced[1] if forced else
                                        rng.choice([Fraction(0), Fraction(0), Fraction(1, 64), Fraction(1, 64), Fraction(float(1e-4))]))
        mode = 0.0 if last else rng.random()
        q = p - k
        deg = p if q == 1 else (2 * p if q == Fraction(1, 2) else 1)
        bits0 = 4 if mode < 0.6 else (1 if mode < 0.75 else (53 if layers <= 2 else 10))
        if eps != 0:
            bits0 = max(bits0, 64)
        if bits0 * max(deg, 1) ** max(layers - 1, 0) <= 2500:
            break
    return p, k, eps, mode


def field(rng, mode, layers, nel):
    if mode < 0.6:
        return [Fraction(rng.choice([0, 16] + list(range(1, 17))), 16) for _ in range(nel)]
    if mode < 0.75:
        return [Fraction(rng.choice([0, 1, 1])) for _ in range(nel)]
    if layers <= 2:
        return [Fraction(rng.random()) for _ in range(nel)]
    return [Fraction(rng.randrange(0, 1025), 1024) for _ in range(nel)]


def run_impl(pym, grid, direction, ns, p, k, eps, x, w):
    a, b, c = grid
    dom = pym.DomainDefinition(a, b, c)
    n_eff = ns if ns is not None else (3 if dom.dim == 2 else 5)
    sx = pym.Signal('x', x.copy())
    m = pym.OverhangFilter(sx, domain=dom, direction=direction, nsampling=ns, xi_0=C14.xi0_of(n_eff, k), p=float(p), eps=float(eps))
    m.response()
    sy = m.sig_out[0]
    sy.sensitivity = w.copy()
    m.sensitivity()
    g = sx.sensitivity
    return m, np.asarray(sy.state, dtype=np.float64), None if g is None else np.asarray(g, dtype=np.float64)


def pymoto_cone(rel):
    """the Pymoto modules (logical names) that theories/<rel> depends on, itself included"""
    import os, re
    seen, todo = [], [rel]
    while todo:
        r = todo.pop()
        mod = 'Pymoto.' + r[:-2].replace('/', '.')
        if mod in seen:
            continue
        seen.append(mod)
        src = vlib.strip_comments(open(os.path.join(vlib.COQ, 'theories', r)).read())
        for m in re.finditer(r'From\s+Pymoto\s+Require\s+(?:Import\s+|Export\s+)?(.*?)\.(?=\s)', src, re.S):
            for name in m.group(1).split():
                todo.append(name.replace('.', '/') + '.v')
    return seen


def check_props_c(ctx):
    """Props/C01c.v: theorem list + Print Assumptions as vlib.check_props does.  Thorough tier: vlib.check_props would run
    `coqchk -o` recursively over the whole cone; the cone contains the Interval and Flocq libraries (required by C14's
    Proofs/OverhangP.v, whose sweep lemmas are reused), and coqchk needs far more than vlib's 1500 s for those in this sandbox
    (the same obligation of C14 times out for that reason).  The second opinion is therefore taken module-wise: `coqchk -o
    -norec` on every Pymoto module of the cone (Props/C01c and everything of this development it depends on); third-party
    libraries are not re-checked here (Coquelicot/mathcomp are by the coqchk obligations of Props/C01.v and Props/C01b.v)."""
    import os, subprocess, re
    rel = 'theories/Props/C01c.v'
    if ctx.tier != 'thorough':
        return vlib.check_props(ctx, rel)
    tier = ctx.tier
    ctx.tier = 'thorough (module-wise coqchk)'      # disables only the recursive coqchk step inside vlib.check_props
    try:
        ok = vlib.check_props(ctx, rel)
    finally:
        ctx.tier = tier
    if not ok:
        return ok
    mods = pymoto_cone('Props/C01c.v')
    cmd = ['timeout', '1500', 'coqchk', '-silent', '-o', '-R', os.path.join(vlib.COQ, 'theories'), 'Pymoto']
    for m in mods:
        cmd += ['-norec', m]
    r = subprocess.run(cmd, capture_output=True, text=True, cwd=vlib.COQ)
    txt = r.stdout + r.stderr
    okc = r.returncode == 0
    ax = re.findall(r'^\s{4}([A-Za-z_][\w.]*)\s*$', txt.split('* Axioms:')[-1].split('* Constants')[0], re.M) if '* Axioms:' in txt else []
    ctx.axioms['coqchk -norec:Pymoto cone of Props.C01c'] = ax
    ctx.obligation('coqchk -o -norec ' + ' '.join(m[len('Pymoto.'):] for m in mods), 'coqchk', okc, '' if okc else txt[-1500:])
    if not okc:
        ctx.violation('proof', rel, 'coqchk', 'property file', dict(output=txt[-3000:]), theorem='coqchk -norec cone of Pymoto.Props.C01c')
    return ok and okc


def run_part(ctx, pym):
    import time
    t_start = time.time()
    rng = ctx.rng
    quick = ctx.quick()
    ctx.rule += (' (e) OverhangFilter: the real module (response, then sensitivity with a random seed) on rational instances '
                 '(integer p, xi_0 = n^(-1/k), eps in {0, 1/64, 1e-4}); 2-D and 3-D grids incl. all-distinct sizes (4x3x2 and its '
                 'permutations, 5x4x3, 3x4x5), one- and two-layer domains, all 4/6 print directions in string and vector spelling, '
                 'nsampling 3/5/9; Coq evaluates in exact Q: model sensitivity sweep == implementation (1e-9), the adjoint identity '
                 '<w, tangent v> == <sensitivity w, v> exactly, and <w, tangent v> == <g_impl, v> (1e-9). Non-trivial: >= 2 layers and a '
                 'non-constant field and seed; distinct by (grid, direction, spelling, nsampling, instance, eps, field, seed).')
    ctx.assumptions[:] = [a.replace('EigenSolve, OverhangFilter, ', 'EigenSolve, ') for a in ctx.assumptions]
    ctx.assumptions += ['OverhangFilter: the derivative theorem (C01c) is about real arithmetic and assumes the side conditions of '
                        'differentiability (eps > 0 or x != smax; positive bases of the powers: x >= 0, 0 <= backshift < shift, p, q > 0); '
                        'the exact-Q instance of the correspondence sets shift = backshift = 0 (they are < 1e-75, below tolerance) and is '
                        'the same term as the R model under another interpretation (not proved equal)',
                        'OverhangFilter with eps = 0 is only run at points with |x - smax| > 1e-6 on every non-base element (the code '
                        'returns nan at x = smax: not a point of differentiability)']
    ctx.trusted += ['Print Assumptions (Props/C01c.v): the algebraic adjoint theorems are closed under the global context; the derivative '
                    'theorems rely on the stdlib real-number axioms (ClassicalDedekindReals.sig_forall_dec, sig_not_dec, '
                    'FunctionalExtensionality.functional_extensionality_dep, Classical_Prop.classic); the default-parameter example '
                    'additionally on the primitive integers/floats used by the Interval tactic']
    checks, labels, cases = [], [], []

    def add_case(grid, ax, sg, ns_given, spelling, forced=None, tag='overhang'):
        a, b, c = grid
        dim = 2 if c == 0 else 3
        size = (a, b, max(c, 1))
        nel = a * b * max(c, 1)
        layers = size[ax]
        direction = direction_of(rng, ax, sg, dim, spelling)
        for attempt in range(6):
            p, k, eps, mode = pick_instance(rng, layers, forced if attempt == 0 else None)
            if attempt >= 3 and eps == 0:
                eps = Fraction(1, 64)
            xs = field(rng, mode, layers, nel)
            x = np.array([float(v) for v in xs], dtype=np.float64)
            w = np.array([rng.randint(-8, 8) / 4.0 for _ in range(nel)], dtype=np.float64)
            v = np.array([rng.randint(-8, 8) / 4.0 for _ in range(nel)], dtype=np.float64)
            case = dict(grid=list(grid), direction=direction, nsampling=ns_given, p=p, k=str(k), eps=float(eps),
                        x=x.tolist(), w=w.tolist(), v=v.tolist())
            try:
                m, y, g = run_impl(pym, grid, direction, ns_given, p, k, eps, x, w)
                if g is None or g.shape != x.shape:
                    raise RuntimeError(f'sensitivity has shape {None if g is None else g.shape}')
            except Exception as e:  # noqa
                ctx.count(f'{tag}:exception')
                ctx.violation('impl-violates', 'OverhangFilter._sensitivity', 'response/sensitivity complete without raising',
                              f'dim{dim}', case, got=f'{type(e).__name__}: {str(e)[:300]}')
                return
            if eps == 0 and layers >= 2:
                sl = [slice(None)] * 3
                sl[ax] = slice(1, None) if sg > 0 else slice(0, -1)
                r1 = (C14.to3(m.domain, x) - C14.to3(m.domain, m.smax))[tuple(sl)]
                if r1.size and np.abs(r1).min() <= 1e-6:
                    continue     # x == smax somewhere: min is not differentiable there, draw another field
            if np.all(np.isfinite(g)):
                break
        else:
            ctx.count(f'{tag}:skipped-nondifferentiable')
            return
        F = lambda arr: [Fraction(float(t)) for t in arr]
        xq, wq, vq, gq = F(x), F(w), F(v), F(g)
        scale = max([Fraction(1)] + [abs(t) for t in gq])
        scale2 = max(Fraction(1), sum(abs(s) * abs(t) for s, t in zip(gq, vq)))
        args = (f'(G {a} {b} {c}) {C14.dir_arg(direction)} {C14.ns_arg(ns_given)} {p}%nat {qlit(k)}%Q {qlit(Fraction(float(eps)))}%Q')
        expr = f'ovh_check {args} {qlit(scale)}%Q {qlit(scale2)}%Q {ql(xq)}%Q {ql(wq)}%Q {ql(vq)}%Q {ql(gq)}%Q'
        parts = [f'ovh_sens {args} {qlit(scale)}%Q {ql(xq)}%Q {ql(wq)}%Q {ql(gq)}%Q',
                 f'ovh_adj {args} {ql(xq)}%Q {ql(wq)}%Q {ql(vq)}%Q',
                 f'ovh_dir {args} {qlit(scale2)}%Q {ql(xq)}%Q {ql(wq)}%Q {ql(vq)}%Q {ql(gq)}%Q']
        n_eff = ns_given if ns_given is not None else (3 if dim == 2 else 5)
        label = (tag, grid, repr(direction), ns_given, p, str(k), str(eps), tuple(xq), tuple(wq))
        nontrivial = layers >= 2 and len(set(xq)) > 1 and len(set(wq)) > 1
        ctx.case(label, nontrivial, sample=dict(kind='OverhangFilter adjoint', grid=list(grid), direction=direction, nsampling=ns_given,
                                                p=p, k=str(k), eps=float(eps), x=x[:6].tolist(), w=w[:6].tolist(), g=g[:6].tolist()))
        ctx.count(f'{tag}:dim{dim}:n{n_eff}:layers{min(layers, 3)}{"+" if layers > 3 else ""}')
        ctx.count(f'{tag}:p{p}k{k}:eps{"0" if eps == 0 else "+"}')
        ctx.count(f'{tag}:{"string" if isinstance(direction, str) else "vector"}:{"+-"[sg < 0]}{NAMES[ax]}')
        checks.append(expr)
        labels.append(label)
        cases.append((case, parts, g))

    # ---- fixed cases first
    for (grid, ax, sg, ns, inst, eps) in FIXED:
        add_case(grid, ax, sg, ns, 'str-pre' if sg > 0 else 'vec', forced=(inst, eps), tag='overhang-fixed')
    # ---- generated: every direction x spelling family on grids with all-distinct sizes, plus random grids
    grids2 = [(4, 3, 0), (3, 4, 0), (2, 5, 0), (5, 2, 0)]
    grids3 = [(4, 3, 2), (2, 3, 4), (3, 2, 4), (4, 2, 3), (2, 4, 3), (3, 4, 2)]
    reps = 1 if quick else 6
    for rep in range(reps):
        g2 = grids2 + [(rng.randint(1, 5), rng.randint(1, 5), 0) for _ in range(2)]
        g3 = grids3 + [(rng.randint(1, 4), rng.randint(1, 4), rng.randint(1, 3)) for _ in range(2)]
        if quick:                                  # quick tier: every direction on a rotating subset of the grids
            rng.shuffle(g2)
            rng.shuffle(g3)
            g2, g3 = g2[:3], g3[:4]
        for grid in g2 + g3:
            dim = 2 if grid[2] == 0 else 3
            for ax in range(dim):
                for sg in (1, -1):
                    spelling = rng.choice(['str-pre', 'str-post', 'vec', 'vec-scaled', 'vec2'])
                    if dim == 2:
                        ns = rng.choice([3, None])
                    else:
                        ns = rng.choice([5, 9, 9, None])
                    add_case(grid, ax, sg, ns, spelling)

    t_gen = time.time()
    failing, err = vlib.run_cases(ctx, 'overhang', HEADER, checks, chunk=12)
    ctx.extra['overhang_seconds'] = dict(generate=round(t_gen - t_start, 1), coq_cases=round(time.time() - t_gen, 1), cases=len(checks))
    ctx.obligation('correspondence:OverhangFilter case files evaluated', 'correspondence', not err, err)
    ctx.obligation('correspondence:OverhangFilter model sensitivity sweep == implementation; <w, tangent v> == <g, v>',
                   'correspondence', not failing and not err, str(failing[:10]))
    if err:
        ctx.violation('correspondence', 'OverhangFilter._sensitivity', 'case files compile', 'harness', dict(error=err[-3000:]),
                      theorem='cases_overhang')
    for idx in failing[:6]:
        case, parts, g = cases[idx]
        vals, e2 = vlib.eval_coq(ctx, f'overhang_fail_{idx}', HEADER, parts, timeout=300)
        names = ['model sensitivity sweep == implementation (1e-9)', '<w, tangent v> == <sensitivity w, v> in the model (exact)',
                 '<w, tangent v> (model) == <g, v> (implementation) (1e-9)']
        failed = [n for n, v in zip(names, vals or []) if v.strip() != 'true'] or names[:1]
        ctx.violation('correspondence', 'OverhangFilter._sensitivity', failed[0], 'rational instance',
                      dict(case, got_sensitivity=g.tolist(), failed=failed), got=g.tolist(),
                      note='Coq model (Model/OverhangAdj.v) and implementation differ', theorem='cases_overhang')
