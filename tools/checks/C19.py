"""C19 — finite_difference is a faithful and non-destructive derivative check.

(H) correspondence: the REAL pymoto.finite_difference is run on networks of user-defined polynomial modules
(integer / Gaussian-integer coefficient matrices, correct and deliberately wrong adjoints) with dyadic data and
dx = 2^-k, so that every float operation is exact; the tuples received by test_fn, every state / sensitivity after
the call and the seed arrays are compared with equality inside Coq against Model/FD.v.
np.random.rand is replaced from outside by a generator of known dyadic numbers; the order in which np.nditer visits
the entries of an input is taken from numpy (oracle).
Oracle: the property text on the implementation: use_df untouched; restoration of every input state; no sensitivity
left on ANY signal of the scenario; tuple count; every analytical value = entry of an independently backpropagated
sensitivity for the seed; every numerical value = the seed-weighted difference quotient recomputed independently (exact
rationals); numerical value -> true derivative with O(dx) error via exact extrapolation; wrong adjoint <=> mismatch.
The witnesses of the fixed findings F07, F24, F25, F26, F27 are corpus cases and regression probes.
"""
import os, io, json, glob, copy, contextlib
from fractions import Fraction
from unittest import mock
import numpy as np
import scipy.sparse as sp
import vlib
from vlib import zl, zlit, blit

HEADER = '''From Coq Require Import ZArith QArith Qcanon List Bool.
From Pymoto Require Import Base.Num Base.Cmp Model.FD.
Import ListNotations.
Definition r (a : Q) : K := (Q2Qc a, Q2Qc 0).
Definition c (a b : Q) : K := (Q2Qc a, Q2Qc b).
Definition rl (l : list Q) : list K := map r l.
Definition V (d : list K) (k : vkind) (cx : bool) : val := {| v_dat := d; v_kind := k; v_cx := cx |}.
Definition SG (a b : option val) (k : bool) : sigrec := {| st := a; se := b; keep := k |}.
Definition R0 (i : nat) : sref := {| s_root := i; s_slice := None |}.
Definition RS (i : nat) (ix : list nat) (shp : list Z) : sref := {| s_root := i; s_slice := Some (ix, shp) |}.
Definition qk (a : K) : list Q := [this (fst a); this (snd a)].
Definition rep_q (x : report) : list Q :=
  [this (fst (r_x0 x)); this (snd (r_x0 x)); this (r_dx x); this (r_an x); this (r_fd x)].
Definition oval_q (o : option val) : option (list Q) := option_map (fun v => flat_map qk (v_dat v)) o.
Definition oeq := option_eqb Ql_eqb.
Definition check (res : fderr + fdresult) (err : Z) (reps : list (list Q))
           (sts ses seeds : list (option (list Q))) : bool :=
  match res with
  | inl ENoInput => Z.eqb err 1
  | inl ENoOutput => Z.eqb err 2
  | inr x =>
      Z.eqb err 0 && Qll_eqb (map rep_q (f_reports x)) reps &&
      list_eqb oeq (map (fun g => oval_q (st g)) (f_store x)) sts &&
      list_eqb oeq (map (fun g => oval_q (se g)) (f_store x)) ses &&
      list_eqb oeq (map oval_q (f_seeds x)) seeds
  end.
Definition show (res : fderr + fdresult) :=
  match res with
  | inl _ => None
  | inr x => Some (map rep_q (f_reports x), map (fun g => (oval_q (st g), oval_q (se g))) (f_store x), map oval_q (f_seeds x))
  end.
'''


# ----------------------------------------------------------------------------- literals
def F(x):
    return Fraction(float(x))


def qlit(f):
    f = Fraction(f)
    if f.denominator == 1:
        return f'({f.numerator})' if f.numerator < 0 else f'{f.numerator}'
    return f'({f.numerator}#{f.denominator})'


def klit(z):
    z = complex(z)
    if z.imag == 0:
        return f'r {qlit(F(z.real))}'
    return f'c {qlit(F(z.real))} {qlit(F(z.imag))}'


def kl(zs):
    return '[' + '; '.join(klit(z) for z in zs) + ']%Q'


def ql(fs):
    return '[' + '; '.join(qlit(f) for f in fs) + ']%Q'


def natl(xs):
    return '[' + '; '.join(str(int(x)) for x in xs) + ']%nat'


def mat_lit(M):
    return '[' + '; '.join(kl(row) for row in np.asarray(M)) + ']'


def kind_lit(kind):
    return 'KScal' if kind == 'scal' else f'(KArr {zl(list(kind))}%Z)'


def flat(x):
    if sp.issparse(x):
        x = x.toarray()
    return np.asarray(x).ravel()


def val_lit(x):
    """python value -> Coq val"""
    cx = bool(np.iscomplexobj(x))
    if sp.issparse(x):
        kind = tuple(x.shape)
    elif isinstance(x, np.ndarray):
        kind = tuple(x.shape)
    else:
        kind = 'scal'
    return f'(V {kl(flat(x).tolist())} {kind_lit(kind)} {blit(cx)})'


def oq(x):
    """observation of a value: None or the flattened (re, im) rationals"""
    if x is None:
        return 'None'
    out = []
    for z in flat(x).tolist():
        z = complex(z)
        out += [F(z.real), F(z.imag)]
    return f'(Some {ql(out)})'


# ----------------------------------------------------------------------------- the module family
def cast(M, dt):
    a = np.asarray(M, dtype=complex)
    return a if dt is complex else a.real.astype(float)


def make_poly_class(pym):
    class Poly(pym.Module):
        """y_j = c_j + sum_i A_ji x_i + sum_i Q_ji x_i^2 ; claimed adjoint uses B, Qb"""

        def _prepare(self, spec=None):
            self.spec = spec

        def _response(self, *xs):
            s = self.spec
            dt = complex if (s['cx'] or any(np.iscomplexobj(x) for x in xs)) else float
            out = []
            for j, cj in enumerate(s['c']):
                y = cast(cj, dt)
                for i, x in enumerate(xs):
                    xv = flat(x).astype(dt)
                    y = y + cast(s['A'][j][i], dt) @ xv + cast(s['Q'][j][i], dt) @ (xv * xv)
                k = s['okind'][j]
                if k == 'scal':
                    out.append(y[0])
                elif is_sparse_kind(k):
                    out.append(sp.csr_matrix(y.reshape(k[1])))
                else:
                    out.append(y.reshape(k))
            return out

        def _sensitivity(self, *ws):
            s = self.spec
            res = []
            for i, sig in enumerate(self.sig_in):
                x = sig.state
                cx = s['cx'] or np.iscomplexobj(x) or any(w is not None and np.iscomplexobj(w) for w in ws)
                dt = complex if cx else float
                xv = flat(x).astype(dt)
                acc = np.zeros(xv.size, dtype=dt)
                for j, w in enumerate(ws):
                    if w is None:
                        continue
                    wv = np.broadcast_to(np.asarray(w, dtype=dt).ravel(), (len(s['c'][j]),))
                    acc = acc + cast(s['B'][j][i], dt).T @ wv + 2 * xv * (cast(s['Qb'][j][i], dt).T @ wv)
                if isinstance(x, np.ndarray) or sp.issparse(x):
                    res.append(acc.reshape(x.shape))
                elif s.get('pysens'):
                    res.append(complex(acc[0]) if dt is complex else float(acc[0]))      # Python scalar
                else:
                    res.append(acc[0])                                                    # numpy scalar
            return res
    return Poly


# ----------------------------------------------------------------------------- scenario = plain data (json-able)
# roots: [{'value': spec or None, 'sens': spec or None, 'keep': bool (default true: constructed with `sens`)}]   value spec: {'kind','shape','data':[[re,im]..],'cx','order'}
# mods : [{'ins': [ref], 'outs': [root ids], 'spec': {...}}]  ref: {'root': i, 'index': json index or None}
#        spec['pysens'] (optional): sensitivities of scalar inputs are returned as Python float / complex
# fd   : {'network','fromsig':[ref]|None,'tosig':[root]|None,'k','relative','random','use_df':[...]|None,'keep_zero'}
def build_value(v):
    if v is None:
        return None
    zs = [complex(a, b) for a, b in v['data']]
    k = v['kind']
    cx = v['cx']
    if k == 'pyfloat':
        return complex(zs[0]) if cx else float(zs[0].real)
    if k == 'pyint':
        return int(zs[0].real)
    if k == 'npscal':
        return np.complex128(zs[0]) if cx else np.float64(zs[0].real)
    arr = np.array(zs if cx else [z.real for z in zs], dtype=complex if cx else float).reshape(v['shape'])
    if v.get('order') == 'F':
        arr = np.asfortranarray(arr)
    return arr


def dec_index(x):
    if x is None:
        return None
    if isinstance(x, dict) and 'tuple' in x:
        return tuple(dec_index(y) for y in x['tuple'])
    if isinstance(x, dict) and 'slice' in x:
        return slice(*x['slice'])
    if isinstance(x, dict) and 'intarray' in x:
        return np.array(x['intarray'], dtype=int)
    return int(x['int'])


class Scenario:
    def __init__(self, pym, Poly, data):
        self.pym, self.data = pym, data
        self.roots = []
        for i, r in enumerate(data['roots']):
            kw = {}
            if r.get('sens') is not None and r.get('keep', True):
                kw['sensitivity'] = build_value(r['sens'])      # constructed with a sensitivity: the allocation is kept
            self.roots.append(pym.Signal(f's{i}', state=build_value(r['value']), **kw))
            if r.get('sens') is not None and not r.get('keep', True):
                self.roots[-1].sensitivity = build_value(r['sens'])      # left over from an earlier computation
        self.mods = []
        for m in data['mods']:
            ins = [self.ref(x) for x in m['ins']]
            outs = [self.roots[o] for o in m['outs']]
            self.mods.append(Poly(ins, outs, spec=m['spec']))

    def ref(self, x):
        s = self.roots[x['root']]
        if x.get('index') is not None:
            s = s[dec_index(x['index'])]
        return s

    def ref_info(self, x):
        """(positions, result shape) numpy selects for a slice reference"""
        if x.get('index') is None:
            return None
        st = self.roots[x['root']].state
        A = np.arange(st.size).reshape(st.shape)[dec_index(x['index'])]
        idx = [int(v) for v in np.asarray(A).ravel()]
        assert len(set(idx)) == len(idx) and isinstance(A, np.ndarray)
        return idx, tuple(A.shape)

    def ref_lit(self, x):
        inf = self.ref_info(x)
        if inf is None:
            return f'(R0 {x["root"]})'
        return f'(RS {x["root"]} {natl(inf[0])} {zl(list(inf[1]))}%Z)'


def nditer_order(x):
    """logical (C-order) positions in the order np.nditer visits them (same flags as the routine)"""
    if not isinstance(x, np.ndarray):
        return [0]
    y = x.copy(order='K') if False else x
    it = np.nditer(y, flags=['c_index', 'multi_index'], op_flags=['readwrite'])
    out = []
    while not it.finished:
        out.append(int(np.ravel_multi_index(it.multi_index, x.shape)) if x.ndim else 0)
        it.iternext()
    return out


class FakeRand:
    """stands in for np.random.rand: dyadic numbers k/16 from our generator; records what it returned"""

    def __init__(self, rng):
        self.rng, self.calls = rng, []

    def __call__(self, *shape):
        n = int(np.prod(shape)) if shape else 1
        vals = [self.rng.randint(1, 15) / 16.0 for _ in range(n)]
        self.calls.append([Fraction(v) for v in vals])
        return np.array(vals).reshape(shape) if shape else float(vals[0])


def run_fd(pym, sc, fd, rng, dx=None):
    """runs the real routine; returns dict(err, tuples, use_df_after, rand calls, inps, outps, orders)"""
    blk = pym.Network(sc.mods) if fd['network'] else sc.mods[0]
    inps_ref = fd['fromsig'] if fd['fromsig'] is not None else sc.data['mods'][0]['ins']
    outs_ref = fd['tosig'] if fd['tosig'] is not None else sc.data['mods'][0]['outs']
    fromsig = [sc.ref(x) for x in fd['fromsig']] if fd['fromsig'] is not None else None
    tosig = [sc.roots[o] for o in fd['tosig']] if fd['tosig'] is not None else None
    use_df = [build_value(v) for v in fd['use_df']] if fd.get('use_df') is not None else None
    rec = []
    fake = FakeRand(rng)
    dxv = dx if dx is not None else 2.0 ** (-fd['k'])
    err = 0
    try:
        with contextlib.redirect_stdout(io.StringIO()), mock.patch('numpy.random.rand', fake):
            pym.finite_difference(blk, fromsig=fromsig, tosig=tosig, dx=dxv, relative_dx=fd['relative'],
                                  random=fd['random'], use_df=use_df, keep_zero_structure=fd['keep_zero'],
                                  test_fn=lambda x0, dx_, an, fdv: rec.append((complex(x0), float(dx_), float(an), float(fdv))),
                                  verbose=fd.get('verbose', False))
    except RuntimeError as e:
        err = 1 if 'input signals' in str(e) else 2
    return dict(err=err, tuples=rec, use_df=use_df, rand=fake.calls, inps_ref=inps_ref, outs_ref=outs_ref)


# ----------------------------------------------------------------------------- coq case
def spec_lit(s):
    def mats(M):
        return '[' + '; '.join('[' + '; '.join(mat_lit(m) for m in row) + ']' for row in M) + ']'
    kinds = []
    for k in s['okind']:
        kinds.append(kind_lit('scal' if k == 'scal' else (tuple(k[1]) if is_sparse_kind(k) else tuple(k))))
    return ('{| p_c := [' + '; '.join(kl(cj) for cj in s['c']) + f']; p_A := {mats(s["A"])}; p_Q := {mats(s["Q"])}; '
            f'p_B := {mats(s["B"])}; p_Qb := {mats(s["Qb"])}; p_okind := [' + '; '.join(kinds) + f']; p_cx := {blit(s["cx"])} |}}')


def coq_case(pym, Poly, data, rng):
    """build the scenario twice: once to read numpy oracles / initial store, once to run the implementation"""
    fd = data['fd']
    sc0 = Scenario(pym, Poly, data)
    store0 = '[' + '; '.join(
        f'SG {("(Some " + val_lit(r.state) + ")") if r.state is not None else "None"} '
        f'{("(Some " + val_lit(r.sensitivity) + ")") if r.sensitivity is not None else "None"} {blit(r.keep_alloc)}'
        for r in sc0.roots) + ']'
    mods = '[' + ';\n    '.join(
        f'poly_module [{"; ".join(sc0.ref_lit(x) for x in m["ins"])}] [{"; ".join("(R0 %d)" % o for o in m["outs"])}] {spec_lit(m["spec"])}'
        for m in data['mods']) + ']'
    sc = Scenario(pym, Poly, data)
    inps_ref = fd['fromsig'] if fd['fromsig'] is not None else data['mods'][0]['ins']
    # the pre-modules run before the inputs are read: orders are taken after a response of everything
    sc_o = Scenario(pym, Poly, data)
    with contextlib.redirect_stdout(io.StringIO()):
        try:
            for m in sc_o.mods:
                m.response()
        except Exception:
            pass
    orders = [nditer_order(sc_o.ref(x).state) for x in inps_ref]
    res = run_fd(pym, sc, fd, rng)
    outs_ref = res['outs_ref']
    cfg = ('{| c_dx := Q2Qc ' + qlit(Fraction(1, 2 ** fd['k'])) + f'; c_rel := {blit(fd["relative"])}; c_keepzero := {blit(fd["keep_zero"])}; '
           f'c_random := {blit(fd["random"])}; c_usedf := ' +
           ('None' if fd.get('use_df') is None else '(Some [' + '; '.join(val_lit(build_value(v)) for v in fd['use_df']) + '])') +
           '; c_rand := [' + '; '.join('map Q2Qc ' + ql(c) for c in res['rand']) + ']; c_order := [' +
           '; '.join(natl(o) for o in orders) + '] |}')
    inps = '[' + '; '.join(sc0.ref_lit(x) for x in inps_ref) + ']'
    outps = '[' + '; '.join(f'(R0 {o})' for o in outs_ref) + ']'
    call = f'finite_difference {cfg} {blit(fd["network"])}\n   {mods}\n   {inps} {outps}\n   {store0}'
    reps = '[' + '; '.join(ql([F(x0.real), F(x0.imag), F(dx), F(an), F(fdv)]) for x0, dx, an, fdv in res['tuples']) + ']'
    sts = '[' + '; '.join(oq(r.state) for r in sc.roots) + ']'
    ses = '[' + '; '.join(oq(r.sensitivity) for r in sc.roots) + ']'
    if res['err'] == 0:
        # seeds after the call: use_df arrays (as they are now) or the generated ones (model: the values it used)
        if res['use_df'] is not None:
            seeds = '[' + '; '.join(oq(v) for v in res['use_df']) + ']'
        else:
            seeds = None
    else:
        seeds = '[]'
    if seeds is None:
        expr = (f'(let x := {call} in check x {res["err"]} {reps} {sts} {ses} '
                f'(match x with inr y => map oval_q (f_seeds y) | inl _ => [] end))')
    else:
        expr = f'(check ({call}) {res["err"]} {reps} {sts} {ses} {seeds})'
    return expr, call, res, sc


# ----------------------------------------------------------------------------- random scenarios
def dy(rng, lo=-12, hi=12, den=4):
    return rng.randint(lo, hi) / den


PYTH = [(3, 4), (4, 3), (-3, 4), (3, -4), (0, 2), (2, 0), (0, -1), (-5, 0), (6, 8), (-4, -3), (5, 12), (0, 0)]


def rand_entry(rng, cx, relative):
    if not cx:
        v = dy(rng)
        return [0.0 if rng.random() < 0.15 else v, 0.0]
    if rng.random() < 0.12:
        return [0.0, 0.0]
    if relative:
        a, b = rng.choice(PYTH)
        s = rng.choice((1, 0.5, 0.25))
        return [a * s, b * s]
    return [dy(rng), dy(rng)]


def rand_value(rng, kind, shape, cx, relative, order='C'):
    n = int(np.prod(shape)) if kind == 'arr' else 1
    data = [rand_entry(rng, cx, relative) for _ in range(n)]
    if kind == 'pyint':
        data = [[float(rng.randint(-3, 3)), 0.0]]
        cx = False
    return dict(kind=kind, shape=list(shape), data=data, cx=cx, order=order)


def rand_mat(rng, rows, cols, cx, density=0.7):
    M = [[0] * cols for _ in range(rows)]
    for a in range(rows):
        for b in range(cols):
            if rng.random() < density:
                M[a][b] = [rng.randint(-3, 3), rng.randint(-2, 2) if cx else 0]
            else:
                M[a][b] = [0, 0]
    return M


def cm(M):
    """[[ [re,im] ]] -> nested complex lists"""
    return [[complex(a, b) for a, b in row] for row in M]


def is_sparse_kind(k):
    return isinstance(k, (list, tuple)) and len(k) == 2 and k[0] == 'sparse'


def out_kind(data, o):
    """(kind, number of entries) of the output signal with root id o; kind: 'scal' | shape tuple"""
    for m in data['mods']:
        if o in m['outs']:
            j = m['outs'].index(o)
            k = m['spec']['okind'][j]
            n = len(m['spec']['c'][j])
            if k == 'scal':
                return 'scal', n
            if is_sparse_kind(k):
                return tuple(k[1]), n
            return tuple(k), n
    return None, 0


def subnetwork(mods, fromsig, tosig):
    """(i_first, i_last) as the routine selects them (None when not found)"""
    i_first, i_last = None, None
    fr = {x['root'] for x in fromsig}
    for i, m in enumerate(mods):
        if i_first is None and fr & {x['root'] for x in m['ins']}:
            i_first = i
        if set(tosig) & set(m['outs']):
            i_last = i
    return i_first, i_last


def sensible_request(mods, roots, fromsig, tosig, sources_only):
    """the request the routine is written for: a non-empty sub-network whose inputs of interest are not produced
    inside it and exist when it runs. Outputs of interest may be produced inside the sub-network or upstream of it."""
    i_first, i_last = subnetwork(mods, fromsig, tosig)
    if i_first is None or i_last is None or i_last < i_first:
        return False
    inside = {o for m in mods[i_first:i_last + 1] for o in m['outs']}
    before = {o for m in mods[:i_first] for o in m['outs']}
    for x in fromsig:
        r = x['root']
        if r in inside:
            return False
        if roots[r]['value'] is None and r not in before:
            return False
        if sources_only and roots[r]['value'] is None:
            return False
    return True


def upstream_outputs(mods, fromsig, tosig):
    """outputs of interest that are produced before the selected sub-network"""
    i_first, i_last = subnetwork(mods, fromsig, tosig)
    if i_first is None or i_last is None:
        return []
    before = {o for m in mods[:i_first] for o in m['outs']}
    return [o for o in tosig if o in before]


def gen_scenario(ctx, rng):
    cxfam = rng.random() < 0.35
    relative = rng.random() < 0.3
    network = rng.random() < 0.55
    roots, mods = [], []

    def new_root(value=None, sens=None, keep=True):
        roots.append(dict(value=value, sens=sens, keep=keep))
        return len(roots) - 1

    def new_input():
        t = rng.random()
        if t < 0.12:
            kind, shape = rng.choice(('pyfloat', 'pyint', 'npscal')), ()
        elif t < 0.2:
            kind, shape = 'arr', ()
        elif t < 0.65:
            kind, shape = 'arr', (rng.randint(1, 4),)
        else:
            kind, shape = 'arr', (rng.randint(1, 3), rng.randint(1, 3))
        cx = cxfam and (kind == 'arr' or rng.random() < 0.5) and kind != 'pyint'
        if cxfam and kind == 'arr' and rng.random() < 0.1:
            cx = False     # real array in a complex network (never sliced, never kept)
        order = 'F' if (kind == 'arr' and len(shape) == 2 and rng.random() < 0.25) else 'C'
        v = rand_value(rng, kind, shape, cx, relative, order)
        sens, keep = None, True
        if kind == 'arr' and rng.random() < 0.18 and (v['cx'] or not cxfam):
            sens = rand_value(rng, 'arr', shape, v['cx'], False)      # left-over sensitivity
            keep = rng.random() < 0.6                                   # ... in an allocation that is kept, or not
            ctx.count('input:left-over-sensitivity' + ('-kept-allocation' if keep else ''))
        ctx.count('input:' + kind + ('-complex' if v['cx'] else '') + (f'-{len(shape)}d' if kind == 'arr' else ''))
        return new_root(v, sens, keep), v

    def size_of(ref):
        v = roots[ref['root']]['value']
        if v is None:
            return out_kind(dict(mods=mods), ref['root'])[1]
        if ref.get('index') is None:
            return int(np.prod(v['shape'])) if v['kind'] == 'arr' else 1
        A = np.arange(int(np.prod(v['shape']))).reshape(v['shape'])[dec_index(ref['index'])]
        return int(np.asarray(A).size)

    def maybe_slice(root, v):
        if v['kind'] != 'arr' or len(v['shape']) == 0 or rng.random() < 0.6 or (cxfam and not v['cx']):
            return dict(root=root, index=None)
        n0 = v['shape'][0]
        t = rng.random()
        if t < 0.45:
            a = rng.randint(0, n0 - 1)
            b = rng.randint(a + 1, n0)
            idx = {'slice': [a, b, rng.choice((None, 1, 2))]}
            ctx.count('slice:basic')
        elif t < 0.6:
            idx = {'slice': [None, None, -1]}
            ctx.count('slice:reversed')
        elif t < 0.9 or len(v['shape']) < 2:
            perm = list(range(n0))
            rng.shuffle(perm)
            idx = {'intarray': perm[:rng.randint(1, n0)]}
            ctx.count('slice:intarray')
        else:
            idx = {'tuple': [{'slice': [None, None, None]}, {'int': rng.randrange(v['shape'][1])}]}
            ctx.count('slice:tuple')
        return dict(root=root, index=idx)

    def new_module(in_refs, nouts):
        sizes = [size_of(r) for r in in_refs]
        nquad = sum(1 for m in mods if m['quad'])
        quad = rng.random() < 0.4 and nquad < 2
        wrong = rng.random() < 0.3
        spec = dict(c=[], A=[], Q=[], B=[], Qb=[], okind=[], cx=cxfam)
        outs = []
        for j in range(nouts):
            t = rng.random()
            if t < 0.15:
                ok, m = 'scal', 1
            elif t < 0.3:
                shp = (rng.randint(1, 2), rng.randint(1, 3))
                ok, m = ['sparse', list(shp)], shp[0] * shp[1]
                ctx.count('output:sparse')
            elif t < 0.4:
                ok, m = [], 1
            elif t < 0.8:
                m = rng.randint(1, 3)
                ok = [m]
            else:
                shp = (rng.randint(1, 2), rng.randint(1, 2))
                ok, m = list(shp), shp[0] * shp[1]
            spec['okind'].append(ok)
            spec['c'].append([[rng.randint(-2, 2), rng.randint(-1, 1) if cxfam else 0] for _ in range(m)])
            spec['A'].append([rand_mat(rng, m, n, cxfam) for n in sizes])
            spec['Q'].append([rand_mat(rng, m, n, cxfam, 0.4 if quad else 0.0) for n in sizes])
            sens = None
            if rng.random() < 0.18:
                # the output Signal is constructed with a sensitivity: it keeps that allocation (zeros, or a stale value)
                if ok == 'scal':
                    skind, sshape = rng.choice(('npscal', 'pyfloat')), ()
                elif is_sparse_kind(ok):
                    skind, sshape = 'arr', tuple(ok[1])
                else:
                    skind, sshape = 'arr', tuple(ok)
                stale = rng.random() < 0.4
                sens = dict(kind=skind, shape=list(sshape), cx=cxfam, order='C',
                            data=[[dy(rng) if stale else 0.0, (dy(rng) if (stale and cxfam) else 0.0)] for _ in range(m)])
                ctx.count('output:kept-allocation' + ('-stale' if stale else '-zeros'))
            outs.append(new_root(None, sens))
        spec['B'] = copy.deepcopy(spec['A'])
        spec['Qb'] = copy.deepcopy(spec['Q'])
        spec['pysens'] = rng.random() < 0.4       # sensitivities of scalar inputs as Python float / complex
        if spec['pysens'] and any(roots[r['root']]['value'] is not None and roots[r['root']]['value']['kind'] != 'arr'
                                  for r in in_refs):
            ctx.count('sensitivity:python-scalar')
        if wrong:
            j = rng.randrange(nouts)
            i = rng.randrange(len(sizes))
            tgt = spec['Qb'] if (quad and rng.random() < 0.4) else spec['B']
            a, b = rng.randrange(len(tgt[j][i])), rng.randrange(sizes[i])
            tgt[j][i][a][b] = [tgt[j][i][a][b][0] + rng.choice((-2, -1, 1, 2)), tgt[j][i][a][b][1]]
            ctx.count('adjoint:wrong')
        else:
            ctx.count('adjoint:correct')
        ctx.count('module:quadratic' if quad else 'module:linear')
        mods.append(dict(ins=in_refs, outs=outs, spec=spec, quad=quad, wrong=wrong))
        return outs

    # sources and first module
    srcs = [new_input() for _ in range(rng.randint(1, 2))]
    in_refs = []
    for root, v in srcs:
        in_refs.append(maybe_slice(root, v))
        if v['kind'] == 'arr' and len(v['shape']) >= 1 and v['shape'][0] >= 2 and rng.random() < 0.2 and (v['cx'] or not cxfam):
            in_refs.append(maybe_slice(root, v))       # a second (possibly overlapping) reference to the same base
    prev = new_module(in_refs, rng.randint(1, 2))
    fromsig, tosig = None, None
    if network:
        for _ in range(rng.randint(0, 2)):
            ins = [dict(root=o, index=None) for o in prev]
            if rng.random() < 0.4:
                ins.append(dict(root=srcs[0][0], index=None))
            prev = new_module(ins, rng.randint(1, 2))
        def is_sparse_sig(ref):
            for m in mods:
                if ref['root'] in m['outs']:
                    return is_sparse_kind(m['spec']['okind'][m['outs'].index(ref['root'])])
            return False
        cands_in = [m_in for m in mods for m_in in m['ins'] if not is_sparse_sig(m_in)]
        all_outs = [o for m in mods for o in m['outs']]
        directed = None
        if len(mods) >= 2 and rng.random() < 0.3:
            # directed: an output of interest produced upstream of the selected sub-network
            i1 = rng.randrange(1, len(mods))
            fr = [x for x in mods[i1]['ins'] if not is_sparse_sig(x) and not any(x['root'] in m['outs'] for m in mods[i1:])]
            ups = [o for m in mods[:i1] for o in m['outs']]
            ins_ = [o for m in mods[i1:] for o in m['outs']]
            if fr and ups and ins_:
                directed = ([rng.choice(fr)], [rng.choice(ups), rng.choice(ins_)])
                if rng.random() < 0.5:
                    directed[1].reverse()
        for attempt in range(50):
            if attempt == 0 and directed is not None:
                fromsig, tosig = directed
                if sensible_request(mods, roots, fromsig, tosig, relative and cxfam):
                    break
            fromsig = [rng.choice(cands_in)]
            if rng.random() < 0.3:
                extra = rng.choice(cands_in)
                if extra != fromsig[0]:
                    fromsig.append(extra)
            tosig = [rng.choice(all_outs)]
            if rng.random() < 0.3:
                o2 = rng.choice(all_outs)
                if o2 not in tosig:
                    tosig.append(o2)
            if sensible_request(mods, roots, fromsig, tosig, relative and cxfam):
                break
            ctx.count('skipped:request-outside-subnetwork-contract')
        else:
            fromsig = [mods[0]['ins'][0]]
            tosig = [mods[-1]['outs'][0]]
        if upstream_outputs(mods, fromsig, tosig):
            ctx.count('tosig:produced-upstream-of-subnetwork')
        if rng.random() < 0.04:
            lone = new_root(rand_value(rng, 'arr', (2,), cxfam, relative), None)      # used / produced by no module
            if rng.random() < 0.5:
                fromsig = [dict(root=lone, index=None)]
            else:
                tosig = [lone]
            ctx.count('malformed:unused-signal')
    else:
        if rng.random() < 0.3:
            fromsig = [rng.choice(mods[0]['ins'])]
        if rng.random() < 0.3:
            tosig = [rng.choice(mods[0]['outs'])]
    nq = sum(1 for m in mods if m['quad'])
    k = rng.randint(1, 6) if nq <= 1 else rng.randint(1, 3)
    fd = dict(network=network, fromsig=fromsig, tosig=tosig, k=k, relative=relative, random=rng.random() < 0.6,
              use_df=None, keep_zero=rng.random() < 0.7, verbose=rng.random() < 0.2)
    data = dict(roots=roots, mods=[dict(ins=m['ins'], outs=m['outs'], spec=m['spec']) for m in mods], fd=fd,
                meta=dict(wrong=[m['wrong'] for m in mods], quad=[m['quad'] for m in mods], cx=cxfam))
    if rng.random() < 0.3:
        outs_ref = tosig if tosig is not None else mods[0]['outs']
        use = []
        for o in outs_ref:
            ok, n = out_kind(data, o)
            if ok is None:
                use = None
                break
            vals = [[rng.randint(-8, 8) / 8.0, (rng.randint(-8, 8) / 8.0) if cxfam else 0.0] for _ in range(n)]
            if ok == 'scal':
                use.append(dict(kind='npscal', shape=[], data=vals, cx=cxfam))
            else:
                use.append(dict(kind='arr', shape=list(ok), data=vals, cx=cxfam))
        fd['use_df'] = use
    return data


def normalise(data):
    """json data -> python-usable (coefficient entries [re, im] -> complex)"""
    d = copy.deepcopy(data)
    for m in d['mods']:
        s = m['spec']
        s['c'] = [[complex(a, b) for a, b in cj] for cj in s['c']]
        for key in ('A', 'Q', 'B', 'Qb'):
            s[key] = [[cm(M) for M in row] for row in s[key]]
        s['okind'] = ['scal' if k == 'scal' else (('sparse', tuple(k[1])) if is_sparse_kind(k) else tuple(k))
                      for k in s['okind']]
    return d


# ----------------------------------------------------------------------------- main
# witnesses of the defects that were found by this check and repaired in /repo (known_findings.json, status "fixed"):
# corpus file -> (call_site, predicate, input_class) of the registered finding; a regression is reported under that triple
FIXED_WITNESSES = {
    'F24_seed_zeroed_kept_output.json':
        ('finite_difference', 'seed array not modified; numerical value uses the seed',
         'output signal constructed with a sensitivity (kept allocation)'),
    'F25_imag_python_complex.json':
        ('finite_difference', 'imaginary pass reads a scalar sensitivity',
         'complex scalar input whose module returns a Python complex sensitivity'),
    'F26_upstream_output_keeps_seed.json':
        ('finite_difference', 'no sensitivity is left set after the call',
         'output of interest produced before the selected sub-network'),
    'F27_stale_input_sensitivity_outside_slice.json':
        ('finite_difference', 'analytical value is the backpropagated sensitivity of the seed',
         'stale sensitivity on entries of an input of interest that the modules use only through a slice'),
}


def run(ctx):
    import pymoto as pym
    pym.core_objects.get_init_str = lambda: 'File "verif", line 0, in harness'   # diagnostics only (slow inspect.stack)
    Poly = make_poly_class(pym)
    ctx.rule = ('networks of 1..3 user-defined polynomial modules (integer / Gaussian-integer matrices, linear and quadratic, '
                '~30% with a deliberately wrong adjoint, ~40% returning Python float/complex sensitivities for scalar inputs), '
                'inputs: python float/int/complex, numpy scalars, 0-D..2-D float and complex arrays (C and Fortran order), '
                'basic / reversed / integer-array slices, left-over sensitivities (with and without kept allocation); outputs: scalars, arrays, sparse '
                'matrices, ~18% constructed with a kept sensitivity allocation (zeros or stale values); all flag combinations '
                '(relative_dx, random, use_df, keep_zero_structure, verbose), fromsig/tosig choices incl. intermediate signals, '
                'outputs of interest produced upstream of the selected sub-network, and unused signals; '
                'dx = 2^-k (k<=6) and dyadic data: exact comparison of every tuple, every state/sensitivity and the seeds. '
                'A case is non-trivial when at least one tuple is reported; distinct by scenario data')
    ctx.assumptions += [
        'np.random.rand is replaced from outside by known dyadic numbers (the routine draws its seed from it)',
        'np.nditer visiting order is taken from numpy (oracle); float arithmetic is exact on the generated data',
        'module states are float / complex (np.nditer cannot write a float perturbation into an integer array)',
        'value-level signal model (no object identity): the routine installs a deep copy of the seed and keeps only copies; '
        'that no array is shared is observed on the implementation (use_df arrays compared before/after, seeds compared '
        'in the correspondence), not proved',
        'kept sensitivity allocations have the dtype of the network (a real allocation receiving complex terms is a '
        'caller error raised by numpy)',
        'generated requests stay inside the routine\'s contract: the selected sub-network is non-empty (at least one tosig '
        'is produced at or after the first module using a fromsig), no fromsig is produced inside it and every fromsig '
        'has a state when it runs (other requests are counted as skipped:request-outside-subnetwork-contract); '
        'a tosig produced upstream of the sub-network is inside the contract and generated',
        'one-level slices as module inputs (nested slices are covered for Signals by C18)']
    ctx.trusted += ['Print Assumptions: theorems over Qc are closed under the global context',
                    'the user-defined module family Poly in tools/checks/C19.py mirrors Model/FD.v poly_f / poly_vjp '
                    '(both directions are exercised by the correspondence)']
    vlib.audit(ctx)
    if not vlib.ensure_static(ctx):
        return
    vlib.check_props(ctx)
    rng = ctx.rng
    cases, labels, datas = [], [], []
    for f in sorted(glob.glob(os.path.join(vlib.ROOT, 'corpus', 'C19', '*.json'))):
        datas.append((json.load(open(f)), ('corpus', os.path.basename(f))))
        ctx.count('corpus')
    if getattr(ctx, 'replay', None):
        rp = ctx.replay if os.path.isabs(ctx.replay) else os.path.join(vlib.ROOT, ctx.replay)
        d = json.load(open(rp))
        d = d.get('case', d)
        if isinstance(d, dict) and 'scenario' in d or (isinstance(d, dict) and 'roots' in d):
            datas.append((d.get('scenario', d), ('replay', ctx.replay)))
    try:
        regression_probes(ctx, pym, Poly, datas)
    except Exception:
        import traceback
        ctx.violation('impl-violates', 'finite_difference', 'the routine completes on well-formed networks', 'exception',
                      dict(where='witnesses of fixed findings', error=traceback.format_exc()[-1500:]))
    n = int(os.environ.get('C19_N', 1200 if ctx.quick() else 8000))
    for t in range(n):
        datas.append((gen_scenario(ctx, rng), ('random', t)))
    checks, calls, results = [], [], []
    for data, lab in datas:
        nd = normalise(data)
        try:
            expr, call, res, sc = coq_case(pym, Poly, nd, rng)
        except Exception as e:
            import traceback
            ctx.violation('impl-violates', 'finite_difference', 'the routine completes on well-formed networks', 'exception',
                          dict(label=lab, scenario=data, error=traceback.format_exc()[-1500:]))
            continue
        checks.append(expr)
        calls.append(call)
        labels.append(lab)
        results.append((data, res))
        ctx.count('tuples', len(res['tuples']))
        ctx.count('err:%d' % res['err'])
        fdc = data['fd']
        ctx.count('flags:rel=%d,random=%d,usedf=%d,keepzero=%d,net=%d' % (fdc['relative'], fdc['random'],
                                                                       fdc.get('use_df') is not None, fdc['keep_zero'], fdc['network']))
        ctx.case(json.dumps(data, sort_keys=True, default=str), len(res['tuples']) > 0,
                 sample=dict(label=lab, ntuples=len(res['tuples']), first=str(res['tuples'][:2])))
    failing, err = vlib.run_cases(ctx, 'fd', HEADER, checks, chunk=25, timeout=1500)
    ctx.obligation('correspondence:case files evaluated', 'correspondence', not err, err)
    if err:
        ctx.violation('correspondence', 'finite_difference', 'case files compile', 'harness', dict(error=err[-3000:]),
                      theorem='cases_fd')
    for idx in failing[:10]:
        data, res = results[idx]
        vals, e2 = vlib.eval_coq(ctx, f'bad{idx}', HEADER, [f'show ({calls[idx]})'])
        ctx.violation('correspondence', 'finite_difference', 'model == implementation (tuples, states, sensitivities, seeds)',
                      'network' if data['fd']['network'] else 'module',
                      dict(label=labels[idx], scenario=data),
                      expected=dict(model=(vals[0][:3000] if vals else e2[-1500:])),
                      got=dict(err=res['err'], tuples=str(res['tuples'])[:2500]),
                      note='Coq model and implementation differ')
    # the oracle always looks at the corpus and at every case the correspondence rejected
    first = [i for i, lab in enumerate(labels) if lab[0] != 'random']
    order = first + [i for i in failing if i not in first] + [i for i in range(len(results)) if i not in set(first) | set(failing)]
    lim = min(len(order), int(os.environ.get('C19_ORACLE_N', len(order))))      # every case, in both tiers
    oracle(ctx, pym, Poly, [results[i] for i in order[:lim]])


def regression_probes(ctx, pym, Poly, datas):
    """the witnesses of the fixed findings F24, F25, F26, F27, each checked for exactly the predicate under which it was
    registered; a violation here means the defect is back (entries with status "fixed" suppress nothing)"""
    byname = {lab[1]: data for data, lab in datas if lab[0] == 'corpus'}
    for name, (cs, pr, ic) in FIXED_WITNESSES.items():
        data = byname.get(name)
        ctx.obligation(f'corpus:witness {name} present', 'harness', data is not None, '' if data is not None else 'missing corpus file')
        if data is None:
            continue
        ctx.search_evaluations += 1
        nd = normalise(data)
        sc = Scenario(pym, Poly, nd)
        case = dict(label=('corpus', name), scenario=data)
        try:
            res = run_fd(pym, sc, nd['fd'], __import__('random').Random(1))
        except TypeError as e:
            ctx.violation('impl-violates', cs if name.startswith('F25') else 'finite_difference',
                          pr if name.startswith('F25') else 'the routine completes on well-formed networks',
                          ic if name.startswith('F25') else 'exception', case, expected='no exception', got=repr(e)[:500])
            continue
        if name.startswith('F24'):
            orig = [build_value(v) for v in nd['fd']['use_df']]
            same = all(np.array_equal(np.asarray(a), np.asarray(b)) for a, b in zip(orig, res['use_df']))
            fds = [t[3] for t in res['tuples']]
            if not same or not fds or any(t[2] != t[3] for t in res['tuples']) or all(v == 0 for v in fds):
                ctx.violation('impl-violates', cs, pr, ic, case, expected=dict(use_df=str(orig), pairs='matching, non-zero'),
                              got=dict(use_df=str(res['use_df']), tuples=str(res['tuples'])))
        elif name.startswith('F26'):
            left = {i: str(r.sensitivity) for i, r in enumerate(sc.roots) if r.sensitivity is not None}
            if left:
                ctx.violation('impl-violates', cs, pr, ic, case, expected='every sensitivity None', got=left)
        elif name.startswith('F27'):
            left = {i: str(r.sensitivity) for i, r in enumerate(sc.roots) if r.sensitivity is not None and np.any(flat(r.sensitivity) != 0)}
            got = [(t[2], t[3]) for t in res['tuples']]
            if got != [(2.0, 2.0), (2.0, 2.0), (0.0, 0.0)] or left:
                ctx.violation('impl-violates', cs, pr, ic, case, expected='pairs (2,2), (2,2), (0,0); no sensitivity left',
                              got=dict(pairs=str(got), left=left))
        elif name.startswith('F25'):
            if len(res['tuples']) != 2:
                ctx.violation('impl-violates', cs, pr, ic, case, expected='a real and an imaginary tuple', got=str(res['tuples']))


# ----------------------------------------------------------------------------- implementation-side property oracle
def cq(z):
    """complex float -> (re, im) exact rationals"""
    z = complex(z)
    return F(z.real), F(z.imag)


def entry_list(v):
    """flattened logical (C-order) entries of a value; a scalar is one entry"""
    if sp.issparse(v):
        v = v.toarray()
    if isinstance(v, np.ndarray):
        return [v.flat[i] for i in range(v.size)]
    return [v]


def executed(nd, fd):
    """(i_first, i_last) of the modules the routine executes repeatedly"""
    if not fd['network']:
        return 0, 0
    inps_ref = fd['fromsig'] if fd['fromsig'] is not None else nd['mods'][0]['ins']
    outs_ref = fd['tosig'] if fd['tosig'] is not None else nd['mods'][0]['outs']
    return subnetwork(nd['mods'], inps_ref, outs_ref)


def fresh_response(pym, Poly, nd, i_first, i_last, perturb=None):
    """independent evaluation: a fresh scenario; the modules before i_first run once; optionally entry k (logical
    position) of the state of reference `ref` is shifted by delta; then the modules i_first..i_last run"""
    sc = Scenario(pym, Poly, nd)
    for r in sc.roots:
        r.sensitivity = None
    for m in sc.mods[:i_first]:
        m.response()
    if perturb is not None:
        ref, k, delta = perturb
        sig = sc.ref(ref)
        x = sig.state
        if isinstance(x, np.ndarray):
            y = np.array(x, order='C', copy=True)
            y.flat[k] = y.flat[k] + delta
            sig.state = y
        else:
            sig.state = x + delta
    for m in sc.mods[i_first:i_last + 1]:
        m.response()
    return sc


def seeds_used(fd, outputs, rand_calls):
    """the seed of every output of interest, reconstructed from the arguments alone (use_df / ones / the numbers our
    np.random.rand replacement handed out, in call order)"""
    seeds, pos = [], 0
    for i, out in enumerate(outputs):
        if fd.get('use_df') is not None:
            seeds.append(build_value(fd['use_df'][i]))
            continue
        shape = out.shape if hasattr(out, 'shape') else ()
        n = int(np.prod(shape)) if shape else 1
        if fd['random']:
            re = np.array([float(v) for v in rand_calls[pos]]).reshape(shape)
            pos += 1
            if np.iscomplexobj(out):
                re = re + 1j * np.array([float(v) for v in rand_calls[pos]]).reshape(shape)
                pos += 1
            seeds.append(re)
        else:
            seeds.append(np.ones(shape) + (1j * np.ones(shape) if np.iscomplexobj(out) else 0))
    return seeds


def quotient(fp, f0, delta_re, imag, seed):
    """Re (Im) of sum(((fp - f0) / delta) * seed) in exact rationals; delta = delta_re or i*delta_re"""
    a, b, w = entry_list(fp), entry_list(f0), entry_list(seed)
    if len(w) == 1 and len(a) > 1:
        w = w * len(a)
    tr, ti = Fraction(0), Fraction(0)
    for x, y, z in zip(a, b, w):
        (xr, xi), (yr, yi), (zr, zi) = cq(x), cq(y), cq(z)
        dr, di = (xr - yr), (xi - yi)
        if imag:
            dr, di = di / delta_re, -dr / delta_re
        else:
            dr, di = dr / delta_re, di / delta_re
        tr += dr * zr - di * zi
        ti += dr * zi + di * zr
    return ti if imag else tr


def oracle(ctx, pym, Poly, results):
    import random as _random
    for data, res0 in results:
        if res0['err'] != 0:
            continue          # RuntimeError outcomes are compared by the correspondence only
        ctx.search_evaluations += 1
        nd = normalise(data)
        fd = nd['fd']
        case = dict(scenario=data)

        def bad(pred, cls, expected=None, got=None):
            ctx.violation('impl-violates', 'finite_difference', pred, cls, case, expected=expected, got=got)
        try:
            i_first, i_last = executed(nd, fd)
            exec_mods = nd['mods'][i_first:i_last + 1]
            sc = Scenario(pym, Poly, nd)
            # the states a plain evaluation produces
            ref = fresh_response(pym, Poly, nd, i_first, i_last)
            r1 = run_fd(pym, sc, fd, _random.Random(1))
            # (a0) the caller's use_df arrays are not modified
            if fd.get('use_df') is not None:
                for a, v in zip(r1['use_df'], fd['use_df']):
                    b = build_value(v)
                    if np.shape(a) != np.shape(b) or np.asarray(a).dtype != np.asarray(b).dtype or \
                            not np.array_equal(np.asarray(a), np.asarray(b)):
                        bad('seed array not modified; numerical value uses the seed', 'use_df', str(b), str(a))
            # (a1) every input state — every state the executed modules do not produce — is restored exactly
            inside = {o for m in exec_mods for o in m['outs']}
            after_last = {o for m in nd['mods'][i_last + 1:] for o in m['outs']} - inside
            for i in range(len(nd['roots'])):
                if i in inside or i in after_last:
                    continue
                a, b = sc.roots[i].state, ref.roots[i].state
                same = (a is None and b is None) or (a is not None and b is not None and
                                                     np.array_equal(flat(a), flat(b)) and np.shape(a) == np.shape(b))
                if not same:
                    bad('every input state is restored exactly', 'restore', str(b), str(a))
            # (a2) no sensitivity is left on ANY signal: None; zeros only where an allocation is kept or on the base of
            #      a slice of an executed module; a stale value that was there before the call may only survive where
            #      the routine has no business (not a signal of the executed modules, not an output of interest)
            inps_ref, outs_ref = r1['inps_ref'], r1['outs_ref']
            # signals the routine resets as a whole: signals of the executed modules, outputs and inputs of interest
            owned = inside | {x['root'] for m in exec_mods for x in m['ins'] if x.get('index') is None} | set(outs_ref) | \
                {x['root'] for x in inps_ref if x.get('index') is None}
            slice_pos = {}
            scn = Scenario(pym, Poly, nd)
            for x in [x for m in exec_mods for x in m['ins']] + list(inps_ref):
                if x.get('index') is not None:
                    slice_pos.setdefault(x['root'], set()).update(scn.ref_info(x)[0])
            exec_slice_bases = {x['root'] for m in exec_mods for x in m['ins'] if x.get('index') is not None}
            for i, r in enumerate(sc.roots):
                s = r.sensitivity
                init = scn.roots[i].sensitivity
                zeros_ok = scn.roots[i].keep_alloc or i in exec_slice_bases
                if init is None or i in owned:
                    if s is None or (zeros_ok and not np.any(flat(s) != 0)):
                        continue
                    bad('no sensitivity is left set after the call', 'restore' if init is None else 'left-over sensitivity',
                        'None' + (' or zeros' if zeros_ok else ''), f'signal {i}: {s}')
                else:
                    # a left-over the routine has no business with (not a signal of the executed modules, not of interest):
                    # only the entries addressed by executed slices / sliced inputs of interest are zeroed
                    exp = np.array(flat(init), copy=True)
                    for pz in slice_pos.get(i, ()):
                        exp[pz] = 0
                    if s is None or not np.array_equal(flat(s), exp):
                        bad('no sensitivity is left set after the call', 'left-over sensitivity outside the routine',
                            str(exp), f'signal {i}: {s}')
            # (b) the tuples, recomputed independently: which entries, in which order, x0, dx, analytical value = entry
            #     of the backpropagated sensitivity for the seed, numerical value = seed-weighted difference quotient
            outputs = [ref.roots[o].state for o in outs_ref]
            try:
                seeds = seeds_used(fd, outputs, r1['rand'])
                drawn = sum(2 if np.iscomplexobj(o) else 1 for o in outputs) if (fd['random'] and fd.get('use_df') is None) else 0
                if len(r1['rand']) != drawn:
                    raise IndexError(f'{len(r1["rand"])} draws')
            except (IndexError, ValueError) as e:
                bad('the random seed of every output is drawn from np.random.rand (real part, and imaginary part for a '
                    'complex output), none otherwise', 'seed', None, repr(e))
                continue
            dxv = 2.0 ** (-fd['k'])
            an_sens = []
            for o, w in zip(outs_ref, seeds):
                scb = fresh_response(pym, Poly, nd, i_first, i_last)
                scb.roots[o].sensitivity = copy.deepcopy(w)
                for m in reversed(scb.mods[i_first:i_last + 1]):
                    m.sensitivity()
                an_sens.append([copy.deepcopy(scb.ref(x).sensitivity) for x in inps_ref])
            exp_t = []
            for iin, x_ref in enumerate(inps_ref):
                x = ref.ref(x_ref).state
                is_arr = isinstance(x, np.ndarray)
                for k in (nditer_order(x) if is_arr else [0]):
                    x0 = x.flat[k] if is_arr else x
                    if is_arr and x0 == 0 and fd['keep_zero']:
                        continue
                    sf = float(np.abs(x0)) if (fd['relative'] and np.abs(x0) != 0) else 1.0
                    for imag in ((False, True) if np.iscomplexobj(x0) else (False,)):
                        delta = dxv * sf
                        scp = fresh_response(pym, Poly, nd, i_first, i_last, (x_ref, k, (1j * delta) if imag else delta))
                        for io, o in enumerate(outs_ref):
                            g = quotient(scp.roots[o].state, outputs[io], F(delta), imag, seeds[io])
                            sv = an_sens[io][iin]
                            if sv is None:
                                an = Fraction(0)
                            else:
                                e = entry_list(sv)
                                an = cq(e[k] if (isinstance(sv, np.ndarray) and sv.ndim > 0) else e[0])[1 if imag else 0]
                            exp_t.append((cq(x0), F(dxv), an, g))
            got_t = [(cq(t[0]), F(t[1]), F(t[2]), F(t[3])) for t in r1['tuples']]
            if len(got_t) != len(exp_t):
                bad('one tuple per perturbed entry and output (two for complex entries)', 'count', len(exp_t), len(got_t))
            else:
                for e, (ge, ee) in enumerate(zip(got_t, exp_t)):
                    if ge[0] != ee[0] or ge[1] != ee[1]:
                        bad('tuples report the original entry and dx, in np.nditer order', 'order', str(ee[:2]), str(ge[:2]))
                        break
                    if ge[2] != ee[2]:
                        bad('analytical value is the backpropagated sensitivity of the seed', 'an-value',
                            str(ee[2]), dict(tuple_index=e, got=str(ge[2])))
                        break
                    if ge[3] != ee[3]:
                        bad('numerical value equals the seed-weighted difference quotient', 'fd-value',
                            str(ee[3]), dict(tuple_index=e, got=str(ge[3])))
                        break
            # (c)+(d): exact extrapolation of the numerical values to dx -> 0 (polynomials of degree <= 4); the seeds are
            #          the same in every run (our np.random.rand replacement restarts)
            runs = []
            for h in range(5):
                sch = Scenario(pym, Poly, nd)
                runs.append(run_fd(pym, sch, fd, _random.Random(1), dx=2.0 ** (-(fd['k'] + h)))['tuples'])
            if any(len(t) != len(runs[0]) for t in runs):
                bad('tuple count independent of dx', 'count')
                continue
            wrong_any = any(data.get('meta', {}).get('wrong', []))
            mismatch = False
            for e in range(len(runs[0])):
                hs = [Fraction(1, 2 ** (fd['k'] + h)) for h in range(5)]
                gs = [F(runs[h][e][3]) for h in range(5)]
                # Lagrange extrapolation to 0 through 5 points (exact for polynomials of degree <= 4 in dx)
                T = Fraction(0)
                for a in range(5):
                    w = Fraction(1)
                    for b in range(5):
                        if a != b:
                            w *= (0 - hs[b]) / (hs[a] - hs[b])
                    T += w * gs[a]
                an = F(runs[0][e][2])
                g0 = gs[0]
                # O(dx): the error is bounded by a multiple of dx
                if abs(g0 - T) > 4096 * hs[0] * max(1, abs(T)):
                    bad('numerical value equals the true directional derivative up to O(dx)', 'fd-value', str(T), str(g0))
                if an != T:
                    mismatch = True
                    if not wrong_any:
                        bad('a correct sensitivity is reported with a matching pair', 'an-value', str(T), str(an))
            if wrong_any and not mismatch and len(runs[0]) > 0:
                # a wrong entry can hide behind a zero seed weight / an unperturbed (zero) entry: count, do not alarm
                ctx.count('oracle:wrong-adjoint-not-visible-at-perturbed-entries')
            elif wrong_any and mismatch:
                ctx.count('oracle:wrong-adjoint-detected')
        except Exception as e:
            import traceback
            bad('the routine completes on well-formed networks', 'exception', None, traceback.format_exc()[-800:])


if __name__ == '__main__':
    vlib.main(run, 'C19')
