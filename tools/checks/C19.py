"""C19 — finite_difference is a faithful and non-destructive derivative check.

(H) correspondence: the REAL pymoto.finite_difference is run on networks of user-defined polynomial modules
(integer / Gaussian-integer coefficient matrices, correct and deliberately wrong adjoints) with dyadic data and
dx = 2^-k, so that every float operation is exact; the tuples received by test_fn, every state / sensitivity after
the call and the seed arrays are compared with equality inside Coq against Model/FD.v.
np.random.rand is replaced from outside by a generator of known dyadic numbers; the order in which np.nditer visits
the entries of an input is taken from numpy (oracle).
Oracle: the property text on the implementation: use_df untouched; restoration of every input state; no sensitivity
left on ANY signal of the scenario; tuple count; every analytical value = entry of an independently backpropagated
sensitivity for the seed; every numerical value = the seed-weighted difference quotient recomputed independently (exact
rationals); numerical value -> true derivative with O(dx) error via exact extrapolation; wrong adjoint <=> mismatch.
The witnesses of the fixed findings F07, F24, F25, F26, F27 are corpus cases and regression probes.

How a module hands out its values is a separate axis of the module family (spec keys omode / sfmt / alias / smode): a
fresh object per response, ONE object kept and refreshed in place (dense, 0-d, sparse through `.data[:]`, sparse with a
replaced `.data`), views of one internal buffer (contiguous, strided, transposed), the input itself or a view of it,
Python scalars, sparse containers csr/csc/coo/lil/dok/dia/bsr (matrix and array flavours); sensitivities as fresh arrays,
kept buffers, views of one buffer, or the seed itself. Model/FD.v is value-level: the Coq expression of a case never
mentions these keys, so the correspondence demands that the routine reports for such modules exactly the tuples of a
module that builds fresh objects; the oracle takes all its references from plain modules as well. A deterministic block
(stress_scenarios) enumerates every hand-out mode x real/complex x three requests on every run.
"""
import os, io, json, glob, copy, contextlib
from fractions import Fraction
from unittest import mock
import numpy as np
import scipy.sparse as sp
import vlib
from vlib import zl, zlit, blit

HEADER = '''From Coq Require Import ZArith QArith Qcanon List Bool.
From Pymoto Require Import Base.Num Base.Cmp Model.FD.
Import ListNotations.
Definition r (a : Q) : K := (Q2Qc a, Q2Qc 0).
Definition c (a b : Q) : K := (Q2Qc a, Q2Qc b).
Definition rl (l : list Q) : list K := map r l.
Definition V (d : list K) (k : vkind) (cx : bool) : val := {| v_dat := d; v_kind := k; v_cx := cx |}.
Definition SG (a b : option val) (k : bool) : sigrec := {| st := a; se := b; keep := k |}.
Definition R0 (i : nat) : sref := {| s_root := i; s_slice := None |}.
Definition RS (i : nat) (ix : list nat) (shp : list Z) : sref := {| s_root := i; s_slice := Some (ix, shp) |}.
Definition qk (a : K) : list Q := [this (fst a); this (snd a)].
Definition rep_q (x : report) : list Q :=
  [this (fst (r_x0 x)); this (snd (r_x0 x)); this (r_dx x); this (r_an x); this (r_fd x)].
Definition oval_q (o : option val) : option (list Q) := option_map (fun v => flat_map qk (v_dat v)) o.
Definition oeq := option_eqb Ql_eqb.
(* a state observation `Some []` stands for "not compared here": the state of an output that a pass-through module
   hands out as a view of its input (it follows the restored input instead of keeping the last perturbed response;
   the harness compares it with the unperturbed response instead). A real state has at least one entry. *)
Definition steq (a b : option (list Q)) : bool :=
  match b with Some nil => true | _ => oeq a b end.
Definition check (res : fderr + fdresult) (err : Z) (reps : list (list Q))
           (sts ses seeds : list (option (list Q))) : bool :=
  match res with
  | inl ENoInput => Z.eqb err 1
  | inl ENoOutput => Z.eqb err 2
  | inr x =>
      Z.eqb err 0 && Qll_eqb (map rep_q (f_reports x)) reps &&
      list_eqb steq (map (fun g => oval_q (st g)) (f_store x)) sts &&
      list_eqb oeq (map (fun g => oval_q (se g)) (f_store x)) ses &&
      list_eqb oeq (map oval_q (f_seeds x)) seeds
  end.
Definition show (res : fderr + fdresult) :=
  match res with
  | inl _ => None
  | inr x => Some (map rep_q (f_reports x), map (fun g => (oval_q (st g), oval_q (se g))) (f_store x), map oval_q (f_seeds x))
  end.
'''


# ----------------------------------------------------------------------------- literals
def F(x):
    return Fraction(float(x))


def qlit(f):
    f = Fraction(f)
    if f.denominator == 1:
        return f'({f.numerator})' if f.numerator < 0 else f'{f.numerator}'
    return f'({f.numerator}#{f.denominator})'


def klit(z):
    z = complex(z)
    if z.imag == 0:
        return f'r {qlit(F(z.real))}'
    return f'c {qlit(F(z.real))} {qlit(F(z.imag))}'


def kl(zs):
    return '[' + '; '.join(klit(z) for z in zs) + ']%Q'


def ql(fs):
    return '[' + '; '.join(qlit(f) for f in fs) + ']%Q'


def natl(xs):
    return '[' + '; '.join(str(int(x)) for x in xs) + ']%nat'


def mat_lit(M):
    return '[' + '; '.join(kl(row) for row in np.asarray(M)) + ']'


def kind_lit(kind):
    return 'KScal' if kind == 'scal' else f'(KArr {zl(list(kind))}%Z)'


def flat(x):
    if sp.issparse(x):
        x = x.toarray()
    return np.asarray(x).ravel()


def val_lit(x):
    """python value -> Coq val"""
    cx = bool(np.iscomplexobj(x))
    if sp.issparse(x):
        kind = tuple(x.shape)
    elif isinstance(x, np.ndarray):
        kind = tuple(x.shape)
    else:
        kind = 'scal'
    return f'(V {kl(flat(x).tolist())} {kind_lit(kind)} {blit(cx)})'


def oq(x):
    """observation of a value: None or the flattened (re, im) rationals"""
    if x is None:
        return 'None'
    out = []
    for z in flat(x).tolist():
        z = complex(z)
        out += [F(z.real), F(z.imag)]
    return f'(Some {ql(out)})'


# ----------------------------------------------------------------------------- the module family
def cast(M, dt):
    a = np.asarray(M, dtype=complex)
    return a if dt is complex else a.real.astype(float)


SPARSE_FMTS = {
    'csr_matrix': sp.csr_matrix, 'csc_matrix': sp.csc_matrix, 'coo_matrix': sp.coo_matrix,
    'csr_array': sp.csr_array, 'csc_array': sp.csc_array, 'coo_array': sp.coo_array,
    'lil_matrix': sp.lil_matrix, 'dok_matrix': sp.dok_matrix, 'dia_matrix': sp.dia_matrix, 'bsr_matrix': sp.bsr_matrix,
}
INPLACE_FMTS = ('csr_matrix', 'csc_matrix', 'coo_matrix', 'csr_array', 'csc_array', 'coo_array')   # formats with a flat .data
MODE_KEYS = ('omode', 'sfmt', 'alias', 'smode')


def alias_view(x, how):
    """the view of an input array that a pass-through module hands out as its output"""
    if how == 'same':
        return x
    if how == 'rev':
        return x[::-1]
    if how == 'T':
        return x.T
    if how == 'ravel':
        return x.reshape(-1)          # a view whenever numpy can make one
    raise ValueError(how)


def alias_matrix(shape, how):
    """0/1 matrix P with vec(alias_view(x, how)) = P vec(x) (logical C order on both sides)"""
    n = int(np.prod(shape)) if len(shape) else 1
    ids = np.arange(n).reshape(shape)
    sel = np.asarray(alias_view(ids, how)).ravel()
    P = [[[0, 0] for _ in range(n)] for _ in range(n)]
    for a, b in enumerate(sel):
        P[a][int(b)] = [1, 0]
    return P, list(np.asarray(alias_view(ids, how)).shape)


def make_poly_class(pym):
    class Poly(pym.Module):
        """y_j = c_j + sum_i A_ji x_i + sum_i Q_ji x_i^2 ; claimed adjoint uses B, Qb.

        HOW the values are handed out is a separate choice (it must not change anything finite_difference reports):
        spec['omode'][j]: 'fresh' (default: a new object per response) | 'inplace' (ONE object per output, kept by the
            module and refreshed in place: dense arrays, 0-d arrays, sparse matrices through `.data[:] = ...`) |
            'swapdata' (one sparse object, `.data` replaced by a new array) | 'view' / 'view_strided' (views of one
            internal buffer shared by all outputs; contiguous / strided resp. transposed) | 'pyscal' (Python float /
            complex instead of a numpy scalar);
        spec['sfmt'][j]: container of a sparse output (SPARSE_FMTS);
        spec['alias'][j] = {'in': i, 'how': ..}: the output IS (a view of) input i (pass-through; the matrices say so);
        spec['smode']: 'fresh' | 'buffer' (one sensitivity array per input kept by the module, refreshed in place) |
            'view' (views of one internal buffer) | 'seedview' (pass-through: the (view of the) seed itself)."""

        def _prepare(self, spec=None):
            self.spec = spec
            self._obuf, self._opat, self._sbuf = {}, {}, {}
            self._big, self._sbig = None, None

        def _opt(self, key, j):
            v = self.spec.get(key)
            return None if v is None else v[j]

        def _big_view(self, j, m, shape, dtype, strided):
            """view number j (m entries) of the one buffer shared by all outputs of this module"""
            sizes = [len(cj) for cj in self.spec['c']]
            if self._big is None or self._big.dtype != dtype:
                self._big = np.zeros(sum(2 * n + 1 for n in sizes), dtype=dtype)
            off = sum(2 * n + 1 for n in sizes[:j])
            if not strided:
                return self._big[off:off + m].reshape(shape)
            if len(shape) == 2:
                return self._big[off:off + m].reshape(shape[::-1]).T         # Fortran-ordered view
            return self._big[off:off + 2 * m:2].reshape(shape)                # every second entry

        def _emit(self, j, k, y, xs):
            mode = self._opt('omode', j) or 'fresh'
            al = self._opt('alias', j)
            if al is not None and isinstance(xs[al['in']], np.ndarray):
                return alias_view(xs[al['in']], al['how'])
            if k == 'scal':
                if mode == 'pyscal':
                    return complex(y[0]) if np.iscomplexobj(y) else float(y[0])
                return y[0]
            if is_sparse_kind(k):
                shape = tuple(k[1])
                fmt = self._opt('sfmt', j) or 'csr_matrix'
                Y = y.reshape(shape)
                if mode in ('inplace', 'swapdata') and fmt in INPLACE_FMTS:
                    K = self._obuf.get(j)
                    if K is None or K.dtype != Y.dtype:
                        K = self._obuf[j] = SPARSE_FMTS[fmt](np.ones(shape, dtype=Y.dtype))     # full, fixed pattern
                        coo = K.tocoo(copy=True)
                        self._opat[j] = (np.array(coo.row), np.array(coo.col))
                    rows, cols = self._opat[j]
                    if mode == 'inplace':
                        K.data[:] = Y[rows, cols]
                    else:
                        K.data = np.array(Y[rows, cols])
                    return K
                return SPARSE_FMTS[fmt](Y)
            shape = tuple(k)
            if mode == 'inplace':
                b = self._obuf.get(j)
                if b is None or b.dtype != y.dtype:
                    b = self._obuf[j] = np.zeros(shape, dtype=y.dtype)
                b[...] = y.reshape(shape)
                return b
            if mode in ('view', 'view_strided'):
                v = self._big_view(j, len(y), shape, y.dtype, mode == 'view_strided')
                v[...] = y.reshape(shape)
                return v
            return y.reshape(shape)

        def _response(self, *xs):
            s = self.spec
            dt = complex if (s['cx'] or any(np.iscomplexobj(x) for x in xs)) else float
            out = []
            for j, cj in enumerate(s['c']):
                y = cast(cj, dt)
                for i, x in enumerate(xs):
                    xv = flat(x).astype(dt)
                    y = y + cast(s['A'][j][i], dt) @ xv + cast(s['Q'][j][i], dt) @ (xv * xv)
                out.append(self._emit(j, s['okind'][j], y, xs))
            return out

        def _hand_out(self, i, r, ws):
            """r: the computed sensitivity of array input i; how it is handed out"""
            smode = self.spec.get('smode') or 'fresh'
            if smode == 'buffer':
                b = self._sbuf.get(i)
                if b is None or b.dtype != r.dtype or b.shape != r.shape:
                    b = self._sbuf[i] = np.zeros(r.shape, dtype=r.dtype)
                b[...] = r
                return b
            if smode == 'view':
                sizes = [int(flat(sig.state).size) for sig in self.sig_in]
                if self._sbig is None or self._sbig.dtype != r.dtype or self._sbig.size != sum(sizes) + len(sizes):
                    self._sbig = np.zeros(sum(sizes) + len(sizes), dtype=r.dtype)
                off = sum(sizes[:i]) + i
                v = self._sbig[off:off + r.size].reshape(r.shape)
                v[...] = r
                return v
            if smode == 'seedview':
                for j, w in enumerate(ws):
                    al = self._opt('alias', j)
                    if al is None or al['in'] != i or not isinstance(w, np.ndarray):
                        continue
                    try:
                        back = {'same': lambda a: a, 'rev': lambda a: a[::-1], 'T': lambda a: a.T,
                                'ravel': lambda a: a.reshape(r.shape)}[al['how']](w)
                    except ValueError:
                        continue
                    if back.shape == r.shape and back.dtype == r.dtype and np.array_equal(back, r):
                        return back             # the seed itself (or a view of it): same values as computed
            return r

        def _sensitivity(self, *ws):
            s = self.spec
            res = []
            for i, sig in enumerate(self.sig_in):
                x = sig.state
                cx = s['cx'] or np.iscomplexobj(x) or any(w is not None and np.iscomplexobj(w) for w in ws)
                dt = complex if cx else float
                xv = flat(x).astype(dt)
                acc = np.zeros(xv.size, dtype=dt)
                for j, w in enumerate(ws):
                    if w is None:
                        continue
                    wv = np.broadcast_to(np.asarray(w, dtype=dt).ravel(), (len(s['c'][j]),))
                    acc = acc + cast(s['B'][j][i], dt).T @ wv + 2 * xv * (cast(s['Qb'][j][i], dt).T @ wv)
                if isinstance(x, np.ndarray) or sp.issparse(x):
                    res.append(self._hand_out(i, acc.reshape(x.shape), ws))
                elif s.get('pysens'):
                    res.append(complex(acc[0]) if dt is complex else float(acc[0]))      # Python scalar
                else:
                    res.append(acc[0])                                                    # numpy scalar
            return res
    return Poly


def strip_modes(nd):
    """the same scenario with plain modules (a fresh object per response / sensitivity): the pristine reference"""
    d = copy.deepcopy(nd)
    for m in d['mods']:
        for key in MODE_KEYS:
            m['spec'].pop(key, None)
    return d


def alias_roots(data):
    """root ids of outputs that are handed out as (views of) an input array"""
    out = set()
    for m in data['mods']:
        al = m['spec'].get('alias')
        if al:
            out |= {o for o, a in zip(m['outs'], al) if a is not None}
    return out


# ----------------------------------------------------------------------------- scenario = plain data (json-able)
# roots: [{'value': spec or None, 'sens': spec or None, 'keep': bool (default true: constructed with `sens`)}]   value spec: {'kind','shape','data':[[re,im]..],'cx','order'}
# mods : [{'ins': [ref], 'outs': [root ids], 'spec': {...}}]  ref: {'root': i, 'index': json index or None}
#        spec['pysens'] (optional): sensitivities of scalar inputs are returned as Python float / complex
# fd   : {'network','fromsig':[ref]|None,'tosig':[root]|None,'k','relative','random','use_df':[...]|None,'keep_zero'}
def build_value(v):
    if v is None:
        return None
    zs = [complex(a, b) for a, b in v['data']]
    k = v['kind']
    cx = v['cx']
    if k == 'pyfloat':
        return complex(zs[0]) if cx else float(zs[0].real)
    if k == 'pyint':
        return int(zs[0].real)
    if k == 'npscal':
        return np.complex128(zs[0]) if cx else np.float64(zs[0].real)
    arr = np.array(zs if cx else [z.real for z in zs], dtype=complex if cx else float).reshape(v['shape'])
    if v.get('order') == 'F':
        arr = np.asfortranarray(arr)
    elif v.get('order') == 'rev' and arr.ndim >= 1:          # negatively strided view (np.nditer walks it backwards)
        arr = np.array(arr[::-1])[::-1]
    elif v.get('order') == 'strided' and arr.ndim >= 1:      # every second entry (last axis) of a larger caller-owned buffer
        big = np.full(arr.shape[:-1] + (2 * arr.shape[-1] + 1,), 77.0, dtype=arr.dtype)
        big[..., 1::2] = arr
        arr = big[..., 1::2]
    return arr


def dec_index(x):
    if x is None:
        return None
    if isinstance(x, dict) and 'tuple' in x:
        return tuple(dec_index(y) for y in x['tuple'])
    if isinstance(x, dict) and 'slice' in x:
        return slice(*x['slice'])
    if isinstance(x, dict) and 'intarray' in x:
        return np.array(x['intarray'], dtype=int)
    return int(x['int'])


class Scenario:
    def __init__(self, pym, Poly, data):
        self.pym, self.data = pym, data
        self.roots = []
        for i, r in enumerate(data['roots']):
            kw = {}
            if r.get('sens') is not None and r.get('keep', True):
                kw['sensitivity'] = build_value(r['sens'])      # constructed with a sensitivity: the allocation is kept
            self.roots.append(pym.Signal(f's{i}', state=build_value(r['value']), **kw))
            if r.get('sens') is not None and not r.get('keep', True):
                self.roots[-1].sensitivity = build_value(r['sens'])      # left over from an earlier computation
        self.mods = []
        for m in data['mods']:
            ins = [self.ref(x) for x in m['ins']]
            outs = [self.roots[o] for o in m['outs']]
            self.mods.append(Poly(ins, outs, spec=m['spec']))

    def ref(self, x):
        s = self.roots[x['root']]
        if x.get('index') is not None:
            s = s[dec_index(x['index'])]
        return s

    def ref_info(self, x):
        """(positions, result shape) numpy selects for a slice reference"""
        if x.get('index') is None:
            return None
        st = self.roots[x['root']].state
        A = np.arange(st.size).reshape(st.shape)[dec_index(x['index'])]
        idx = [int(v) for v in np.asarray(A).ravel()]
        assert len(set(idx)) == len(idx) and isinstance(A, np.ndarray)
        return idx, tuple(A.shape)

    def ref_lit(self, x):
        inf = self.ref_info(x)
        if inf is None:
            return f'(R0 {x["root"]})'
        return f'(RS {x["root"]} {natl(inf[0])} {zl(list(inf[1]))}%Z)'


def nditer_order(x):
    """logical (C-order) positions in the order np.nditer visits them (same flags as the routine)"""
    if not isinstance(x, np.ndarray):
        return [0]
    y = x.copy(order='K') if False else x
    it = np.nditer(y, flags=['c_index', 'multi_index'], op_flags=['readwrite'])
    out = []
    while not it.finished:
        out.append(int(np.ravel_multi_index(it.multi_index, x.shape)) if x.ndim else 0)
        it.iternext()
    return out


class FakeRand:
    """stands in for np.random.rand: dyadic numbers k/16 from our generator; records what it returned"""

    def __init__(self, rng):
        self.rng, self.calls = rng, []

    def __call__(self, *shape):
        n = int(np.prod(shape)) if shape else 1
        vals = [self.rng.randint(1, 15) / 16.0 for _ in range(n)]
        self.calls.append([Fraction(v) for v in vals])
        return np.array(vals).reshape(shape) if shape else float(vals[0])


def run_fd(pym, sc, fd, rng, dx=None):
    """runs the real routine; returns dict(err, tuples, use_df_after, rand calls, inps, outps, orders)"""
    blk = pym.Network(sc.mods) if fd['network'] else sc.mods[0]
    inps_ref = fd['fromsig'] if fd['fromsig'] is not None else sc.data['mods'][0]['ins']
    outs_ref = fd['tosig'] if fd['tosig'] is not None else sc.data['mods'][0]['outs']
    fromsig = [sc.ref(x) for x in fd['fromsig']] if fd['fromsig'] is not None else None
    tosig = [sc.roots[o] for o in fd['tosig']] if fd['tosig'] is not None else None
    use_df = [build_value(v) for v in fd['use_df']] if fd.get('use_df') is not None else None
    rec = []
    fake = FakeRand(rng)
    dxv = dx if dx is not None else 2.0 ** (-fd['k'])
    err = 0
    try:
        with contextlib.redirect_stdout(io.StringIO()), mock.patch('numpy.random.rand', fake):
            pym.finite_difference(blk, fromsig=fromsig, tosig=tosig, dx=dxv, relative_dx=fd['relative'],
                                  random=fd['random'], use_df=use_df, keep_zero_structure=fd['keep_zero'],
                                  test_fn=lambda x0, dx_, an, fdv: rec.append((complex(x0), float(dx_), float(an), float(fdv))),
                                  verbose=fd.get('verbose', False))
    except RuntimeError as e:
        err = 1 if 'input signals' in str(e) else 2
    return dict(err=err, tuples=rec, use_df=use_df, rand=fake.calls, inps_ref=inps_ref, outs_ref=outs_ref)


# ----------------------------------------------------------------------------- coq case
def spec_lit(s):
    def mats(M):
        return '[' + '; '.join('[' + '; '.join(mat_lit(m) for m in row) + ']' for row in M) + ']'
    kinds = []
    for k in s['okind']:
        kinds.append(kind_lit('scal' if k == 'scal' else (tuple(k[1]) if is_sparse_kind(k) else tuple(k))))
    return ('{| p_c := [' + '; '.join(kl(cj) for cj in s['c']) + f']; p_A := {mats(s["A"])}; p_Q := {mats(s["Q"])}; '
            f'p_B := {mats(s["B"])}; p_Qb := {mats(s["Qb"])}; p_okind := [' + '; '.join(kinds) + f']; p_cx := {blit(s["cx"])} |}}')


def coq_case(pym, Poly, data, rng):
    """build the scenario twice: once to read numpy oracles / initial store, once to run the implementation"""
    fd = data['fd']
    sc0 = Scenario(pym, Poly, data)
    store0 = '[' + '; '.join(
        f'SG {("(Some " + val_lit(r.state) + ")") if r.state is not None else "None"} '
        f'{("(Some " + val_lit(r.sensitivity) + ")") if r.sensitivity is not None else "None"} {blit(r.keep_alloc)}'
        for r in sc0.roots) + ']'
    mods = '[' + ';\n    '.join(
        f'poly_module [{"; ".join(sc0.ref_lit(x) for x in m["ins"])}] [{"; ".join("(R0 %d)" % o for o in m["outs"])}] {spec_lit(m["spec"])}'
        for m in data['mods']) + ']'
    sc = Scenario(pym, Poly, data)
    inps_ref = fd['fromsig'] if fd['fromsig'] is not None else data['mods'][0]['ins']
    # the pre-modules run before the inputs are read: orders are taken after a response of everything
    sc_o = Scenario(pym, Poly, data)
    with contextlib.redirect_stdout(io.StringIO()):
        try:
            for m in sc_o.mods:
                m.response()
        except Exception:
            pass
    orders = [nditer_order(sc_o.ref(x).state) for x in inps_ref]
    res = run_fd(pym, sc, fd, rng)
    outs_ref = res['outs_ref']
    cfg = ('{| c_dx := Q2Qc ' + qlit(Fraction(1, 2 ** fd['k'])) + f'; c_rel := {blit(fd["relative"])}; c_keepzero := {blit(fd["keep_zero"])}; '
           f'c_random := {blit(fd["random"])}; c_usedf := ' +
           ('None' if fd.get('use_df') is None else '(Some [' + '; '.join(val_lit(build_value(v)) for v in fd['use_df']) + '])') +
           '; c_rand := [' + '; '.join('map Q2Qc ' + ql(c) for c in res['rand']) + ']; c_order := [' +
           '; '.join(natl(o) for o in orders) + '] |}')
    inps = '[' + '; '.join(sc0.ref_lit(x) for x in inps_ref) + ']'
    outps = '[' + '; '.join(f'(R0 {o})' for o in outs_ref) + ']'
    call = f'finite_difference {cfg} {blit(fd["network"])}\n   {mods}\n   {inps} {outps}\n   {store0}'
    reps = '[' + '; '.join(ql([F(x0.real), F(x0.imag), F(dx), F(an), F(fdv)]) for x0, dx, an, fdv in res['tuples']) + ']'
    skip = alias_roots(data)
    sts = '[' + '; '.join('(Some [])' if (i in skip and isinstance(r.state, np.ndarray)) else oq(r.state)
                          for i, r in enumerate(sc.roots)) + ']'
    ses = '[' + '; '.join(oq(r.sensitivity) for r in sc.roots) + ']'
    if res['err'] == 0:
        # seeds after the call: use_df arrays (as they are now) or the generated ones (model: the values it used)
        if res['use_df'] is not None:
            seeds = '[' + '; '.join(oq(v) for v in res['use_df']) + ']'
        else:
            seeds = None
    else:
        seeds = '[]'
    if seeds is None:
        expr = (f'(let x := {call} in check x {res["err"]} {reps} {sts} {ses} '
                f'(match x with inr y => map oval_q (f_seeds y) | inl _ => [] end))')
    else:
        expr = f'(check ({call}) {res["err"]} {reps} {sts} {ses} {seeds})'
    return expr, call, res, sc


# ----------------------------------------------------------------------------- random scenarios
def dy(rng, lo=-12, hi=12, den=4):
    return rng.randint(lo, hi) / den


PYTH = [(3, 4), (4, 3), (-3, 4), (3, -4), (0, 2), (2, 0), (0, -1), (-5, 0), (6, 8), (-4, -3), (5, 12), (0, 0)]


def rand_entry(rng, cx, relative):
    if not cx:
        v = dy(rng)
        return [0.0 if rng.random() < 0.15 else v, 0.0]
    if rng.random() < 0.12:
        return [0.0, 0.0]
    if relative:
        a, b = rng.choice(PYTH)
        s = rng.choice((1, 0.5, 0.25))
        return [a * s, b * s]
    return [dy(rng), dy(rng)]


def rand_value(rng, kind, shape, cx, relative, order='C'):
    n = int(np.prod(shape)) if kind == 'arr' else 1
    data = [rand_entry(rng, cx, relative) for _ in range(n)]
    if kind == 'pyint':
        data = [[float(rng.randint(-3, 3)), 0.0]]
        cx = False
    return dict(kind=kind, shape=list(shape), data=data, cx=cx, order=order)


def rand_mat(rng, rows, cols, cx, density=0.7):
    M = [[0] * cols for _ in range(rows)]
    for a in range(rows):
        for b in range(cols):
            if rng.random() < density:
                M[a][b] = [rng.randint(-3, 3), rng.randint(-2, 2) if cx else 0]
            else:
                M[a][b] = [0, 0]
    return M


def cm(M):
    """[[ [re,im] ]] -> nested complex lists"""
    return [[complex(a, b) for a, b in row] for row in M]


def is_sparse_kind(k):
    return isinstance(k, (list, tuple)) and len(k) == 2 and k[0] == 'sparse'


def out_kind(data, o):
    """(kind, number of entries) of the output signal with root id o; kind: 'scal' | shape tuple"""
    for m in data['mods']:
        if o in m['outs']:
            j = m['outs'].index(o)
            k = m['spec']['okind'][j]
            n = len(m['spec']['c'][j])
            if k == 'scal':
                return 'scal', n
            if is_sparse_kind(k):
                return tuple(k[1]), n
            return tuple(k), n
    return None, 0


def subnetwork(mods, fromsig, tosig):
    """(i_first, i_last) as the routine selects them (None when not found)"""
    i_first, i_last = None, None
    fr = {x['root'] for x in fromsig}
    for i, m in enumerate(mods):
        if i_first is None and fr & {x['root'] for x in m['ins']}:
            i_first = i
        if set(tosig) & set(m['outs']):
            i_last = i
    return i_first, i_last


def sensible_request(mods, roots, fromsig, tosig, sources_only):
    """the request the routine is written for: a non-empty sub-network whose inputs of interest are not produced
    inside it and exist when it runs. Outputs of interest may be produced inside the sub-network or upstream of it."""
    i_first, i_last = subnetwork(mods, fromsig, tosig)
    if i_first is None or i_last is None or i_last < i_first:
        return False
    inside = {o for m in mods[i_first:i_last + 1] for o in m['outs']}
    before = {o for m in mods[:i_first] for o in m['outs']}
    for x in fromsig:
        r = x['root']
        if r in inside:
            return False
        if roots[r]['value'] is None and r not in before:
            return False
        if sources_only and roots[r]['value'] is None:
            return False
    return True


def upstream_outputs(mods, fromsig, tosig):
    """outputs of interest that are produced before the selected sub-network"""
    i_first, i_last = subnetwork(mods, fromsig, tosig)
    if i_first is None or i_last is None:
        return []
    before = {o for m in mods[:i_first] for o in m['outs']}
    return [o for o in tosig if o in before]


def gen_scenario(ctx, rng):
    cxfam = rng.random() < 0.35
    relative = rng.random() < 0.3
    network = rng.random() < 0.55
    roots, mods = [], []

    def new_root(value=None, sens=None, keep=True):
        roots.append(dict(value=value, sens=sens, keep=keep))
        return len(roots) - 1

    def new_input():
        t = rng.random()
        if t < 0.12:
            kind, shape = rng.choice(('pyfloat', 'pyint', 'npscal')), ()
        elif t < 0.2:
            kind, shape = 'arr', ()
        elif t < 0.65:
            kind, shape = 'arr', (rng.randint(1, 4),)
        else:
            kind, shape = 'arr', (rng.randint(1, 3), rng.randint(1, 3))
        cx = cxfam and (kind == 'arr' or rng.random() < 0.5) and kind != 'pyint'
        if cxfam and kind == 'arr' and rng.random() < 0.1:
            cx = False     # real array in a complex network (never sliced, never kept)
        order = 'F' if (kind == 'arr' and len(shape) == 2 and rng.random() < 0.25) else 'C'
        v = rand_value(rng, kind, shape, cx, relative, order)
        sens, keep = None, True
        if kind == 'arr' and rng.random() < 0.18 and (v['cx'] or not cxfam):
            sens = rand_value(rng, 'arr', shape, v['cx'], False)      # left-over sensitivity
            keep = rng.random() < 0.6                                   # ... in an allocation that is kept, or not
            ctx.count('input:left-over-sensitivity' + ('-kept-allocation' if keep else ''))
        ctx.count('input:' + kind + ('-complex' if v['cx'] else '') + (f'-{len(shape)}d' if kind == 'arr' else ''))
        return new_root(v, sens, keep), v

    def size_of(ref):
        v = roots[ref['root']]['value']
        if v is None:
            return out_kind(dict(mods=mods), ref['root'])[1]
        if ref.get('index') is None:
            return int(np.prod(v['shape'])) if v['kind'] == 'arr' else 1
        A = np.arange(int(np.prod(v['shape']))).reshape(v['shape'])[dec_index(ref['index'])]
        return int(np.asarray(A).size)

    def maybe_slice(root, v):
        if v['kind'] != 'arr' or len(v['shape']) == 0 or rng.random() < 0.6 or (cxfam and not v['cx']):
            return dict(root=root, index=None)
        n0 = v['shape'][0]
        t = rng.random()
        if t < 0.45:
            a = rng.randint(0, n0 - 1)
            b = rng.randint(a + 1, n0)
            idx = {'slice': [a, b, rng.choice((None, 1, 2))]}
            ctx.count('slice:basic')
        elif t < 0.6:
            idx = {'slice': [None, None, -1]}
            ctx.count('slice:reversed')
        elif t < 0.9 or len(v['shape']) < 2:
            perm = list(range(n0))
            rng.shuffle(perm)
            idx = {'intarray': perm[:rng.randint(1, n0)]}
            ctx.count('slice:intarray')
        else:
            idx = {'tuple': [{'slice': [None, None, None]}, {'int': rng.randrange(v['shape'][1])}]}
            ctx.count('slice:tuple')
        return dict(root=root, index=idx)

    def new_module(in_refs, nouts):
        sizes = [size_of(r) for r in in_refs]
        nquad = sum(1 for m in mods if m['quad'])
        quad = rng.random() < 0.4 and nquad < 2
        wrong = rng.random() < 0.3
        spec = dict(c=[], A=[], Q=[], B=[], Qb=[], okind=[], cx=cxfam)
        outs = []
        for j in range(nouts):
            t = rng.random()
            if t < 0.15:
                ok, m = 'scal', 1
            elif t < 0.3:
                shp = (rng.randint(1, 2), rng.randint(1, 3))
                ok, m = ['sparse', list(shp)], shp[0] * shp[1]
                ctx.count('output:sparse')
            elif t < 0.4:
                ok, m = [], 1
            elif t < 0.8:
                m = rng.randint(1, 3)
                ok = [m]
            else:
                shp = (rng.randint(1, 2), rng.randint(1, 2))
                ok, m = list(shp), shp[0] * shp[1]
            spec['okind'].append(ok)
            spec['c'].append([[rng.randint(-2, 2), rng.randint(-1, 1) if cxfam else 0] for _ in range(m)])
            spec['A'].append([rand_mat(rng, m, n, cxfam) for n in sizes])
            spec['Q'].append([rand_mat(rng, m, n, cxfam, 0.4 if quad else 0.0) for n in sizes])
            sens = None
            if rng.random() < 0.18:
                # the output Signal is constructed with a sensitivity: it keeps that allocation (zeros, or a stale value)
                if ok == 'scal':
                    skind, sshape = rng.choice(('npscal', 'pyfloat')), ()
                elif is_sparse_kind(ok):
                    skind, sshape = 'arr', tuple(ok[1])
                else:
                    skind, sshape = 'arr', tuple(ok)
                stale = rng.random() < 0.4
                sens = dict(kind=skind, shape=list(sshape), cx=cxfam, order='C',
                            data=[[dy(rng) if stale else 0.0, (dy(rng) if (stale and cxfam) else 0.0)] for _ in range(m)])
                ctx.count('output:kept-allocation' + ('-stale' if stale else '-zeros'))
            outs.append(new_root(None, sens))
        spec['B'] = copy.deepcopy(spec['A'])
        spec['Qb'] = copy.deepcopy(spec['Q'])
        spec['pysens'] = rng.random() < 0.4       # sensitivities of scalar inputs as Python float / complex
        if spec['pysens'] and any(roots[r['root']]['value'] is not None and roots[r['root']]['value']['kind'] != 'arr'
                                  for r in in_refs):
            ctx.count('sensitivity:python-scalar')
        if wrong:
            j = rng.randrange(nouts)
            i = rng.randrange(len(sizes))
            tgt = spec['Qb'] if (quad and rng.random() < 0.4) else spec['B']
            a, b = rng.randrange(len(tgt[j][i])), rng.randrange(sizes[i])
            tgt[j][i][a][b] = [tgt[j][i][a][b][0] + rng.choice((-2, -1, 1, 2)), tgt[j][i][a][b][1]]
            ctx.count('adjoint:wrong')
        else:
            ctx.count('adjoint:correct')
        ctx.count('module:quadratic' if quad else 'module:linear')
        mods.append(dict(ins=in_refs, outs=outs, spec=spec, quad=quad, wrong=wrong))
        return outs

    # sources and first module
    srcs = [new_input() for _ in range(rng.randint(1, 2))]
    in_refs = []
    for root, v in srcs:
        in_refs.append(maybe_slice(root, v))
        if v['kind'] == 'arr' and len(v['shape']) >= 1 and v['shape'][0] >= 2 and rng.random() < 0.2 and (v['cx'] or not cxfam):
            in_refs.append(maybe_slice(root, v))       # a second (possibly overlapping) reference to the same base
    prev = new_module(in_refs, rng.randint(1, 2))
    fromsig, tosig = None, None
    if network:
        for _ in range(rng.randint(0, 2)):
            ins = [dict(root=o, index=None) for o in prev]
            if rng.random() < 0.4:
                ins.append(dict(root=srcs[0][0], index=None))
            prev = new_module(ins, rng.randint(1, 2))
        def is_sparse_sig(ref):
            for m in mods:
                if ref['root'] in m['outs']:
                    return is_sparse_kind(m['spec']['okind'][m['outs'].index(ref['root'])])
            return False
        cands_in = [m_in for m in mods for m_in in m['ins'] if not is_sparse_sig(m_in)]
        all_outs = [o for m in mods for o in m['outs']]
        directed = None
        if len(mods) >= 2 and rng.random() < 0.3:
            # directed: an output of interest produced upstream of the selected sub-network
            i1 = rng.randrange(1, len(mods))
            fr = [x for x in mods[i1]['ins'] if not is_sparse_sig(x) and not any(x['root'] in m['outs'] for m in mods[i1:])]
            ups = [o for m in mods[:i1] for o in m['outs']]
            ins_ = [o for m in mods[i1:] for o in m['outs']]
            if fr and ups and ins_:
                directed = ([rng.choice(fr)], [rng.choice(ups), rng.choice(ins_)])
                if rng.random() < 0.5:
                    directed[1].reverse()
        for attempt in range(50):
            if attempt == 0 and directed is not None:
                fromsig, tosig = directed
                if sensible_request(mods, roots, fromsig, tosig, relative and cxfam):
                    break
            fromsig = [rng.choice(cands_in)]
            if rng.random() < 0.3:
                extra = rng.choice(cands_in)
                if extra != fromsig[0]:
                    fromsig.append(extra)
            tosig = [rng.choice(all_outs)]
            if rng.random() < 0.3:
                o2 = rng.choice(all_outs)
                if o2 not in tosig:
                    tosig.append(o2)
            if sensible_request(mods, roots, fromsig, tosig, relative and cxfam):
                break
            ctx.count('skipped:request-outside-subnetwork-contract')
        else:
            fromsig = [mods[0]['ins'][0]]
            tosig = [mods[-1]['outs'][0]]
        if upstream_outputs(mods, fromsig, tosig):
            ctx.count('tosig:produced-upstream-of-subnetwork')
        if rng.random() < 0.04:
            lone = new_root(rand_value(rng, 'arr', (2,), cxfam, relative), None)      # used / produced by no module
            if rng.random() < 0.5:
                fromsig = [dict(root=lone, index=None)]
            else:
                tosig = [lone]
            ctx.count('malformed:unused-signal')
    else:
        if rng.random() < 0.3:
            fromsig = [rng.choice(mods[0]['ins'])]
        if rng.random() < 0.3:
            tosig = [rng.choice(mods[0]['outs'])]
    nq = sum(1 for m in mods if m['quad'])
    k = rng.randint(1, 6) if nq <= 1 else rng.randint(1, 3)
    fd = dict(network=network, fromsig=fromsig, tosig=tosig, k=k, relative=relative, random=rng.random() < 0.6,
              use_df=None, keep_zero=rng.random() < 0.7, verbose=rng.random() < 0.2)
    data = dict(roots=roots, mods=[dict(ins=m['ins'], outs=m['outs'], spec=m['spec']) for m in mods], fd=fd,
                meta=dict(wrong=[m['wrong'] for m in mods], quad=[m['quad'] for m in mods], cx=cxfam))
    if rng.random() < 0.3:
        outs_ref = tosig if tosig is not None else mods[0]['outs']
        use = []
        for o in outs_ref:
            ok, n = out_kind(data, o)
            if ok is None:
                use = None
                break
            vals = [[rng.randint(-8, 8) / 8.0, (rng.randint(-8, 8) / 8.0) if cxfam else 0.0] for _ in range(n)]
            if ok == 'scal':
                use.append(dict(kind='npscal', shape=[], data=vals, cx=cxfam))
            else:
                use.append(dict(kind='arr', shape=list(ok), data=vals, cx=cxfam))
        fd['use_df'] = use
    return data


# ----------------------------------------------------------------------------- how modules hand out their values
def out_modes_for(kind, mrng):
    """(omode, sfmt) drawn for an output of the given kind"""
    if kind == 'scal':
        return mrng.choice((None, 'pyscal')), None
    if is_sparse_kind(kind):
        fmt = mrng.choice(sorted(SPARSE_FMTS))
        mode = mrng.choice(('fresh', 'inplace', 'inplace', 'swapdata')) if fmt in INPLACE_FMTS else 'fresh'
        return mode, fmt
    return mrng.choice(('fresh', 'inplace', 'view', 'view_strided')), None


def assign_modes(ctx, data, mrng):
    """random stream: about 60% of the modules keep / share their output and sensitivity objects between calls.
    Uses its own generator so that the scenarios themselves are the ones drawn before this was added."""
    for m in data['mods']:
        s = m['spec']
        if mrng.random() < 0.4:
            ctx.count('module:fresh-objects')
            continue
        pairs = [out_modes_for(k, mrng) for k in s['okind']]
        s['omode'] = [a for a, _ in pairs]
        s['sfmt'] = [b for _, b in pairs]
        s['smode'] = mrng.choice(('fresh', 'buffer', 'view'))
        for k, (a, b) in zip(s['okind'], pairs):
            ctx.count('omode:%s%s' % (a or 'npscal', (':' + b) if b else ''))
        ctx.count('smode:' + s['smode'])


STRESS_VARIANTS = (
    # name, okind, omode, sfmt, alias-how (None: computed output), input shape used for alias variants
    [('scal-numpy', 'scal', None, None, None), ('scal-python', 'scal', 'pyscal', None, None),
     ('0d-fresh', [], 'fresh', None, None), ('0d-inplace', [], 'inplace', None, None), ('0d-view', [], 'view', None, None),
     ('1d-fresh', [3], 'fresh', None, None), ('1d-inplace', [3], 'inplace', None, None), ('1d-view', [2], 'view', None, None),
     ('1d-view-strided', [3], 'view_strided', None, None),
     ('2d-fresh', [2, 2], 'fresh', None, None), ('2d-inplace', [2, 3], 'inplace', None, None),
     ('2d-view', [1, 2], 'view', None, None), ('2d-view-transposed', [2, 3], 'view_strided', None, None)] +
    [('sparse-fresh-' + f, ['sparse', [2, 2] if i % 2 else [1, 3]], 'fresh', f, None) for i, f in enumerate(sorted(SPARSE_FMTS))] +
    [('sparse-inplace-' + f, ['sparse', [2, 2] if i % 2 else [2, 1]], 'inplace', f, None) for i, f in enumerate(INPLACE_FMTS)] +
    [('sparse-swapdata-' + f, ['sparse', [1, 2]], 'swapdata', f, None) for f in ('csr_matrix', 'csc_array', 'coo_matrix')] +
    [('alias-same-1d', None, None, None, 'same', (3,)), ('alias-same-2d', None, None, None, 'same', (2, 2)),
     ('alias-same-0d', None, None, None, 'same', ()), ('alias-reversed-1d', None, None, None, 'rev', (3,)),
     ('alias-transposed-2d', None, None, None, 'T', (2, 3)), ('alias-ravel-2d', None, None, None, 'ravel', (2, 2))])


def stress_scenarios():
    """deterministic (the same on every seed): every way of handing out an output x real/complex x three requests
    (the module alone; a network with the output of interest in the middle; a network whose input of interest is that
    kept / shared object), companions, flags, seed layouts and sensitivity hand-out modes cycling"""
    import random as _random
    out = []
    in_shapes = [((3,), 'C'), ((2, 2), 'F'), ((), 'C'), ((2,), 'rev'), ((3,), 'strided'), ((2, 2), 'C'), ((1, 3), 'strided')]
    smodes = ('buffer', 'view', 'fresh')
    comp = [v for v in STRESS_VARIANTS if v[4] is None]
    q = 0
    for vi, var in enumerate(STRESS_VARIANTS):
        for cx in (False, True):
            for version in (0, 1, 2):
                q += 1
                R = _random.Random(190000 + q)
                relative = (q % 3 == 0) and not (cx and version == 2)     # |x0| of a computed complex entry is not dyadic
                name, okind, omode, sfmt, how = var[:5]
                shape, order = (var[5], ('C', 'F', 'strided')[q % 3] if len(var[5]) else 'C') if how else in_shapes[q % len(in_shapes)]
                if how == 'ravel' and order != 'C':
                    order = 'C'
                roots = [dict(value=rand_value(R, 'arr', shape, cx, relative, order), sens=None, keep=True)]
                n = int(np.prod(shape)) if len(shape) else 1
                cvar = comp[(vi + 3 * version + (7 if cx else 0)) % len(comp)]
                descs = []
                for (nm, ok, om, sf, hw) in ((name, okind, omode, sfmt, how), cvar[:5]):
                    if hw:
                        P, oshape = alias_matrix(shape, hw)
                        descs.append(dict(okind=oshape, omode=None, sfmt=None, alias=dict([('in', 0), ('how', hw)]), m=n, P=P))
                    else:
                        m = 1 if ok in ('scal', []) else int(np.prod(ok[1] if is_sparse_kind(ok) else ok))
                        descs.append(dict(okind=ok, omode=om, sfmt=sf, alias=None, m=m, P=None))
                if q % 2:
                    descs.reverse()

                def mk_module(ins, sizes, descs, quad, wrong, smode):
                    spec = dict(c=[], A=[], Q=[], B=[], Qb=[], okind=[], cx=cx, omode=[], sfmt=[], alias=[], smode=smode,
                                pysens=False)
                    outs = []
                    for d in descs:
                        spec['okind'].append(d['okind'])
                        spec['omode'].append(d['omode'])
                        spec['sfmt'].append(d['sfmt'])
                        spec['alias'].append(d['alias'])
                        if d['P'] is not None:
                            spec['c'].append([[0, 0] for _ in range(d['m'])])
                            spec['A'].append([copy.deepcopy(d['P'])])
                            spec['Q'].append([rand_mat(R, d['m'], sizes[0], cx, 0.0)])
                        else:
                            spec['c'].append([[R.randint(-2, 2), R.randint(-1, 1) if cx else 0] for _ in range(d['m'])])
                            spec['A'].append([rand_mat(R, d['m'], sz, cx, 0.8) for sz in sizes])
                            spec['Q'].append([rand_mat(R, d['m'], sz, cx, 0.5 if quad else 0.0) for sz in sizes])
                        sens = None
                        if (q + len(outs)) % 4 == 0 and d['okind'] != 'scal':
                            kshape = d['okind'][1] if is_sparse_kind(d['okind']) else d['okind']
                            sens = dict(kind='arr', shape=list(kshape), cx=cx, order='C', data=[[0.0, 0.0]] * d['m'])   # kept allocation
                        roots.append(dict(value=None, sens=sens, keep=True))
                        outs.append(len(roots) - 1)
                    spec['B'] = copy.deepcopy(spec['A'])
                    spec['Qb'] = copy.deepcopy(spec['Q'])
                    if wrong:
                        j = R.randrange(len(descs))
                        a, b = R.randrange(descs[j]['m']), R.randrange(sizes[0])
                        spec['B'][j][0][a][b] = [spec['B'][j][0][a][b][0] + R.choice((-2, -1, 1, 2)), spec['B'][j][0][a][b][1]]
                    return dict(ins=ins, outs=outs, spec=spec, quad=quad, wrong=wrong)
                wrong1 = (q % 5 == 0)
                smode = 'seedview' if (how and q % 2) else smodes[q % 3]
                mods = [mk_module([dict(root=0, index=None)], [n], descs, True, wrong1, smode)]
                o_var = mods[0]['outs'][1 if q % 2 else 0]          # the output handed out in the way under test
                fromsig, tosig, network = None, None, False
                if version >= 1:
                    network = True
                    sizes2 = [d['m'] for d in descs]
                    d2 = [dict(okind=[2], omode=('inplace' if q % 2 else 'fresh'), sfmt=None, alias=None, m=2, P=None)]
                    if version == 1:
                        d2.append(dict(okind='scal', omode=('pyscal' if q % 4 < 2 else None), sfmt=None, alias=None, m=1, P=None))
                    mods.append(mk_module([dict(root=o, index=None) for o in mods[0]['outs']], sizes2, d2, not wrong1,
                                          (q % 7 == 0) and not wrong1, smodes[(q + 1) % 3]))
                    if version == 1:
                        fromsig = [dict(root=0, index=None)]
                        tosig = [mods[1]['outs'][0], o_var] if q % 2 else [o_var, mods[1]['outs'][-1]]
                    else:
                        # input of interest: the object the first module keeps / shares (never a sparse one)
                        cand = [o for o, d in zip(mods[0]['outs'], descs) if not is_sparse_kind(d['okind'])]
                        if not cand:
                            continue
                        f = o_var if o_var in cand else cand[0]
                        fromsig = [dict(root=f, index=None)]
                        tosig = [mods[1]['outs'][0]]
                nq = sum(1 for m in mods if m['quad'])
                fd = dict(network=network, fromsig=fromsig, tosig=tosig, k=1 + q % (4 if nq <= 1 else 3), relative=relative,
                          random=(q % 4 != 1), use_df=None, keep_zero=(q % 5 != 2), verbose=(q % 11 == 0))
                data = dict(roots=roots, mods=[dict(ins=m['ins'], outs=m['outs'], spec=m['spec']) for m in mods], fd=fd,
                            meta=dict(wrong=[m['wrong'] for m in mods], quad=[m['quad'] for m in mods], cx=cx,
                                      stress='%s/%s/v%d' % (name, 'complex' if cx else 'real', version)))
                if q % 3 != 1:
                    use = []
                    for io, o in enumerate(tosig if tosig is not None else mods[0]['outs']):
                        ok, cnt = out_kind(data, o)
                        vals = [[R.randint(-8, 8) / 8.0, (R.randint(-8, 8) / 8.0) if cx else 0.0] for _ in range(cnt)]
                        if ok == 'scal':
                            use.append(dict(kind=('npscal', 'pyfloat')[(q + io) % 2], shape=[], data=vals, cx=cx))
                        else:
                            use.append(dict(kind='arr', shape=list(ok), data=vals, cx=cx, order=('C', 'F', 'strided', 'rev')[(q + io) % 4]))
                    fd['use_df'] = use
                out.append(data)
    return out


def normalise(data):
    """json data -> python-usable (coefficient entries [re, im] -> complex)"""
    d = copy.deepcopy(data)
    for m in d['mods']:
        s = m['spec']
        s['c'] = [[complex(a, b) for a, b in cj] for cj in s['c']]
        for key in ('A', 'Q', 'B', 'Qb'):
            s[key] = [[cm(M) for M in row] for row in s[key]]
        s['okind'] = ['scal' if k == 'scal' else (('sparse', tuple(k[1])) if is_sparse_kind(k) else tuple(k))
                      for k in s['okind']]
    return d


# ----------------------------------------------------------------------------- main
# witnesses of the defects that were found by this check and repaired in /repo (known_findings.json, status "fixed"):
# corpus file -> (call_site, predicate, input_class) of the registered finding; a regression is reported under that triple
FIXED_WITNESSES = {
    'F24_seed_zeroed_kept_output.json':
        ('finite_difference', 'seed array not modified; numerical value uses the seed',
         'output signal constructed with a sensitivity (kept allocation)'),
    'F25_imag_python_complex.json':
        ('finite_difference', 'imaginary pass reads a scalar sensitivity',
         'complex scalar input whose module returns a Python complex sensitivity'),
    'F26_upstream_output_keeps_seed.json':
        ('finite_difference', 'no sensitivity is left set after the call',
         'output of interest produced before the selected sub-network'),
    'F27_stale_input_sensitivity_outside_slice.json':
        ('finite_difference', 'analytical value is the backpropagated sensitivity of the seed',
         'stale sensitivity on entries of an input of interest that the modules use only through a slice'),
}


def run(ctx):
    import pymoto as pym
    pym.core_objects.get_init_str = lambda: 'File "verif", line 0, in harness'   # diagnostics only (slow inspect.stack)
    Poly = make_poly_class(pym)
    ctx.rule = ('networks of 1..3 user-defined polynomial modules (integer / Gaussian-integer matrices, linear and quadratic, '
                '~30% with a deliberately wrong adjoint, ~40% returning Python float/complex sensitivities for scalar inputs), '
                'inputs: python float/int/complex, numpy scalars, 0-D..2-D float and complex arrays (C and Fortran order), '
                'basic / reversed / integer-array slices, left-over sensitivities (with and without kept allocation); outputs: scalars, arrays, sparse '
                'matrices, ~18% constructed with a kept sensitivity allocation (zeros or stale values); all flag combinations '
                '(relative_dx, random, use_df, keep_zero_structure, verbose), fromsig/tosig choices incl. intermediate signals, '
                'outputs of interest produced upstream of the selected sub-network, and unused signals; '
                'dx = 2^-k (k<=6) and dyadic data: exact comparison of every tuple, every state/sensitivity and the seeds. '
                'HOW modules hand out values is varied independently of WHAT they compute (the Coq model never sees it): '
                'about 60% of the random modules and a deterministic block of ~210 scenarios (the same on every seed: every '
                'mode x real/complex x {module alone, output of interest inside a network, kept/shared object as the input '
                'of interest}) use outputs that are ONE object refreshed in place (dense, 0-d, sparse via .data[:] or a '
                'replaced .data), views of one internal buffer (contiguous / strided / transposed), the input array itself '
                'or a view of it (same, reversed, transposed, ravel), Python instead of numpy scalars, sparse outputs as '
                'csr/csc/coo (matrix and array), lil, dok, dia, bsr; sensitivities handed out as kept buffers, views of one '
                'buffer or the seed itself; use_df seeds and input states also as Fortran, reversed and every-second-entry '
                'views of caller-owned buffers; every case is run twice on the same objects (history). '
                'A case is non-trivial when at least one tuple is reported; distinct by scenario data')
    ctx.assumptions += [
        'np.random.rand is replaced from outside by known dyadic numbers (the routine draws its seed from it)',
        'np.nditer visiting order is taken from numpy (oracle); float arithmetic is exact on the generated data',
        'module states are float / complex (np.nditer cannot write a float perturbation into an integer array)',
        'value-level signal model (no object identity): the routine installs a deep copy of the seed and keeps only copies; '
        'that no array is shared is observed on the implementation (use_df arrays compared before/after, seeds compared '
        'in the correspondence), not proved',
        'kept sensitivity allocations have the dtype of the network (a real allocation receiving complex terms is a '
        'caller error raised by numpy)',
        'generated requests stay inside the routine\'s contract: the selected sub-network is non-empty (at least one tosig '
        'is produced at or after the first module using a fromsig), no fromsig is produced inside it and every fromsig '
        'has a state when it runs (other requests are counted as skipped:request-outside-subnetwork-contract); '
        'a tosig produced upstream of the sub-network is inside the contract and generated',
        'one-level slices as module inputs (nested slices are covered for Signals by C18)',
        'object identity (modules that keep, share or alias the objects they hand out) is outside Model/FD.v: the model\'s '
        'tuples are those of a module that builds a fresh object per call, and the correspondence and the oracle demand '
        'exactly these from the implementation for every hand-out mode (observed, not proved). Two consequences of aliasing '
        'that are not the routine\'s business are excluded: the state left on an output that IS a view of an input (it '
        'follows the restored input; compared with the unperturbed response instead of the last perturbed one), and the '
        'order of tuples for an input of interest that is a non-C-contiguous kept view (np.nditer order, oracle input)',
        'DyadCarrier outputs are outside the routine\'s domain (TypeError on `/`; the property text lists real, complex, '
        'scalar, array and sparse-matrix signals)']
    ctx.trusted += ['Print Assumptions: theorems over Qc are closed under the global context',
                    'the user-defined module family Poly in tools/checks/C19.py mirrors Model/FD.v poly_f / poly_vjp '
                    '(both directions are exercised by the correspondence)']
    vlib.audit(ctx)
    if not vlib.ensure_static(ctx):
        return
    vlib.check_props(ctx)
    rng = ctx.rng
    cases, labels, datas = [], [], []
    for f in sorted(glob.glob(os.path.join(vlib.ROOT, 'corpus', 'C19', '*.json'))):
        datas.append((json.load(open(f)), ('corpus', os.path.basename(f))))
        ctx.count('corpus')
    if getattr(ctx, 'replay', None):
        rp = ctx.replay if os.path.isabs(ctx.replay) else os.path.join(vlib.ROOT, ctx.replay)
        d = json.load(open(rp))
        d = d.get('case', d)
        if isinstance(d, dict) and 'scenario' in d or (isinstance(d, dict) and 'roots' in d):
            datas.append((d.get('scenario', d), ('replay', ctx.replay)))
    try:
        regression_probes(ctx, pym, Poly, datas)
    except Exception:
        import traceback
        ctx.violation('impl-violates', 'finite_difference', 'the routine completes on well-formed networks', 'exception',
                      dict(where='witnesses of fixed findings', error=traceback.format_exc()[-1500:]))
    for data in stress_scenarios():
        datas.append((data, ('stress', data['meta']['stress'])))
        ctx.count('stress:' + data['meta']['stress'].split('/')[0])
    n = int(os.environ.get('C19_N', 1200 if ctx.quick() else 8000))
    import random as _random
    mrng = _random.Random(ctx.seed * 7919 + 19)
    for t in range(n):
        data = gen_scenario(ctx, rng)
        assign_modes(ctx, data, mrng)
        datas.append((data, ('random', t)))
    checks, calls, results = [], [], []
    srng = _random.Random(19)         # seeds handed to the deterministic block: the same on every run
    for data, lab in datas:
        nd = normalise(data)
        try:
            expr, call, res, sc = coq_case(pym, Poly, nd, srng if lab[0] == 'stress' else rng)
        except Exception as e:
            import traceback
            ctx.violation('impl-violates', 'finite_difference', 'the routine completes on well-formed networks', 'exception',
                          dict(label=lab, scenario=data, error=traceback.format_exc()[-1500:]))
            continue
        checks.append(expr)
        calls.append(call)
        labels.append(lab)
        results.append((data, res))
        ctx.count('tuples', len(res['tuples']))
        ctx.count('err:%d' % res['err'])
        fdc = data['fd']
        ctx.count('flags:rel=%d,random=%d,usedf=%d,keepzero=%d,net=%d' % (fdc['relative'], fdc['random'],
                                                                       fdc.get('use_df') is not None, fdc['keep_zero'], fdc['network']))
        ctx.case(json.dumps(data, sort_keys=True, default=str), len(res['tuples']) > 0,
                 sample=dict(label=lab, ntuples=len(res['tuples']), first=str(res['tuples'][:2])))
    failing, err = vlib.run_cases(ctx, 'fd', HEADER, checks, chunk=25, timeout=1500)
    ctx.obligation('correspondence:case files evaluated', 'correspondence', not err, err)
    if err:
        ctx.violation('correspondence', 'finite_difference', 'case files compile', 'harness', dict(error=err[-3000:]),
                      theorem='cases_fd')
    for idx in failing[:10]:
        data, res = results[idx]
        vals, e2 = vlib.eval_coq(ctx, f'bad{idx}', HEADER, [f'show ({calls[idx]})'])
        ctx.violation('correspondence', 'finite_difference', 'model == implementation (tuples, states, sensitivities, seeds)',
                      'network' if data['fd']['network'] else 'module',
                      dict(label=labels[idx], scenario=data),
                      expected=dict(model=(vals[0][:3000] if vals else e2[-1500:])),
                      got=dict(err=res['err'], tuples=str(res['tuples'])[:2500]),
                      note='Coq model and implementation differ')
    # the oracle always looks at the corpus and at every case the correspondence rejected
    first = [i for i, lab in enumerate(labels) if lab[0] != 'random']
    order = first + [i for i in failing if i not in first] + [i for i in range(len(results)) if i not in set(first) | set(failing)]
    lim = min(len(order), int(os.environ.get('C19_ORACLE_N', len(order))))      # every case, in both tiers
    oracle(ctx, pym, Poly, [results[i] for i in order[:lim]])


def regression_probes(ctx, pym, Poly, datas):
    """the witnesses of the fixed findings F24, F25, F26, F27, each checked for exactly the predicate under which it was
    registered; a violation here means the defect is back (entries with status "fixed" suppress nothing)"""
    byname = {lab[1]: data for data, lab in datas if lab[0] == 'corpus'}
    for name, (cs, pr, ic) in FIXED_WITNESSES.items():
        data = byname.get(name)
        ctx.obligation(f'corpus:witness {name} present', 'harness', data is not None, '' if data is not None else 'missing corpus file')
        if data is None:
            continue
        ctx.search_evaluations += 1
        nd = normalise(data)
        sc = Scenario(pym, Poly, nd)
        case = dict(label=('corpus', name), scenario=data)
        try:
            res = run_fd(pym, sc, nd['fd'], __import__('random').Random(1))
        except TypeError as e:
            ctx.violation('impl-violates', cs if name.startswith('F25') else 'finite_difference',
                          pr if name.startswith('F25') else 'the routine completes on well-formed networks',
                          ic if name.startswith('F25') else 'exception', case, expected='no exception', got=repr(e)[:500])
            continue
        if name.startswith('F24'):
            orig = [build_value(v) for v in nd['fd']['use_df']]
            same = all(np.array_equal(np.asarray(a), np.asarray(b)) for a, b in zip(orig, res['use_df']))
            fds = [t[3] for t in res['tuples']]
            if not same or not fds or any(t[2] != t[3] for t in res['tuples']) or all(v == 0 for v in fds):
                ctx.violation('impl-violates', cs, pr, ic, case, expected=dict(use_df=str(orig), pairs='matching, non-zero'),
                              got=dict(use_df=str(res['use_df']), tuples=str(res['tuples'])))
        elif name.startswith('F26'):
            left = {i: str(r.sensitivity) for i, r in enumerate(sc.roots) if r.sensitivity is not None}
            if left:
                ctx.violation('impl-violates', cs, pr, ic, case, expected='every sensitivity None', got=left)
        elif name.startswith('F27'):
            left = {i: str(r.sensitivity) for i, r in enumerate(sc.roots) if r.sensitivity is not None and np.any(flat(r.sensitivity) != 0)}
            got = [(t[2], t[3]) for t in res['tuples']]
            if got != [(2.0, 2.0), (2.0, 2.0), (0.0, 0.0)] or left:
                ctx.violation('impl-violates', cs, pr, ic, case, expected='pairs (2,2), (2,2), (0,0); no sensitivity left',
                              got=dict(pairs=str(got), left=left))
        elif name.startswith('F25'):
            if len(res['tuples']) != 2:
                ctx.violation('impl-violates', cs, pr, ic, case, expected='a real and an imaginary tuple', got=str(res['tuples']))


# ----------------------------------------------------------------------------- implementation-side property oracle
def cq(z):
    """complex float -> (re, im) exact rationals"""
    z = complex(z)
    return F(z.real), F(z.imag)


def entry_list(v):
    """flattened logical (C-order) entries of a value; a scalar is one entry"""
    if sp.issparse(v):
        v = v.toarray()
    if isinstance(v, np.ndarray):
        return [v.flat[i] for i in range(v.size)]
    return [v]


def executed(nd, fd):
    """(i_first, i_last) of the modules the routine executes repeatedly"""
    if not fd['network']:
        return 0, 0
    inps_ref = fd['fromsig'] if fd['fromsig'] is not None else nd['mods'][0]['ins']
    outs_ref = fd['tosig'] if fd['tosig'] is not None else nd['mods'][0]['outs']
    return subnetwork(nd['mods'], inps_ref, outs_ref)


def fresh_response(pym, Poly, nd, i_first, i_last, perturb=None):
    """independent evaluation: a fresh scenario; the modules before i_first run once; optionally entry k (logical
    position) of the state of reference `ref` is shifted by delta; then the modules i_first..i_last run"""
    sc = Scenario(pym, Poly, nd)
    for r in sc.roots:
        r.sensitivity = None
    for m in sc.mods[:i_first]:
        m.response()
    if perturb is not None:
        ref, k, delta = perturb
        sig = sc.ref(ref)
        x = sig.state
        if isinstance(x, np.ndarray):
            y = np.array(x, order='C', copy=True)
            y.flat[k] = y.flat[k] + delta
            sig.state = y
        else:
            sig.state = x + delta
    for m in sc.mods[i_first:i_last + 1]:
        m.response()
    return sc


def seeds_used(fd, outputs, rand_calls):
    """the seed of every output of interest, reconstructed from the arguments alone (use_df / ones / the numbers our
    np.random.rand replacement handed out, in call order)"""
    seeds, pos = [], 0
    for i, out in enumerate(outputs):
        if fd.get('use_df') is not None:
            seeds.append(build_value(fd['use_df'][i]))
            continue
        shape = out.shape if hasattr(out, 'shape') else ()
        n = int(np.prod(shape)) if shape else 1
        if fd['random']:
            re = np.array([float(v) for v in rand_calls[pos]]).reshape(shape)
            pos += 1
            if np.iscomplexobj(out):
                re = re + 1j * np.array([float(v) for v in rand_calls[pos]]).reshape(shape)
                pos += 1
            seeds.append(re)
        else:
            seeds.append(np.ones(shape) + (1j * np.ones(shape) if np.iscomplexobj(out) else 0))
    return seeds


def quotient(fp, f0, delta_re, imag, seed):
    """Re (Im) of sum(((fp - f0) / delta) * seed) in exact rationals; delta = delta_re or i*delta_re"""
    a, b, w = entry_list(fp), entry_list(f0), entry_list(seed)
    if len(w) == 1 and len(a) > 1:
        w = w * len(a)
    tr, ti = Fraction(0), Fraction(0)
    for x, y, z in zip(a, b, w):
        (xr, xi), (yr, yi), (zr, zi) = cq(x), cq(y), cq(z)
        dr, di = (xr - yr), (xi - yi)
        if imag:
            dr, di = di / delta_re, -dr / delta_re
        else:
            dr, di = dr / delta_re, di / delta_re
        tr += dr * zr - di * zi
        ti += dr * zi + di * zr
    return ti if imag else tr


def gaps_intact(a, v):
    """a caller-owned array handed in as every second entry of a larger buffer: the entries in between are untouched"""
    if not (isinstance(v, dict) and v.get('order') == 'strided' and isinstance(a, np.ndarray) and a.ndim >= 1):
        return True
    big = a.base
    return big is not None and bool(np.all(big[..., 0::2] == 77.0))


def oracle(ctx, pym, Poly, results):
    import random as _random
    for data, res0 in results:
        if res0['err'] != 0:
            continue          # RuntimeError outcomes are compared by the correspondence only
        ctx.search_evaluations += 1
        nd = normalise(data)
        fd = nd['fd']
        case = dict(scenario=data)

        def bad(pred, cls, expected=None, got=None):
            ctx.violation('impl-violates', 'finite_difference', pred, cls, case, expected=expected, got=got)
        try:
            i_first, i_last = executed(nd, fd)
            exec_mods = nd['mods'][i_first:i_last + 1]
            sc = Scenario(pym, Poly, nd)
            # every reference below comes from PLAIN modules (a fresh object per response / sensitivity, nothing kept or
            # shared) in scenarios that are evaluated once: how the modules under test hand out their values is not
            # allowed to change anything the routine reports
            nd_run, nd = nd, strip_modes(nd)
            aliased = alias_roots(nd_run)
            # the states a plain evaluation produces
            ref = fresh_response(pym, Poly, nd, i_first, i_last)
            lay = fresh_response(pym, Poly, nd_run, i_first, i_last)       # only the memory layout of its states is used
            r1 = run_fd(pym, sc, fd, _random.Random(1))
            # (a0) the caller's use_df arrays are not modified
            if fd.get('use_df') is not None:
                for a, v in zip(r1['use_df'], fd['use_df']):
                    b = build_value(v)
                    if np.shape(a) != np.shape(b) or np.asarray(a).dtype != np.asarray(b).dtype or \
                            not np.array_equal(np.asarray(a), np.asarray(b)) or not gaps_intact(a, v):
                        bad('seed array not modified; numerical value uses the seed', 'use_df', str(b), str(a))
            # (a1) every input state — every state the executed modules do not produce — is restored exactly
            inside = {o for m in exec_mods for o in m['outs']}
            after_last = {o for m in nd['mods'][i_last + 1:] for o in m['outs']} - inside
            for i in range(len(nd['roots'])):
                if i in inside or i in after_last:
                    continue
                a, b = sc.roots[i].state, ref.roots[i].state
                same = (a is None and b is None) or (a is not None and b is not None and
                                                     np.array_equal(flat(a), flat(b)) and np.shape(a) == np.shape(b))
                if not same or not gaps_intact(a, nd['roots'][i]['value']):
                    bad('every input state is restored exactly', 'restore', str(b), str(a))
            # an output that IS (a view of) an input follows the restored input: it holds the unperturbed response again
            for i in aliased & inside:
                a, b = sc.roots[i].state, ref.roots[i].state
                if isinstance(a, np.ndarray) and not (np.shape(a) == np.shape(b) and np.array_equal(flat(a), flat(b))):
                    bad('every input state is restored exactly', 'restore seen through an output sharing its memory', str(b), str(a))
            # (a2) no sensitivity is left on ANY signal: None; zeros only where an allocation is kept or on the base of
            #      a slice of an executed module; a stale value that was there before the call may only survive where
            #      the routine has no business (not a signal of the executed modules, not an output of interest)
            inps_ref, outs_ref = r1['inps_ref'], r1['outs_ref']
            # signals the routine resets as a whole: signals of the executed modules, outputs and inputs of interest
            owned = inside | {x['root'] for m in exec_mods for x in m['ins'] if x.get('index') is None} | set(outs_ref) | \
                {x['root'] for x in inps_ref if x.get('index') is None}
            slice_pos = {}
            scn = Scenario(pym, Poly, nd)
            for x in [x for m in exec_mods for x in m['ins']] + list(inps_ref):
                if x.get('index') is not None:
                    slice_pos.setdefault(x['root'], set()).update(scn.ref_info(x)[0])
            exec_slice_bases = {x['root'] for m in exec_mods for x in m['ins'] if x.get('index') is not None}
            for i, r in enumerate(sc.roots):
                s = r.sensitivity
                init = scn.roots[i].sensitivity
                zeros_ok = scn.roots[i].keep_alloc or i in exec_slice_bases
                if init is None or i in owned:
                    if s is None or (zeros_ok and not np.any(flat(s) != 0)):
                        continue
                    bad('no sensitivity is left set after the call', 'restore' if init is None else 'left-over sensitivity',
                        'None' + (' or zeros' if zeros_ok else ''), f'signal {i}: {s}')
                else:
                    # a left-over the routine has no business with (not a signal of the executed modules, not of interest):
                    # only the entries addressed by executed slices / sliced inputs of interest are zeroed
                    exp = np.array(flat(init), copy=True)
                    for pz in slice_pos.get(i, ()):
                        exp[pz] = 0
                    if s is None or not np.array_equal(flat(s), exp):
                        bad('no sensitivity is left set after the call', 'left-over sensitivity outside the routine',
                            str(exp), f'signal {i}: {s}')
            # (b) the tuples, recomputed independently: which entries, in which order, x0, dx, analytical value = entry
            #     of the backpropagated sensitivity for the seed, numerical value = seed-weighted difference quotient
            outputs = [ref.roots[o].state for o in outs_ref]
            try:
                seeds = seeds_used(fd, outputs, r1['rand'])
                drawn = sum(2 if np.iscomplexobj(o) else 1 for o in outputs) if (fd['random'] and fd.get('use_df') is None) else 0
                if len(r1['rand']) != drawn:
                    raise IndexError(f'{len(r1["rand"])} draws')
            except (IndexError, ValueError) as e:
                bad('the random seed of every output is drawn from np.random.rand (real part, and imaginary part for a '
                    'complex output), none otherwise', 'seed', None, repr(e))
                continue
            dxv = 2.0 ** (-fd['k'])
            an_sens = []
            for o, w in zip(outs_ref, seeds):
                scb = fresh_response(pym, Poly, nd, i_first, i_last)
                scb.roots[o].sensitivity = copy.deepcopy(w)
                for m in reversed(scb.mods[i_first:i_last + 1]):
                    m.sensitivity()
                an_sens.append([copy.deepcopy(scb.ref(x).sensitivity) for x in inps_ref])
            exp_t = []
            for iin, x_ref in enumerate(inps_ref):
                x = ref.ref(x_ref).state
                is_arr = isinstance(x, np.ndarray)
                # the visiting order is numpy's, for the memory layout the modules under test hand out (oracle input)
                for k in (nditer_order(lay.ref(x_ref).state) if is_arr else [0]):
                    x0 = x.flat[k] if is_arr else x
                    if is_arr and x0 == 0 and fd['keep_zero']:
                        continue
                    sf = float(np.abs(x0)) if (fd['relative'] and np.abs(x0) != 0) else 1.0
                    for imag in ((False, True) if np.iscomplexobj(x0) else (False,)):
                        delta = dxv * sf
                        scp = fresh_response(pym, Poly, nd, i_first, i_last, (x_ref, k, (1j * delta) if imag else delta))
                        for io, o in enumerate(outs_ref):
                            g = quotient(scp.roots[o].state, outputs[io], F(delta), imag, seeds[io])
                            sv = an_sens[io][iin]
                            if sv is None:
                                an = Fraction(0)
                            else:
                                e = entry_list(sv)
                                an = cq(e[k] if (isinstance(sv, np.ndarray) and sv.ndim > 0) else e[0])[1 if imag else 0]
                            exp_t.append((cq(x0), F(dxv), an, g))
            got_t = [(cq(t[0]), F(t[1]), F(t[2]), F(t[3])) for t in r1['tuples']]
            if len(got_t) != len(exp_t):
                bad('one tuple per perturbed entry and output (two for complex entries)', 'count', len(exp_t), len(got_t))
            else:
                for e, (ge, ee) in enumerate(zip(got_t, exp_t)):
                    if ge[0] != ee[0] or ge[1] != ee[1]:
                        bad('tuples report the original entry and dx, in np.nditer order', 'order', str(ee[:2]), str(ge[:2]))
                        break
                    if ge[2] != ee[2]:
                        bad('analytical value is the backpropagated sensitivity of the seed', 'an-value',
                            str(ee[2]), dict(tuple_index=e, got=str(ge[2])))
                        break
                    if ge[3] != ee[3]:
                        bad('numerical value equals the seed-weighted difference quotient', 'fd-value',
                            str(ee[3]), dict(tuple_index=e, got=str(ge[3])))
                        break
            # (b2) history: the same call once more on the same objects (the modules still hold whatever they keep between
            #      calls; the first call must have left everything as it found it) reports the same tuples
            r2 = run_fd(pym, sc, fd, _random.Random(1))
            if r2['err'] != 0 or [(cq(t[0]), F(t[1]), F(t[2]), F(t[3])) for t in r2['tuples']] != got_t:
                bad('a second call on the same network reports the same tuples', 'history',
                    str(r1['tuples'])[:1500], str(r2['tuples'])[:1500])
            # (c)+(d): exact extrapolation of the numerical values to dx -> 0 (polynomials of degree <= 4); the seeds are
            #          the same in every run (our np.random.rand replacement restarts)
            runs = []
            for h in range(5):
                sch = Scenario(pym, Poly, nd_run)
                runs.append(run_fd(pym, sch, fd, _random.Random(1), dx=2.0 ** (-(fd['k'] + h)))['tuples'])
            if any(len(t) != len(runs[0]) for t in runs):
                bad('tuple count independent of dx', 'count')
                continue
            wrong_any = any(data.get('meta', {}).get('wrong', []))
            mismatch = False
            for e in range(len(runs[0])):
                hs = [Fraction(1, 2 ** (fd['k'] + h)) for h in range(5)]
                gs = [F(runs[h][e][3]) for h in range(5)]
                # Lagrange extrapolation to 0 through 5 points (exact for polynomials of degree <= 4 in dx)
                T = Fraction(0)
                for a in range(5):
                    w = Fraction(1)
                    for b in range(5):
                        if a != b:
                            w *= (0 - hs[b]) / (hs[a] - hs[b])
                    T += w * gs[a]
                an = F(runs[0][e][2])
                g0 = gs[0]
                # O(dx): the error is bounded by a multiple of dx
                if abs(g0 - T) > 4096 * hs[0] * max(1, abs(T)):
                    bad('numerical value equals the true directional derivative up to O(dx)', 'fd-value', str(T), str(g0))
                if an != T:
                    mismatch = True
                    if not wrong_any:
                        bad('a correct sensitivity is reported with a matching pair', 'an-value', str(T), str(an))
            if wrong_any and not mismatch and len(runs[0]) > 0:
                # a wrong entry can hide behind a zero seed weight / an unperturbed (zero) entry: count, do not alarm
                ctx.count('oracle:wrong-adjoint-not-visible-at-perturbed-entries')
            elif wrong_any and mismatch:
                ctx.count('oracle:wrong-adjoint-detected')
        except Exception as e:
            import traceback
            bad('the routine completes on well-formed networks', 'exception', None, traceback.format_exc()[-800:])


if __name__ == '__main__':
    vlib.main(run, 'C19')
