"""The "module zoo": generated configurations of every library module that has a sensitivity, and the
module-protocol oracles used by C01 (adjointness) and C04 (seed-linearity, accumulation, frame conditions).

Every entry is a dict
  name   : module class / family
  cfg    : printable description (goes into replays)
  build  : () -> (module, [input signals], [output signals])   fresh instance, inputs set to the entry's point
  dirs   : (np_rng) -> [direction per input or None]  admissible perturbation directions (keep the matrix class)
  freeze : optional (module) -> None, called after the first response (freeze active set / scale factor: the
           sensitivities treat them as constants of the current evaluation, as the code does)
  cplx_out : list of bools, which outputs are complex (seed type follows finite_difference's convention)
  tol    : relative tolerance of the derivative comparison (Richardson central differences)
"""
import numpy as np
import scipy.sparse as sps


def _c(a):
    if isinstance(a, np.ndarray):
        return a.copy(order='K')       # keep the memory layout (Fortran-ordered inputs stay Fortran-ordered)
    return a.copy() if hasattr(a, 'copy') else a


def entries(pym, seed, thorough=False, extra=()):
    """generate the list of zoo entries (deterministic in seed); `extra`: names of additional families appended AFTER the
    standard zoo (the standard entries and their random stream do not depend on it): 'eig_sparse'"""
    rng = np.random.default_rng(seed)
    E = []

    def add(name, cfg, mk, ins, nout=1, dirs=None, freeze=None, tol=2e-6, linear=False, h=1e-3, share=None):
        ins = [_c(x) for x in ins]
        # share: groups of argument positions that are served by ONE Signal object (e.g. EinSum 'i,ij,j->' with (b, A, b))
        rep_of = list(range(len(ins)))
        for grp in (share or []):
            for j in grp[1:]:
                rep_of[j] = grp[0]

        def build():
            si = [pym.Signal(f'in{i}', _c(x)) for i, x in enumerate(ins)]
            si = [si[rep_of[i]] for i in range(len(si))]
            so = [pym.Signal(f'out{j}') for j in range(nout)]
            m = mk(si, so)
            return m, si, so

        def default_dirs(r):
            out = []
            for x in ins:
                if sps.issparse(x):
                    d = x.copy()
                    d.data = r.standard_normal(d.data.shape) + (1j * r.standard_normal(d.data.shape) if np.iscomplexobj(x) else 0)
                    out.append(d)
                elif np.iscomplexobj(x):
                    out.append(r.standard_normal(np.shape(x)) + 1j * r.standard_normal(np.shape(x)))
                else:
                    out.append(r.standard_normal(np.shape(x)) if np.ndim(x) else float(r.standard_normal()))
            return out
        E.append(dict(name=name, cfg=cfg, build=build, dirs=dirs or default_dirs, freeze=freeze, tol=tol,
                      linear=linear, ins=ins, h=h, rep_of=rep_of, mk=mk, nout=nout,
                      # tolerance for comparing two evaluations of the same configuration (ARPACK starts from a random vector)
                      xtol=1e-4 if (name == 'EigenSolve' and 'sparse' in str(cfg.get('kind', ''))) else 1e-9))
        # the same entry with Fortran-ordered dense matrix inputs (memory layout must not matter)
        if any(isinstance(x, np.ndarray) and x.ndim == 2 and x.shape[0] > 1 and x.shape[1] > 1 for x in ins) and not cfg.get('_layout'):
            insF = [np.asfortranarray(x) if isinstance(x, np.ndarray) and x.ndim == 2 else x for x in ins]
            add(name, dict(cfg, _layout='F'), mk, insF, nout=nout, dirs=dirs, freeze=freeze, tol=tol, linear=linear, h=h, share=share)

    def rnd(*shape):
        return rng.random(shape) + 0.25

    def dom(dim, big=False):
        if dim == 2:
            return pym.DomainDefinition(int(rng.integers(1, 5)), int(rng.integers(1, 5)), 0,
                                        *[float(rng.choice([0.5, 1.0, 1.5, 2.0])) for _ in range(3)])
        return pym.DomainDefinition(int(rng.integers(1, 4)), int(rng.integers(1, 4)), int(rng.integers(1, 3)),
                                    *[float(rng.choice([0.5, 1.0, 1.5, 2.0])) for _ in range(3)])

    def one_rep():
        # ------------------------------------------------------------------ Scaling
        for kw in (dict(scaling=7.0), dict(scaling=3.0, minval=0.7), dict(scaling=2.0, maxval=1.3)):
            add('Scaling', kw, lambda si, so, kw=kw: pym.Scaling(si, so, **kw), [float(rng.random() + 0.5)])
        add('Scaling', dict(scaling=5.0, vector=True), lambda si, so: pym.Scaling(si, so, scaling=5.0), [rnd(4)])
        # ------------------------------------------------------------------ aggregations
        for cls, pname, vals in (('PNorm', 'p', (2, 4.5, -3.0, 1)), ('KSFunction', 'rho', (1.0, 6.0, -4.0)),
                                 ('SoftMinMax', 'alpha', (1.0, 5.0, -3.0))):
            for v in vals:
                for variant in ('plain', 'scaled', 'active', 'damped'):
                    n = int(rng.integers(1, 9)) if variant != 'active' else int(rng.integers(6, 12))
                    x = rnd(n) * 2
                    def mk(si, so, cls=cls, pname=pname, v=v, variant=variant):
                        kw = {pname: v}
                        if variant in ('scaled', 'damped'):
                            kw['scaling'] = pym.AggScaling('max' if v > 0 else 'min', damping=0.0 if variant == 'scaled' else 0.5)
                        if variant == 'active':
                            kw['active_set'] = pym.AggActiveSet(lower_rel=0.1, upper_rel=0.95, lower_amt=0.1, upper_amt=0.9)
                        return getattr(pym, cls)(si, so, **kw)

                    def freeze(m):
                        sel = m.select
                        m.active_set = (lambda x, sel=sel: sel) if m.active_set is not None else None
                        m.scaling = None  # keeps m.sf of the evaluation
                    add(cls, {pname: v, 'n': n, 'variant': variant}, mk, [x], freeze=freeze)
        # ------------------------------------------------------------------ complex helpers
        n = int(rng.integers(1, 6))
        add('MakeComplex', dict(n=n), lambda si, so: pym.MakeComplex(si, so), [rnd(n), rnd(n)], linear=True)
        add('MakeComplex', dict(scalar=True), lambda si, so: pym.MakeComplex(si, so), [1.5, -0.5], linear=True)
        z = rnd(n) - 0.7 + 1j * (rnd(n) - 0.6)
        add('RealPart', dict(n=n), lambda si, so: pym.RealPart(si, so), [z], linear=True)
        add('ImagPart', dict(n=n), lambda si, so: pym.ImagPart(si, so), [z], linear=True)
        add('ComplexNorm', dict(n=n), lambda si, so: pym.ComplexNorm(si, so), [z])
        # ------------------------------------------------------------------ EinSum (doc table)
        u, v = rnd(3), rnd(3)
        A, B = rnd(3, 3), rnd(3, 3)
        V = rnd(3, 2)
        Ac = A + 1j * rnd(3, 3)
        for expr, args in (("i->", [u]), ("i,i->i", [u, v]), ("i,i->", [u, v]), ("i,j->ij", [u, rnd(2)]), ("ii->", [A]),
                           ("ij,j->i", [A, u]), ("i,ij,j->", [u, A, v]), ("ij,ij->ij", [A, B]), ("ji,ij->ij", [A, B]),
                           ("ji,jk,kl->il", [V, A, V]), ("ij->", [A]), ("ij,jk->ik", [A, B]), ("ij,j->i", [Ac, u]),
                           ("ij,j->i", [A, u + 1j * v]), ("i,i->", [u + 1j * v, v + 0j])):
            add('EinSum', dict(expr=expr, cplx=[bool(np.iscomplexobj(a)) for a in args]),
                lambda si, so, expr=expr: pym.EinSum(si, so, expression=expr), args, linear=[[k] for k in range(len(args))])
        # the same Signal object serving several arguments (documented use: quadratic forms, projections)
        zc = u + 1j * v
        for expr, args, share in (("i,ij,j->", [u, A, u], [[0, 2]]), ("ji,jk,kl->il", [V, A, V], [[0, 2]]), ("i,i->", [zc, zc], [[0, 1]]),
                                  ("ij,jk->ik", [A, A], [[0, 1]]), ("i,ij,j->", [zc, Ac, zc], [[0, 2]])):
            add('EinSum', dict(expr=expr, shared=str(share), cplx=[bool(np.iscomplexobj(a)) for a in args]),
                lambda si, so, expr=expr: pym.EinSum(si, so, expression=expr), args, share=share)
        # ------------------------------------------------------------------ ConcatSignal
        add('ConcatSignal', dict(kinds='vec,scalar,vec'), lambda si, so: pym.ConcatSignal(si, so), [rnd(3), 0.75, rnd(2)], linear=True)
        add('ConcatSignal', dict(kinds='mat,vec'), lambda si, so: pym.ConcatSignal(si, so), [rnd(2, 2), rnd(3)], linear=True)
        # ------------------------------------------------------------------ filters
        for dim in (2, 3):
            d = dom(dim)
            x = rnd(d.nel)
            modes = ['symmetric', 'edge', 'wrap', 0.0, 1.0]
            bcs = {k: modes[int(rng.integers(len(modes)))] for k in ('xmin_bc', 'xmax_bc', 'ymin_bc', 'ymax_bc', 'zmin_bc', 'zmax_bc')}
            r = float(rng.choice([0.8, 1.5, 2.3]))
            add('FilterConv', dict(dom=(d.nelx, d.nely, d.nelz), radius=r, **bcs),
                lambda si, so, d=d, r=r, bcs=bcs: pym.FilterConv(si, so, d, radius=r, **bcs), [x], linear=True)
            ksh = (3, 3) if dim == 2 else (3, 1, 3)
            w = rng.random(ksh)
            add('FilterConv', dict(dom=(d.nelx, d.nely, d.nelz), weights=ksh, **bcs),
                lambda si, so, d=d, w=w, bcs=bcs: pym.FilterConv(si, so, d, weights=w, **bcs), [x], linear=True)
            add('DensityFilter', dict(dom=(d.nelx, d.nely, d.nelz), radius=r),
                lambda si, so, d=d, r=r: pym.DensityFilter(si, so, d, radius=r), [x], linear=True)
            npad = rng.choice(d.nel, size=max(1, d.nel // 2), replace=False)
            add('DensityFilter', dict(dom=(d.nelx, d.nely, d.nelz), radius=r, nonpadding=True),
                lambda si, so, d=d, r=r, npad=npad: pym.DensityFilter(si, so, d, radius=r, nonpadding=npad), [x], linear=True)
            dirs = ['+x', '-x', '+y', 'y-'] + (['z', '-z'] if dim == 3 else [])
            for direction in dirs:
                ns = 3 if dim == 2 else int(rng.choice([5, 9]))
                kw = dict(direction=direction, nsampling=ns)
                if rng.random() < 0.5:
                    kw.update(xi_0=0.4, p=10.0, eps=1e-3)
                add('OverhangFilter', dict(dom=(d.nelx, d.nely, d.nelz), **kw),
                    lambda si, so, d=d, kw=kw: pym.OverhangFilter(si, so, d, **kw), [rng.random(d.nel) * 0.9 + 0.05], tol=3e-4, h=2e-4)
        # deliberately anisotropic 3-D cases (every axis has its own size, kernels without any mirror symmetry,
        # no constant padding that could hide an axis): axis mix-ups and missing flips cannot cancel here
        aniso = ((4, 3, 2), (2, 3, 4), (3, 4, 2))
        if not thorough:    # quick tier: one anisotropic 3-D shape per run (rotating with the seed); thorough: all three
            aniso = (aniso[seed % 3],)
        for shp in aniso:
            d = pym.DomainDefinition(*shp, 1.0, 0.5, 2.0)
            x = rnd(d.nel)
            nm = ['symmetric', 'edge', 'wrap']
            bcs = {k: nm[int(rng.integers(3))] for k in ('xmin_bc', 'xmax_bc', 'ymin_bc', 'ymax_bc', 'zmin_bc', 'zmax_bc')}
            for ksh in ((3, 3, 3), (1, 3, 3), (3, 1, 1)):
                w = rng.random(ksh) + 0.1 * np.arange(np.prod(ksh)).reshape(ksh)
                add('FilterConv', dict(dom=shp, weights=ksh, anisotropic=True, **bcs),
                    lambda si, so, d=d, w=w, bcs=bcs: pym.FilterConv(si, so, d, weights=w, **bcs), [x], linear=True)
            add('FilterConv', dict(dom=shp, radius=1.6, anisotropic=True, **bcs),
                lambda si, so, d=d, bcs=bcs: pym.FilterConv(si, so, d, radius=1.6, **bcs), [x], linear=True)
            add('DensityFilter', dict(dom=shp, radius=1.7, anisotropic=True),
                lambda si, so, d=d: pym.DensityFilter(si, so, d, radius=1.7), [x], linear=True)
            for direction in ('+x', '-x', '+y', '-y', '+z', '-z'):
                for ns in (5, 9):
                    kw = dict(direction=direction, nsampling=ns)
                    add('OverhangFilter', dict(dom=shp, anisotropic=True, **kw),
                        lambda si, so, d=d, kw=kw: pym.OverhangFilter(si, so, d, **kw), [rng.random(d.nel) * 0.9 + 0.05], tol=3e-4, h=2e-4)
        for shp in ((4, 3, 0), (2, 5, 0)):
            d = pym.DomainDefinition(*shp, 1.0, 0.5, 2.0)
            w = rng.random((3, 5)) + 0.1 * np.arange(15).reshape(3, 5)
            nm = ['symmetric', 'edge', 'wrap']
            bcs = {k: nm[int(rng.integers(3))] for k in ('xmin_bc', 'xmax_bc', 'ymin_bc', 'ymax_bc')}
            add('FilterConv', dict(dom=shp, weights=(3, 5), anisotropic=True, **bcs),
                lambda si, so, d=d, w=w, bcs=bcs: pym.FilterConv(si, so, d, weights=w, **bcs), [rnd(d.nel)], linear=True)
            for direction in ('+x', '-x', '+y', '-y'):
                add('OverhangFilter', dict(dom=shp, anisotropic=True, direction=direction),
                    lambda si, so, d=d, direction=direction: pym.OverhangFilter(si, so, d, direction=direction),
                    [rng.random(d.nel) * 0.9 + 0.05], tol=3e-4, h=2e-4)
        # ------------------------------------------------------------------ assembly and element operators
        for dim in (2, 3):
            d = dom(dim)
            x = rnd(d.nel)
            nd_s = dim
            bc = rng.choice(d.nnodes * nd_s, size=max(1, d.nnodes // 2), replace=False)
            for kw in (dict(), dict(bc=bc), dict(bc=bc, bcdiagval=3.0),
                       dict(e_modulus=2.0, poisson_ratio=0.25, plane='stress') if dim == 2 else dict(e_modulus=3.0, poisson_ratio=0.2)):
                add('AssembleStiffness', dict(dom=(d.nelx, d.nely, d.nelz), kw={k: (v if np.isscalar(v) or isinstance(v, str) else 'array') for k, v in kw.items()}),
                    lambda si, so, d=d, kw=kw: pym.AssembleStiffness(si, so, d, **kw), [x], linear=True)
            add('AssembleMass', dict(dom=(d.nelx, d.nely, d.nelz), ndof=2), lambda si, so, d=d: pym.AssembleMass(si, so, d, material_property=1.7, ndof=2), [x], linear=True)
            add('AssemblePoisson', dict(dom=(d.nelx, d.nely, d.nelz)), lambda si, so, d=d: pym.AssemblePoisson(si, so, d, material_property=0.6), [x], linear=True)
            ne = d.elemnodes
            Ke = rng.random((ne, ne))
            cst = sps.identity(d.nnodes, format='csr') * 0.5
            add('AssembleGeneral', dict(dom=(d.nelx, d.nely, d.nelz), add_constant=True),
                lambda si, so, d=d, Ke=Ke, cst=cst: pym.AssembleGeneral(si, so, d, element_matrix=Ke, add_constant=cst), [x], linear=True)
            for shp in ((ne,), (2, ne), (2, 3, ne), (dim * ne,), (3, dim * ne)):
                em = rng.random(shp)
                ndof = 1 if shp[-1] == ne and rng.random() < 0.5 else (dim if shp[-1] != ne else 2)
                if shp[-1] == dim * ne:
                    ndof = dim
                uu = rnd(d.nnodes * ndof)
                add('ElementOperation', dict(dom=(d.nelx, d.nely, d.nelz), shape=shp, ndof=ndof),
                    lambda si, so, d=d, em=em: pym.ElementOperation(si, so, d, em), [uu], linear=True)
            uu = rnd(d.nnodes * dim)
            add('Strain', dict(dom=(d.nelx, d.nely, d.nelz), voigt=True), lambda si, so, d=d: pym.Strain(si, so, d, voigt=True), [uu], linear=True)
            add('Strain', dict(dom=(d.nelx, d.nely, d.nelz), voigt=False), lambda si, so, d=d: pym.Strain(si, so, d, voigt=False), [uu], linear=True)
            add('Stress', dict(dom=(d.nelx, d.nely, d.nelz)), lambda si, so, d=d: pym.Stress(si, so, d, e_modulus=2.0, poisson_ratio=0.3), [uu], linear=True)
            add('ElementAverage', dict(dom=(d.nelx, d.nely, d.nelz)), lambda si, so, d=d: pym.ElementAverage(si, so, d), [rnd(d.nnodes)], linear=True)
            em = rng.random((dim * ne,))
            add('NodalOperation', dict(dom=(d.nelx, d.nely, d.nelz)), lambda si, so, d=d, em=em: pym.NodalOperation(si, so, d, em), [x], linear=True)
            add('ThermoMechanical', dict(dom=(d.nelx, d.nely, d.nelz)),
                lambda si, so, d=d: pym.ThermoMechanical(si, so, d, e_modulus=2.0, poisson_ratio=0.3, alpha=0.5, plane='stress'), [x], linear=True)
        # ------------------------------------------------------------------ linear systems
        n = int(rng.integers(2, 6))

        def spd(n):
            M = rng.standard_normal((n, n))
            return M @ M.T + n * np.eye(n)

        def gen(n):
            return rng.standard_normal((n, n)) + n * np.eye(n)

        def symdir(r, n=n):
            M = r.standard_normal((n, n))
            return M + M.T
        Asym, Agen = spd(n), gen(n)
        Acs = Asym + 1j * (lambda M: M + M.T)(rng.standard_normal((n, n))) * 0.3   # complex symmetric
        Aherm = Asym + 1j * (lambda M: M - M.T)(rng.standard_normal((n, n))) * 0.3  # Hermitian
        b1, bk = rng.standard_normal(n), rng.standard_normal((n, 2))
        bc_ = b1 + 1j * rng.standard_normal(n)
        for label, A, b, dA in (('spd/vec', Asym, b1, lambda r: symdir(r)), ('spd/block', Asym, bk, lambda r: symdir(r)),
                                ('general/vec', Agen, b1, None), ('general/block', Agen, bk, None),
                                ('general/complex-rhs', Agen, bc_, None),
                                ('complex-symmetric/vec', Acs, bc_, lambda r: symdir(r) + 1j * symdir(r)),
                                ('hermitian/vec', Aherm, bc_, lambda r: symdir(r) + 1j * (lambda M: M - M.T)(r.standard_normal((n, n)))),
                                ('complex-general', Agen + 1j * rng.standard_normal((n, n)), bc_, None)):
            def dirs(r, A=A, b=b, dA=dA):
                da = dA(r) if dA else (r.standard_normal(A.shape) + (1j * r.standard_normal(A.shape) if np.iscomplexobj(A) else 0))
                db = r.standard_normal(b.shape) + (1j * r.standard_normal(b.shape) if np.iscomplexobj(b) else 0)
                return [da, db]
            add('LinSolve', dict(n=n, kind='dense ' + label), lambda si, so: pym.LinSolve(si, so), [A, b], dirs=dirs, linear=[[1]])
        for label, A in (('spd', Asym), ('general', Agen)):
            S = sps.csc_matrix(np.where(np.abs(A) > 0.4, A, 0) + np.diag(np.diag(A)) * 0)
            S = sps.csc_matrix(np.triu(S.toarray()) + np.triu(S.toarray(), 1).T) if label == 'spd' else S

            def dirs(r, S=S, label=label):
                D = S.copy()
                if label == 'spd':
                    M = r.standard_normal(S.shape)
                    M = M + M.T
                    D = sps.csc_matrix(np.where(S.toarray() != 0, M, 0))
                else:
                    D.data = r.standard_normal(D.data.shape)
                return [D, r.standard_normal(n)]
            add('LinSolve', dict(n=n, kind='sparse ' + label), lambda si, so: pym.LinSolve(si, so), [S, b1], dirs=dirs, linear=[[1]])
        # exact boundary data: solutions / seeds that are ISOTROPIC complex vectors (u.u == 0 without conjugation although
        # u != 0, e.g. [1, 1j, 0, 0]) and vectors with exactly zero entries / zero columns -- tests on "is this vector zero"
        # made with an unconjugated product, or dropped dyads, show here (dyadic sensitivities of sparse complex systems)
        niso = 4
        # entries are powers of two (times 1 or i) and the matrix is upper bidiagonal: the solve reproduces the chosen
        # solution EXACTLY in floating point, so that u.u is exactly 0
        Aiso = sps.csc_matrix(np.diag([2.0 + 0j, 4j, 1.0, 8.0]) + np.diag([0.5 + 0j] * (niso - 1), 1))
        for label, usol in (('isotropic solution', np.array([1.0, 1j, 0.0, 0.0])), ('isotropic solution 2', np.array([1 + 1j, 1 - 1j, 0.0, 0.0])),
                            ('solution with zeros', np.array([0.0, 2.0 - 1j, 0.0, 0.5j]))):
            assert np.array_equal(np.linalg.solve(Aiso.toarray(), Aiso @ usol), usol)   # exactness of the construction
            bis = Aiso @ usol

            def isodirs(r, Aiso=Aiso):
                D = Aiso.copy()
                D.data = r.standard_normal(D.data.shape) + 1j * r.standard_normal(D.data.shape)
                return [D, r.standard_normal(niso) + 1j * r.standard_normal(niso)]
            add('LinSolve', dict(n=niso, kind='sparse complex, ' + label), lambda si, so: pym.LinSolve(si, so), [Aiso, bis],
                dirs=isodirs, linear=[[1]])
            add('LinSolve', dict(n=niso, kind='dense complex, ' + label), lambda si, so: pym.LinSolve(si, so), [Aiso.toarray(), bis],
                dirs=lambda r: [r.standard_normal((niso, niso)) + 1j * r.standard_normal((niso, niso)),
                                r.standard_normal(niso) + 1j * r.standard_normal(niso)], linear=[[1]])
        add('Inverse', dict(n=n), lambda si, so: pym.Inverse(si, so), [Agen])
        add('Inverse', dict(n=n, cplx=True), lambda si, so: pym.Inverse(si, so), [Agen + 1j * rng.standard_normal((n, n)) * 0.3])
        # SystemOfEquations / StaticCondensation on symmetric sparse matrices (their documented domain)
        n2 = int(rng.integers(3, 7))
        M = rng.standard_normal((n2, n2))
        K = sps.csc_matrix(M @ M.T + n2 * np.eye(n2))
        perm = rng.permutation(n2)
        npre = int(rng.integers(1, n2 - 1))
        pre, free = np.sort(perm[:npre]), np.sort(perm[npre:])

        def kdirs(r, K=K, shapes=None):
            Mm = r.standard_normal(K.shape)
            return sps.csc_matrix(Mm + Mm.T)
        for nrhs in (None, 2):
            bf = rng.standard_normal(len(free) if nrhs is None else (len(free), nrhs))
            xp = rng.standard_normal(len(pre) if nrhs is None else (len(pre), nrhs))
            add('SystemOfEquations', dict(n=n2, npre=npre, nrhs=nrhs),
                lambda si, so, free=free, pre=pre: pym.SystemOfEquations(si, so, free=free, prescribed=pre), [K, bf, xp], nout=2,
                dirs=lambda r, bf=bf, xp=xp: [kdirs(r), r.standard_normal(bf.shape), r.standard_normal(xp.shape)], linear=[[1, 2]])
        # non-symmetric and dense system matrices (fix F17/F18)
        Kn = rng.standard_normal((n2, n2)) + n2 * np.eye(n2)
        for dense_ in (True, False):
            Kin = Kn.copy() if dense_ else sps.csc_matrix(Kn)
            bf = rng.standard_normal(len(free))
            xp = rng.standard_normal(len(pre))
            add('SystemOfEquations', dict(n=n2, npre=npre, kind='non-symmetric ' + ('dense' if dense_ else 'sparse')),
                lambda si, so, free=free, pre=pre: pym.SystemOfEquations(si, so, free=free, prescribed=pre), [Kin, bf, xp], nout=2,
                dirs=lambda r, bf=bf, xp=xp, dense_=dense_: [(lambda D: D if dense_ else sps.csc_matrix(D))(r.standard_normal((n2, n2))),
                                                            r.standard_normal(bf.shape), r.standard_normal(xp.shape)], linear=[[1, 2]])
        nm = int(rng.integers(1, n2 - 1))
        main, rest = np.sort(perm[:nm]), np.sort(perm[nm:])
        add('StaticCondensation', dict(n=n2, nmain=nm),
            lambda si, so, main=main, rest=rest: pym.StaticCondensation(si, so, main=main, free=rest), [K],
            dirs=lambda r: [kdirs(r)])
        # StaticCondensation on dense real symmetric and on complex symmetric matrices (dynamic stiffness), dense and sparse (F33)
        Msym = rng.standard_normal((n2, n2))
        Kc = (M @ M.T + n2 * np.eye(n2)) + 0.4j * (Msym + Msym.T)

        def csdirs(r, cplx=True, sparse_=False):
            D = r.standard_normal((n2, n2))
            D = D + D.T
            if cplx:
                E = r.standard_normal((n2, n2))
                D = D + 1j * (E + E.T)
            return [sps.csc_matrix(D) if sparse_ else D]
        for label, Kin, cplx, sp_ in (('dense real symmetric', (M @ M.T + n2 * np.eye(n2)), False, False),
                                      ('dense complex symmetric', Kc, True, False), ('sparse complex symmetric', sps.csc_matrix(Kc), True, True)):
            add('StaticCondensation', dict(n=n2, nmain=nm, kind=label),
                lambda si, so, main=main, rest=rest: pym.StaticCondensation(si, so, main=main, free=rest), [Kin],
                dirs=lambda r, cplx=cplx, sp_=sp_: csdirs(r, cplx, sp_))
        # EigenSolve (dense): well separated spectra
        ne_ = int(rng.integers(2, 5))
        Qo, _ = np.linalg.qr(rng.standard_normal((ne_, ne_)))
        Ae = Qo @ np.diag(np.arange(1, ne_ + 1) * 1.7 + rng.random(ne_) * 0.3) @ Qo.T
        Ae = (Ae + Ae.T) / 2
        Be = spd(ne_) / ne_
        add('EigenSolve', dict(n=ne_, kind='dense symmetric'), lambda si, so: pym.EigenSolve(si, so), [Ae], nout=2,
            dirs=lambda r: [symdir(r, ne_)], tol=2e-5)
        add('EigenSolve', dict(n=ne_, kind='dense symmetric generalized'), lambda si, so: pym.EigenSolve(si, so), [Ae, Be], nout=2,
            dirs=lambda r: [symdir(r, ne_), symdir(r, ne_) * 0.1], tol=2e-5)
        Tg = np.triu(rng.standard_normal((ne_, ne_)), 1) + np.diag(np.arange(1, ne_ + 1) * 1.5 + rng.random(ne_) * 0.3)
        add('EigenSolve', dict(n=ne_, kind='dense general triangular (real spectrum)'), lambda si, so: pym.EigenSolve(si, so), [Tg], nout=2,
            dirs=lambda r: [np.triu(r.standard_normal((ne_, ne_)))], tol=2e-5)
        Pg = rng.standard_normal((ne_, ne_)) + 2 * np.eye(ne_)
        add('EigenSolve', dict(n=ne_, kind='dense general similar (real spectrum)'), lambda si, so: pym.EigenSolve(si, so),
            [Pg @ Tg @ np.linalg.inv(Pg)], nout=2, dirs=lambda r: [0.05 * r.standard_normal((ne_, ne_))], tol=5e-5)
        Tc = Tg + 1j * np.triu(rng.standard_normal((ne_, ne_)))
        add('EigenSolve', dict(n=ne_, kind='dense complex general'), lambda si, so: pym.EigenSolve(si, so), [Tc], nout=2,
            dirs=lambda r: [np.triu(r.standard_normal((ne_, ne_))) + 1j * np.triu(r.standard_normal((ne_, ne_)))], tol=2e-5)
        # EigenSolve (sparse): FE-like tridiagonal pencil, eigenvalue and eigenvector seeds
        ns = int(rng.integers(8, 12))
        kd = 2.0 + rng.random(ns)
        ko = -(0.5 + 0.4 * rng.random(ns - 1))
        Ks = sps.diags([ko, kd, ko], [-1, 0, 1], format='csc')
        md = 1.0 + rng.random(ns)
        mo = 0.1 * rng.random(ns - 1)
        Ms = sps.diags([mo, md, mo], [-1, 0, 1], format='csc')

        def sdirs(r, ns=ns):
            d0, d1 = r.standard_normal(ns), r.standard_normal(ns - 1)
            return sps.diags([d1, d0, d1], [-1, 0, 1], format='csc')
        for kw, withB in ((dict(nmodes=2), False), (dict(nmodes=3, sigma=0.5), True), (dict(nmodes=2, sigma=0.0), True)):
            insx = [Ks, Ms] if withB else [Ks]
            add('EigenSolve', dict(n=ns, kind='sparse symmetric' + (' generalized' if withB else ''), **kw),
                lambda si, so, kw=kw: pym.EigenSolve(si, so, hermitian=True, **kw), insx, nout=2,
                dirs=(lambda r, withB=withB: [sdirs(r), 0.2 * sdirs(r)] if withB else [sdirs(r)]), tol=1e-4, h=1e-4)
        linsys_options()
        shared_domain_options()

    def shared_domain_options():
        """several configurations of the same class on ONE domain object that differ in exactly one option (boundary
        modes, kernel, radius, direction): anything cached on the domain / class under a key that forgets an option shows
        when these instances live side by side (zoo_interactions.interleaved_check)"""
        for shp in ((3, 4, 0), (3, 2, 3)):
            d = pym.DomainDefinition(*shp, 1.0, 1.5, 0.5)
            x = rnd(d.nel)
            keys = ('xmin_bc', 'xmax_bc', 'ymin_bc', 'ymax_bc') + (('zmin_bc', 'zmax_bc') if shp[2] else ())
            bsets = [{k: 'symmetric' for k in keys}, {k: ('edge', 'wrap', 0.0, 1.0, 'symmetric', 0.5)[i % 6] for i, k in enumerate(keys)},
                     {k: (1.0, 'edge', 'wrap', 'symmetric', 0.0, 'edge')[i % 6] for i, k in enumerate(keys)}]
            ksh = (3, 3) if not shp[2] else (3, 3, 3)
            w = rng.random(ksh) + 0.1 * np.arange(np.prod(ksh)).reshape(ksh)
            for j, bcs in enumerate(bsets):
                add('FilterConv', dict(dom=shp, radius=1.6, shared_domain=True, **bcs),
                    lambda si, so, d=d, bcs=bcs: pym.FilterConv(si, so, d, radius=1.6, **bcs), [x], linear=(j == 1))
                add('FilterConv', dict(dom=shp, weights=ksh, shared_domain=True, **bcs),
                    lambda si, so, d=d, bcs=bcs, w=w: pym.FilterConv(si, so, d, weights=w, **bcs), [x], linear=(j == 2))
            npad = rng.choice(d.nel, size=max(1, d.nel // 3), replace=False)
            for r, np_ in ((1.6, None), (1.6, npad), (2.4, None)):
                add('DensityFilter', dict(dom=shp, radius=r, nonpadding=np_ is not None, shared_domain=True),
                    lambda si, so, d=d, r=r, np_=np_: pym.DensityFilter(si, so, d, radius=r, nonpadding=np_), [x], linear=False)


    def linsys_options():
        """every public constructor option of the linear-system modules (LinSolve: use_lda_solver False/True, explicit
        solver=, hermitian= / symmetric= flags, dep_tol; SystemOfEquations: free / prescribed given alone or together and
        the LinSolve keywords passed through; StaticCondensation: LinSolve keywords) x every matrix class x storage.
        Appended after the older entries so that their random stream is unchanged."""
        S = pym.solvers
        n = int(rng.integers(3, 6))
        R = lambda *s: rng.standard_normal(s)
        sym = lambda M_: M_ + M_.T
        M0 = R(n, n)
        spd_ = M0 @ M0.T + n * np.eye(n)
        kinds = {
            'spd': (spd_, 'sym'),
            'symmetric indefinite': (sym(R(n, n)) + np.diag([(-1.0) ** i * 2 * n for i in range(n)]), 'sym'),
            'general': (R(n, n) + n * np.eye(n), 'gen'),
            'complex symmetric': (spd_ + 0.3j * sym(R(n, n)), 'csym'),
            'hermitian': (spd_ + 0.3j * (lambda M_: M_ - M_.T)(R(n, n)), 'herm'),
            'complex general': (R(n, n) + n * np.eye(n) + 1j * R(n, n), 'cgen'),
        }

        def mdir(r, cls, A, sparse_):
            if cls == 'sym':
                D = sym(r.standard_normal(A.shape))
            elif cls == 'gen':
                D = r.standard_normal(A.shape)
            elif cls == 'csym':
                D = sym(r.standard_normal(A.shape)) + 1j * sym(r.standard_normal(A.shape))
            elif cls == 'herm':
                D = sym(r.standard_normal(A.shape)) + 1j * (lambda M_: M_ - M_.T)(r.standard_normal(A.shape))
            else:
                D = r.standard_normal(A.shape) + 1j * r.standard_normal(A.shape)
            return sps.csc_matrix(D) if sparse_ else D

        def lin(label, cls, A, sparse_, nrhs, kwf, lda, linear=True, tol=2e-6):
            cplx = np.iscomplexobj(A)
            b = R(n) if nrhs is None else R(n, nrhs)
            if cplx:
                b = b + 1j * (R(n) if nrhs is None else R(n, nrhs))
            Ain = sps.csc_matrix(A) if sparse_ else A.copy()

            def mk(si, so, kwf=kwf, lda=lda):
                m = pym.LinSolve(si, so, **kwf())      # solver objects are created per instance
                if lda is not None:
                    m.use_lda_solver = lda             # documented attribute
                return m
            cfg = dict(n=n, kind=('sparse ' if sparse_ else 'dense ') + label, nrhs=nrhs, options=str(sorted(
                (k, type(v).__name__ if hasattr(v, 'solve') else v) for k, v in kwf().items())), use_lda_solver=lda)
            add('LinSolve', cfg, mk, [Ain, b], linear=[[1]] if linear else False, tol=tol,
                dirs=lambda r, A=A, b=b, cls=cls, sparse_=sparse_: [mdir(r, cls, A, sparse_), r.standard_normal(b.shape) + (
                    1j * r.standard_normal(b.shape) if np.iscomplexobj(b) else 0)])
        k = 0
        for label, (A, cls) in kinds.items():
            herm = cls in ('sym', 'herm')
            symm = cls in ('sym', 'csym')
            for sparse_ in (False, True):
                k += 1
                # the wrapper switched off: the seed / right-hand side goes to the factorisation routines directly
                lin(label, cls, A, sparse_, None, lambda: {}, False)
                lin(label, cls, A, sparse_, 2, lambda: {}, False, linear=False)
                # truthful flags (skip the automatic detection), a dependency tolerance
                lin(label, cls, A, sparse_, None if k % 2 else 2, lambda herm=herm, symm=symm: dict(hermitian=herm, symmetric=symm), None)
                lin(label, cls, A, sparse_, 2 if k % 2 else None, lambda herm=herm: dict(hermitian=herm, dep_tol=1e-8), k % 2 == 0, linear=False)
            # explicit solvers
            for j, (sname, ok, kw) in enumerate((('SolverDenseLU', True, {}), ('SolverDenseQR', True, {}),
                                                 ('SolverDenseCholesky', cls == 'herm' or label == 'spd', {}),
                                                 ('SolverDenseLDL', cls in ('sym', 'herm', 'csym'), dict(hermitian=herm)))):
                if ok:
                    lin(label, cls, A, False, (None, 2)[(j + k) % 2], lambda sname=sname, kw=kw: dict(solver=getattr(S, sname)(**kw)), (False, None)[j % 2],
                        linear=(j % 2 == 0))
                    lin(label, cls, A, False, (2, None)[(j + k) % 2], lambda sname=sname, kw=kw: dict(solver=getattr(S, sname)(**kw)), (None, False)[j % 2],
                        linear=False)
            lin(label, cls, A, True, None, lambda: dict(solver=S.SolverSparseLU()), False, linear=False)
            lin(label, cls, A, True, 2, lambda: dict(solver=S.SolverSparseLU()), None, linear=False)
            if label == 'spd' or cls == 'herm':
                for sparse_ in (False, True):
                    lin(label, cls, A, sparse_, None if sparse_ else 2, lambda: dict(solver=S.CG(tol=1e-13)), (False, None)[int(sparse_)], linear=False, tol=5e-6)
        # SystemOfEquations: index sets given alone / together, LinSolve keywords passed through, complex symmetric system
        n2 = int(rng.integers(4, 7))
        perm = rng.permutation(n2)
        npre = int(rng.integers(1, n2 - 1))
        pre, free = np.sort(perm[:npre]), np.sort(perm[npre:])
        M2 = R(n2, n2)
        Ks = M2 @ M2.T + n2 * np.eye(n2)
        Kc = Ks + 0.3j * sym(R(n2, n2))

        def sdir(r, cplx, sparse_):
            D = sym(r.standard_normal((n2, n2)))
            if cplx:
                D = D + 1j * sym(r.standard_normal((n2, n2)))
            return sps.csc_matrix(D) if sparse_ else D
        for j, (label, Kin, kwf) in enumerate((
                ('free only', sps.csc_matrix(Ks), lambda: dict(free=free)),
                ('prescribed only', sps.csc_matrix(Ks), lambda: dict(prescribed=pre)),
                ('hermitian=True', sps.csc_matrix(Ks), lambda: dict(free=free, prescribed=pre, hermitian=True)),
                ('symmetric=True dense', Ks.copy(), lambda: dict(free=free, prescribed=pre, symmetric=True)),
                ('solver=SolverSparseLU', sps.csc_matrix(Ks), lambda: dict(free=free, prescribed=pre, solver=S.SolverSparseLU())),
                ('solver=SolverDenseLU dense', Ks.copy(), lambda: dict(free=free, prescribed=pre, solver=S.SolverDenseLU())),
                ('solver=SolverDenseQR dense', Ks.copy(), lambda: dict(prescribed=pre, solver=S.SolverDenseQR())),
                ('complex symmetric sparse', sps.csc_matrix(Kc), lambda: dict(free=free, prescribed=pre)),
                ('complex symmetric dense', Kc.copy(), lambda: dict(free=free)))):
            cplx = np.iscomplexobj(Kin.toarray() if sps.issparse(Kin) else Kin)
            nrhs = None if j % 2 == 0 else 2
            bf = R(len(free)) if nrhs is None else R(len(free), nrhs)
            xp = R(len(pre)) if nrhs is None else R(len(pre), nrhs)
            if cplx:
                bf = bf + 1j * R(*bf.shape)
                xp = xp + 1j * R(*xp.shape)
            add('SystemOfEquations', dict(n=n2, npre=npre, nrhs=nrhs, options=label),
                lambda si, so, kwf=kwf: pym.SystemOfEquations(si, so, **kwf()), [Kin, bf, xp], nout=2,
                dirs=lambda r, bf=bf, xp=xp, cplx=cplx, sp_=sps.issparse(Kin): [sdir(r, cplx, sp_)] + [
                    r.standard_normal(v.shape) + (1j * r.standard_normal(v.shape) if cplx else 0) for v in (bf, xp)],
                linear=[[1, 2]])
        nm = int(rng.integers(1, n2 - 1))
        main, rest = np.sort(perm[:nm]), np.sort(perm[nm:])
        for label, Kin, kwf in (('hermitian=True', sps.csc_matrix(Ks), lambda: dict(hermitian=True)),
                                ('symmetric=True dense', Ks.copy(), lambda: dict(symmetric=True)),
                                ('solver=SolverDenseLU dense', Ks.copy(), lambda: dict(solver=S.SolverDenseLU())),
                                ('solver=SolverSparseLU complex symmetric', sps.csc_matrix(Kc), lambda: dict(solver=S.SolverSparseLU()))):
            cplx = np.iscomplexobj(Kin.toarray() if sps.issparse(Kin) else Kin)
            add('StaticCondensation', dict(n=n2, nmain=nm, options=label),
                lambda si, so, kwf=kwf: pym.StaticCondensation(si, so, main=main, free=rest, **kwf()), [Kin],
                dirs=lambda r, cplx=cplx, sp_=sps.issparse(Kin): [sdir(r, cplx, sp_)])
    reps = 3 if thorough else 1
    for _ in range(reps):
        one_rep()

    def eig_sparse_family():
        """sparse EigenSolve, standard and generalised, several nmodes (1 .. default 6), shifts, hermitian given / detected,
        tridiagonal pencils with well separated spectra and one finite-element pencil (stiffness / mass of a clamped plate)"""
        def pencil(n):
            kd = 2.0 + rng.random(n) + 0.35 * np.arange(n)
            ko = -(0.5 + 0.4 * rng.random(n - 1))
            md = 1.0 + rng.random(n)
            mo = 0.1 * rng.random(n - 1)
            return (sps.diags([ko, kd, ko], [-1, 0, 1], format='csc'), sps.diags([mo, md, mo], [-1, 0, 1], format='csc'))

        def tdirs(r, n, withB):
            def one():
                d0, d1 = r.standard_normal(n), r.standard_normal(n - 1)
                return sps.diags([d1, d0, d1], [-1, 0, 1], format='csc')
            return [one(), 0.2 * one()] if withB else [one()]
        cfgs = [(False, dict(nmodes=1)), (False, dict(nmodes=2, sigma=0.3)), (False, dict(nmodes=4)), (False, dict()),
                (True, dict(nmodes=1, sigma=0.5)), (True, dict(nmodes=3)), (True, dict(nmodes=5, sigma=0.5)), (True, dict())]
        if not thorough:
            cfgs = [c for i, c in enumerate(cfgs) if i not in (0, 4)] + [cfgs[int(rng.integers(0, 2)) * 4]]
        for i, (withB, kw) in enumerate(cfgs):
            n = int(rng.integers(9, 14))
            K, M = pencil(n)
            herm = dict(hermitian=True) if i % 3 else {}
            add('EigenSolve', dict(n=n, kind='sparse symmetric' + (' generalized' if withB else '') + ' (family)', **kw, **herm),
                lambda si, so, kw=dict(kw, **herm): pym.EigenSolve(si, so, **kw), [K, M] if withB else [K], nout=2,
                dirs=(lambda r, n=n, withB=withB: tdirs(r, n, withB)), tol=1e-4, h=1e-4)
        # finite-element pencil
        d = pym.DomainDefinition(3, 4)
        nl = d.get_nodenumber(0, np.arange(d.nely + 1))
        bc = np.concatenate([2 * nl, 2 * nl + 1])
        sx = pym.Signal('x', 0.5 + 0.4 * rng.random(d.nel))
        mK = pym.AssembleStiffness(sx, domain=d, bc=bc)
        mM = pym.AssembleMass(sx, domain=d, bc=bc, ndof=2, bcdiagval=1e-3)
        mK.response()
        mM.response()
        Kf, Mf = sps.csc_matrix(mK.sig_out[0].state), sps.csc_matrix(mM.sig_out[0].state)
        nf = Kf.shape[0]

        def fdirs(r, Kf=Kf, Mf=Mf, nf=nf):
            return [0.1 * float(r.standard_normal()) * Kf + sps.diags([0.1 * r.standard_normal(nf)], [0], format='csc'),
                    0.05 * float(r.standard_normal()) * Mf]
        for kw in ((dict(nmodes=4, hermitian=True),) if not thorough else (dict(nmodes=4, hermitian=True), dict(hermitian=True), dict(nmodes=3, sigma=0.01))):
            add('EigenSolve', dict(n=nf, kind='sparse symmetric generalized (family, finite-element pencil)', **kw),
                lambda si, so, kw=kw: pym.EigenSolve(si, so, **kw), [Kf, Mf], nout=2, dirs=fdirs, tol=1e-4, h=1e-4)
    if 'eig_sparse' in extra:
        eig_sparse_family()
    return E


# --------------------------------------------------------------------------------------------- helpers
def pairing(g, v, pym):
    """Re sum(g * v) for any admissible sensitivity / direction types"""
    if g is None:
        return 0.0
    if isinstance(g, pym.DyadCarrier):
        g = g.todense()
    if sps.issparse(g):
        g = g.toarray()
    if sps.issparse(v):
        v = v.toarray()
    return float(np.real(np.sum(np.asarray(g) * np.asarray(v))))


def dense(y):
    if sps.issparse(y):
        return y.toarray()
    return np.asarray(y)


def make_seeds(outs, rng, pym, kind='full'):
    """seeds following finite_difference's convention (complex for complex outputs); kind: full/partial"""
    seeds = []
    for j, s in enumerate(outs):
        y = s.state
        shape = np.shape(dense(y))
        w = rng.standard_normal(shape)
        if np.iscomplexobj(dense(y)):
            w = w + 1j * rng.standard_normal(shape)
        if np.ndim(w) == 0:
            w = w.item() if not np.iscomplexobj(w) else complex(w)
        seeds.append(w)
    if kind == 'partial' and len(seeds) > 1:
        k = int(rng.integers(len(seeds)))
        seeds = [w if j == k else None for j, w in enumerate(seeds)]
    return seeds


def seed_for_signal(w, y, pym, rng=None, as_dyad=False):
    """sparse-matrix outputs take a dense array or a DyadCarrier as sensitivity"""
    if w is None:
        return None
    if sps.issparse(y) and as_dyad:
        # rank-2 dyadic seed with the same dense image as w would need an SVD; use a fresh random dyad instead
        raise NotImplementedError
    return w.copy() if hasattr(w, 'copy') else w


def phi(outs, seeds):
    tot = 0.0
    for s, w in zip(outs, seeds):
        if w is None:
            continue
        tot += float(np.real(np.sum(dense(s.state) * w)))
    return tot


def set_inputs(ins, base, dirs, t):
    for s, x, v in zip(ins, base, dirs):
        if v is None:
            continue
        if sps.issparse(x):
            s.state = (x + t * v).asformat(x.format)
        elif np.ndim(x) == 0 and not isinstance(x, np.ndarray):
            s.state = x + t * v
        else:
            s.state = x + t * v


def _uniq(entry, ins):
    """positions of the distinct Signal objects among the module inputs (shared signals are listed once)"""
    rep = entry.get('rep_of') or list(range(len(ins)))
    return [i for i in range(len(ins)) if rep[i] == i]


def _column_masks(outs, rng):
    """complementary 0/1 masks over the LAST axis of every array output (over the output list when all are scalars)"""
    ma, mb = [], []
    for s in outs:
        shp = np.shape(dense(s.state))
        if len(shp) == 0 or shp[-1] < 2:
            keep = bool(rng.integers(2))
            ma.append(np.full(shp, 1.0 if keep else 0.0))
            mb.append(np.full(shp, 0.0 if keep else 1.0))
            continue
        k = shp[-1]
        sel = np.zeros(k)
        sel[rng.choice(k, size=int(rng.integers(1, k)), replace=False)] = 1.0
        ma.append(np.broadcast_to(sel, shp).copy())
        mb.append(np.broadcast_to(1.0 - sel, shp).copy())
    return ma, mb


def output_subsets(nout):
    """all non-empty subsets of the outputs (singletons and the full set only when there are more than 3 outputs)"""
    if nout <= 3:
        return [frozenset(j for j in range(nout) if (mask >> j) & 1) for mask in range(1, 2 ** nout)]
    return [frozenset([j]) for j in range(nout)] + [frozenset(range(nout))]


def pair_covering_sequence(k):
    """a sequence over range(k) in which every ordered pair (a, b), a == b included, occurs as two consecutive items
    (de Bruijn sequence B(k, 2), opened up): k*k + 1 items"""
    if k == 1:
        return [0, 0]
    a = [0] * (k * 2)
    seq = []

    def db(t, p):
        if t > 2:
            if 2 % p == 0:
                seq.extend(a[1:p + 1])
        else:
            a[t] = a[t - p]
            db(t + 1, p)
            for j in range(a[t - p] + 1, k):
                a[t] = j
                db(t + 1, t)
    db(1, 1)
    return seq + seq[:1]


def seed_layouts(w):
    """the same seed values in every memory layout a caller may hand over: C, Fortran, a strided view into a larger
    buffer, a negative-stride view, a transposed view; returns {label: (array, owner buffer)}"""
    w = np.asarray(w)
    if w.ndim == 0:
        return {}
    out = {}
    if w.ndim == 1:
        big = np.full(w.size * 2 + 1, 7.25, dtype=w.dtype)
        big[1::2] = w
        out['strided view (step 2)'] = (big[1::2], big)
        rev = np.ascontiguousarray(w[::-1])
        out['negative stride'] = (rev[::-1], rev)
        col = np.full((w.size, 3), -3.5, dtype=w.dtype, order='C')
        col[:, 1] = w
        out['column of a C matrix'] = (col[:, 1], col)
    else:
        f = np.asfortranarray(w).copy(order='F')
        out['Fortran order'] = (f, f)
        t = np.ascontiguousarray(np.swapaxes(w, 0, -1))
        out['transposed view'] = (np.swapaxes(t, 0, -1), t)
        big = np.full(tuple(2 * n_ + 1 for n_ in w.shape), 7.25, dtype=w.dtype)
        sl = tuple(slice(1, None, 2) for _ in w.shape)
        big[sl] = w
        out['strided view (step 2)'] = (big[sl], big)
        bigf = np.full((w.shape[0] + 2,) + w.shape[1:], -3.5, dtype=w.dtype, order='F')
        bigf[1:-1] = w
        out['rows of a Fortran matrix'] = (bigf[1:-1], bigf)
    return out


def linsolve_with_options(pym, sig_in, sig_out, k, A):
    """LinSolve on a dense real matrix with the k-th of its public option sets (use_lda_solver on/off, explicit solver=,
    truthful hermitian=/symmetric= flags, dep_tol); returns (module, label)"""
    S = pym.solvers
    issym = bool(np.array_equal(A, A.T))
    opts = [(dict(), None, 'default'), (dict(), False, 'use_lda_solver=False'),
            (dict(solver=S.SolverDenseLU()), False, 'solver=SolverDenseLU, use_lda_solver=False'),
            (dict(solver=S.SolverDenseQR()), None, 'solver=SolverDenseQR'),
            (dict(hermitian=issym, symmetric=issym), None, 'hermitian=/symmetric= flags'),
            (dict(solver=S.SolverDenseLU()), None, 'solver=SolverDenseLU'),
            (dict(dep_tol=1e-8), False, 'dep_tol, use_lda_solver=False'),
            (dict(solver=S.SolverDenseQR()), False, 'solver=SolverDenseQR, use_lda_solver=False')]
    kw, lda, label = opts[k % len(opts)]
    m = pym.LinSolve(sig_in, sig_out, **kw)
    if lda is not None:
        m.use_lda_solver = lda
    return m, label


def seed_in_layout(w, k):
    """a copy of the values of w in the k-th memory layout (contiguous first)"""
    lay = [w.copy()] + [v[0] for _, v in sorted(seed_layouts(w).items())]
    return lay[k % len(lay)]


def adjoint_check(entry, pym, rng, seed_kind='full', dyad_seed=False, reseed=False):
    """returns dict(ok, an, fd, err, detail) for one zoo entry, one seed set and one direction set.
    reseed=True: the module first backpropagates a seed supported on a random subset of the output columns, is reset,
    and is then seeded on the COMPLEMENTARY columns (a second sensitivity() after one response()); after that the
    design is changed, response() is called again and a third, again differently supported, seed is checked: every
    pass must give the adjoint for ITS seed (caches keyed on 'what was seeded before' or 'the previous design' show)."""
    m, ins, outs = entry['build']()
    uq = _uniq(entry, ins)
    base = [_c(x) for x in entry['ins']]
    m.response()
    if entry['freeze']:
        entry['freeze'](m)
    h = entry['h']
    dirs = entry['dirs'](rng)
    uins, ubase, udirs = [ins[i] for i in uq], [base[i] for i in uq], [dirs[i] for i in uq]

    def install(seeds):
        used = []
        for s, w in zip(outs, seeds):
            if w is None:
                continue
            if dyad_seed and sps.issparse(s.state):
                n0, n1 = s.state.shape
                a, b = rng.standard_normal(n0), rng.standard_normal(n1)
                s.sensitivity = pym.DyadCarrier(a, b)
                used.append(np.outer(a, b))
            else:
                s.sensitivity = _c(w)
                used.append(w)
        return [None if w is None else used.pop(0) for w in seeds]

    def compare(seeds, base_now):
        g = [s.sensitivity for s in uins]
        an = sum(pairing(gi, vi, pym) for gi, vi in zip(g, udirs) if vi is not None)

        def f(t):
            set_inputs(uins, base_now, udirs, t)
            m.response()
            return phi(outs, seeds)
        d1 = (f(h) - f(-h)) / (2 * h)
        d2 = (f(h / 2) - f(-h / 2)) / h
        fd = (4 * d2 - d1) / 3
        set_inputs(uins, base_now, udirs, 0.0)
        m.response()
        scale = max(abs(an), abs(fd), 1e-3 * sum(float(np.sum(np.abs(dense(s.state)))) for s in outs) + 1e-12)
        return an, fd, abs(an - fd) / scale

    if seed_kind == 'subsets':
        # every non-empty subset of the outputs is seeded (the others stay None) in ONE history on one instance that
        # contains every ordered pair of subsets (reset() between the passes; compare() re-evaluates the response in
        # between as well): every pass must give the adjoint for ITS seeds, whatever was seeded before
        subs = output_subsets(len(outs))
        worst = dict(ok=True, an=0.0, fd=0.0, err=0.0, seed_kind='subsets', dyad_seed=dyad_seed)
        prev = None
        for k in pair_covering_sequence(len(subs)):
            S = subs[k]
            full = make_seeds(outs, rng, pym, 'full')
            seeds = install([w if j in S else None for j, w in enumerate(full)])
            m.sensitivity()
            an, fd, err = compare(seeds, ubase)
            if err > worst['err']:
                worst = dict(ok=bool(err <= entry['tol']), an=an, fd=fd, err=err, dyad_seed=dyad_seed,
                             seed_kind=f'subsets: outputs {sorted(S)} seeded (others None) after a pass that seeded {prev}, reset() in between')
            if not worst['ok']:
                return worst
            prev = sorted(S)
            m.reset()
        return worst
    if not reseed:
        seeds = install(make_seeds(outs, rng, pym, seed_kind))
        m.sensitivity()
        an, fd, err = compare(seeds, ubase)
        return dict(ok=bool(err <= entry['tol']), an=an, fd=fd, err=err, seed_kind=seed_kind, dyad_seed=dyad_seed)
    # ---- pass 1: seed on a column subset, backpropagate, reset
    ma, mb = _column_masks(outs, rng)
    full = make_seeds(outs, rng, pym, 'full')
    mul = lambda w, k: (w * k if np.ndim(w) else (w if float(np.max(k)) > 0 else None))
    s1 = install([mul(w, k) for w, k in zip(full, ma)])
    m.sensitivity()
    m.reset()
    # ---- pass 2: complementary support, same response
    full2 = make_seeds(outs, rng, pym, 'full')
    s2 = install([mul(w, k) for w, k in zip(full2, mb)])
    if all(w is None for w in s2):
        s2 = install(full2)
    m.sensitivity()
    an, fd, err = compare(s2, ubase)
    if err > entry['tol']:
        return dict(ok=False, an=an, fd=fd, err=err, seed_kind='reseed:second sensitivity() after reset, complementary support', dyad_seed=dyad_seed)
    # ---- pass 3: new design, response, a seed on yet another support
    m.reset()
    base3 = []
    for x, v in zip(ubase, udirs):
        if v is None:
            base3.append(x)
        elif sps.issparse(x):
            base3.append((x + 0.05 * v).asformat(x.format))
        else:
            base3.append(x + 0.05 * v)
    set_inputs(uins, base3, udirs, 0.0)
    m.response()
    if entry['freeze']:
        entry['freeze'](m)
    ma3, mb3 = _column_masks(outs, rng)
    full3 = make_seeds(outs, rng, pym, 'full')
    s3 = install([mul(w, k) for w, k in zip(full3, mb3)])
    if all(w is None for w in s3):
        s3 = install(full3)
    m.sensitivity()
    an, fd, err = compare(s3, base3)
    return dict(ok=bool(err <= entry['tol']), an=an, fd=fd, err=err,
                seed_kind='reseed:new design, response(), new support', dyad_seed=dyad_seed)


def snapshot(x):
    if x is None:
        return None
    if sps.issparse(x):
        return ('sp', x.toarray().copy())
    if hasattr(x, 'todense') and not isinstance(x, np.ndarray):
        return ('dy', np.array(x.todense()))
    return ('ar', np.array(x, copy=True))


def same(a, b):
    if a is None or b is None:
        return a is None and b is None
    return a[0] == b[0] and a[1].shape == b[1].shape and np.array_equal(a[1], b[1])


def close(a, b, tol=1e-9):
    a = 0.0 if a is None else a[1]
    b = 0.0 if b is None else b[1]
    a, b = np.asarray(a), np.asarray(b)
    sc = max(float(np.max(np.abs(a), initial=0)), float(np.max(np.abs(b), initial=0)), 1e-300)
    if a.shape != b.shape and a.ndim and b.ndim:
        return False
    return bool(np.max(np.abs(a - b), initial=0) <= tol * sc)


def seed_change_detail(before, outs):
    """what happened to the seeds: number of changed entries and whether every changed entry is now exactly zero"""
    nchg, only_zeroed = 0, True
    for a, s in zip(before, outs):
        b = snapshot(s.sensitivity)
        if a is None or b is None or a[1].shape != b[1].shape:
            return dict(changed='type or shape', only_zeroed=False)
        chg = a[1] != b[1]
        nchg += int(np.sum(chg))
        only_zeroed = only_zeroed and bool(np.all(b[1][chg] == 0))
    return dict(changed=nchg, only_zeroed=only_zeroed)


def _sens_snap(sig):
    return [snapshot(s.sensitivity) for s in sig]


def seed_layout_check(entry, pym, w_ref, g_ref):
    """the caller-owned seed arrays in every memory layout (1-D, C, Fortran, strided / negative-stride / transposed
    views): the added sensitivities are those of the contiguous copy (g_ref), the seed array AND the buffer it lives in
    are unchanged after one and after two sensitivity() calls, and the second call adds the same contribution"""
    fails = []
    lay = [seed_layouts(w) if w is not None else {} for w in w_ref]
    labels = sorted(set(k for d in lay for k in d))
    for lab in labels:
        m, ins, outs = entry['build']()
        m.response()
        if entry['freeze']:
            entry['freeze'](m)
        owners = []
        for s, w, d in zip(outs, w_ref, lay):
            if lab in d:
                arr, own = d[lab]
                owners.append((own, own.copy()))
                s.sensitivity = arr
            else:
                s.sensitivity = _c(w)
        sd0 = _sens_snap(outs)
        m.sensitivity()
        g1 = _sens_snap(ins)
        for a, b in zip(g_ref, g1):
            if (a is None) != (b is None) or (a is not None and not close(a, b, entry.get('xtol', 1e-9))):
                fails.append(('the added sensitivities are a function of the seed values (independent of the memory layout of the seed array)', dict(layout=lab)))
                break
        m.sensitivity()
        g2 = _sens_snap(ins)
        for a, b in zip(g1, g2):
            if a is None and b is None:
                continue
            if a is None or b is None or not close(('ar', 2 * a[1]), b):
                fails.append(('second sensitivity() adds the same contribution', dict(seed_layout=lab)))
                break
        if any(not same(a, snapshot(s.sensitivity)) for a, s in zip(sd0, outs)) or any(not np.array_equal(o, o0) for o, o0 in owners):
            fails.append(('sensitivity() writes only sensitivities of the module inputs (seed unchanged)', dict(seed_layout=lab, **seed_change_detail(sd0, outs))))
        if fails:
            break
    return fails


def seed_support_sequences(entry, pym, rng):
    """modules with several outputs: every non-empty subset of outputs seeded (the others None), in one history on ONE
    instance that contains every ordered pair of subsets; with reset() between the passes every pass must add exactly
    what a fresh instance adds for the same seeds (the sensitivities are a function of the CURRENT seeds, None = zero),
    an occasional response() in between changes nothing, and without reset the contributions add up"""
    fails = []
    nout = entry.get('nout', 1)
    if nout < 2:
        return fails
    tol = max(entry.get('xtol', 1e-9), 1e-9)
    subs = output_subsets(nout)
    m0, ins0, outs0 = entry['build']()
    m0.response()
    full = make_seeds(outs0, rng, pym)

    def seed(outs, S, fac=1.0):
        for j, s in enumerate(outs):
            s.sensitivity = (_c(full[j]) * fac) if j in S else None
    ref = {}
    for S in subs:                       # references: a fresh instance per subset
        m, ins, outs = entry['build']()
        m.response()
        seed(outs, S)
        m.sensitivity()
        ref[S] = _sens_snap(ins)

    def agree(a, b):
        return all(((x is None and y is None) or close(x, y, tol)) for x, y in zip(a, b))
    m, ins, outs = entry['build']()
    m.response()
    prev = None
    for step, k in enumerate(pair_covering_sequence(len(subs))):
        S = subs[k]
        seed(outs, S)
        m.sensitivity()
        if not agree(ref[S], _sens_snap(ins)):
            fails.append(('the added sensitivities are a function of the current seeds only (an unseeded output counts as zero)',
                          dict(seeded_outputs=sorted(S), previous_pass_seeded=prev, step=step)))
            return fails
        prev = sorted(S)
        m.reset()
        if step % 4 == 3:
            m.response()
    # without reset: the output seeds are replaced, the input sensitivities accumulate
    acc = None
    for step, k in enumerate(pair_covering_sequence(len(subs))[:5]):
        S = subs[k]
        fac = float(step + 1)
        seed(outs, S, fac)
        m.sensitivity()
        add = [None if r is None else ('ar', fac * r[1]) for r in ref[S]]
        acc = add if acc is None else [(y if x is None else x if y is None else ('ar', x[1] + y[1])) for x, y in zip(acc, add)]
        if not agree(acc, _sens_snap(ins)):
            fails.append(('sensitivity() calls without reset add up: sum of the contributions of every pass (seeds replaced, None = zero)',
                          dict(seeded_outputs=sorted(S), step=step)))
            return fails
    return fails


class KnownFirstVisit(Exception):
    """an exception of a documented known finding, raised on the first visit of a seed support after a response()"""


def _is_sparse_eig(entry):
    return entry['name'] == 'EigenSolve' and 'sparse' in str(entry['cfg'].get('kind', ''))


def support_family(k):
    """deliberately chosen index supports over an axis of length k: first, last, even and odd positions, all but the first, all"""
    fam = [[0], [k - 1], list(range(0, k, 2)), list(range(1, k, 2)), list(range(1, k)), list(range(k))]
    out = []
    for f in fam:
        if f and f not in out:
            out.append(f)
    return out


def column_support_sequences(entry, pym, rng, variant=0):
    """seeds whose support along the LAST axis of every array output (columns of a matrix of eigenvectors / right-hand
    sides, entries of a vector of eigenvalues) differs between successive sensitivity() calls that follow ONE response():
    one history on ONE instance in which every ordered pair of supports of `support_family` occurs in consecutive calls;
    with reset() between the passes every pass must add what a FRESH instance adds for the same seeds, an occasional
    response() in between changes nothing; without reset the contributions add up; then every support is seeded once (so
    that whatever the module keeps per column exists), the inputs move to a second design, response(), and passes with
    different supports must again give what a fresh instance at the second design gives.
    variant 0: every output seeded (restricted to the support); variant 1: only the last array output is seeded, the
    others are None.
    An exception counts as a failure unless it is the text of known finding K02 (SuperLU: Factor is exactly singular) of a
    sparse EigenSolve raised while a column is visited for the FIRST time after a response() (only then A - lam_i*B is
    factorised on the unchanged library): raises KnownFirstVisit, the caller retries with a new instance."""
    fails = []
    nout = entry.get('nout', 1)
    tol = max(entry.get('xtol', 1e-9), 1e-9)
    m0, ins0, outs0 = entry['build']()
    m0.response()
    shapes = [np.shape(dense(s.state)) for s in outs0]
    maskable = [j for j, shp in enumerate(shapes) if len(shp) >= 1 and shp[-1] >= 2 and int(np.prod(shp)) <= 4096]
    if not maskable:
        return fails
    full = make_seeds(outs0, rng, pym)
    kmax = max(shapes[j][-1] for j in maskable)
    fam = support_family(kmax)
    jlast = maskable[-1]

    def seeds_for(S, fac=1.0):
        ws = []
        for j in range(nout):
            if variant == 1 and j != jlast:
                ws.append(None)
            elif j in maskable:
                k = shapes[j][-1]
                idx = sorted(set(min(i, k - 1) for i in S)) if kmax != k else S
                w = np.zeros_like(np.asarray(full[j]))
                w[..., idx] = np.asarray(full[j])[..., idx]
                ws.append(w * fac)
            else:
                ws.append(_c(full[j]) * fac)
        return ws

    def install(outs, ws):
        for s, w in zip(outs, ws):
            s.sensitivity = None if w is None else _c(w)
    visited = set()

    def call(fn, S, what):
        try:
            return fn()
        except Exception as ex:  # noqa
            first = not set(S) <= visited
            if _is_sparse_eig(entry) and first and 'exactly singular' in str(ex):
                raise KnownFirstVisit(str(ex))
            fails.append(('sensitivity() completes in a history of seed supports as it does on a fresh instance',
                          dict(step=what, support=list(S), first_visit_after_response=first, error=f'{type(ex).__name__}: {str(ex)[:300]}')))
            return 'failed'

    def fresh_refs(inputs):
        ref = {}
        for fi, S in enumerate(fam):
            m, ins, outs = entry['build']()
            if inputs is not None:
                for s_, x_ in zip(ins, inputs):
                    if x_ is not None:
                        s_.state = _c(x_)
            m.response()
            ref['states'] = [snapshot(s_.state) for s_ in outs]
            install(outs, seeds_for(S))
            try:
                m.sensitivity()
            except Exception as ex:  # noqa
                if _is_sparse_eig(entry) and 'exactly singular' in str(ex):
                    raise KnownFirstVisit(str(ex))
                raise
            ref[fi] = _sens_snap(ins)
        return ref

    def agree(a, b):
        return all(((x is None and y is None) or close(x, y, tol)) for x, y in zip(a, b))
    ref = fresh_refs(None)
    m, ins, outs = entry['build']()
    m.response()
    prev = None
    seq = pair_covering_sequence(len(fam))
    for step, fi in enumerate(seq):
        S = fam[fi]
        install(outs, seeds_for(S))
        if call(m.sensitivity, S, f'pass {step} (reset between passes)') == 'failed':
            return fails
        visited.update(S)
        if not agree(ref[fi], _sens_snap(ins)):
            fails.append(('the added sensitivities are a function of the current seeds only, whatever columns were seeded in earlier calls',
                          dict(support=S, previous_support=prev, step=step, variant=variant)))
            return fails
        prev = S
        m.reset()
        if step % 5 == 4:
            m.response()
            visited.clear()
    # without reset: the output seeds are replaced, the input sensitivities accumulate
    m.response()
    visited.clear()
    acc = None
    for step, fi in enumerate(seq[:6]):
        S = fam[fi]
        fac = float(step + 1)
        install(outs, seeds_for(S, fac))
        if call(m.sensitivity, S, f'pass {step} (no reset)') == 'failed':
            return fails
        visited.update(S)
        add = [None if r is None else ('ar', fac * r[1]) for r in ref[fi]]
        acc = add if acc is None else [(y if x is None else x if y is None else ('ar', x[1] + y[1])) for x, y in zip(acc, add)]
        if not agree(acc, _sens_snap(ins)):
            fails.append(('sensitivity() calls without reset add up, also when the seeds of successive calls live on different columns',
                          dict(support=S, step=step, variant=variant)))
            return fails
    m.reset()
    # second design: whatever was stored per column at the first design must not be used at the second one
    install(outs, seeds_for(fam[-1]))
    if call(m.sensitivity, fam[-1], 'all columns at the first design') == 'failed':
        return fails
    m.reset()
    base = [_c(x) for x in entry['ins']]
    dirs = entry['dirs'](rng)
    rep = entry.get('rep_of') or list(range(len(base)))
    moved = []
    for i, (x, v) in enumerate(zip(base, dirs)):
        if rep[i] != i:
            moved.append(None)
        elif v is None:
            moved.append(x)
        elif sps.issparse(x):
            moved.append((x + 0.03 * v).asformat(x.format))
        else:
            moved.append(x + 0.03 * v)
    try:
        ref2 = fresh_refs(moved)
    except KnownFirstVisit:
        raise
    except Exception:  # noqa   the second point is not admissible for this configuration: nothing to compare
        return fails
    for s_, x_ in zip(ins, moved):
        if x_ is not None:
            s_.state = _c(x_)
    m.response()
    visited.clear()
    if not agree(ref2['states'], [snapshot(s_.state) for s_ in outs]):
        # the module remembers something of its first evaluation by design (e.g. Scaling fixes its factor at the first
        # response): a fresh instance at the second design is no reference for it
        return fails
    order = list(range(len(fam)))
    if variant == 1:
        order = order[::-1]
    for step, fi in enumerate(order + order[:2]):
        S = fam[fi]
        install(outs, seeds_for(S))
        if call(m.sensitivity, S, f'second design, pass {step}') == 'failed':
            return fails
        visited.update(S)
        if not agree(ref2[fi], _sens_snap(ins)):
            fails.append(('after the inputs changed and response() ran, the added sensitivities are those of a fresh instance at the new inputs',
                          dict(support=S, step=step, variant=variant)))
            return fails
        m.reset()
    return fails



def protocol_check(entry, pym, rng):
    """C04 clauses on the implementation. Returns list of (predicate, detail) failures."""
    fails = []
    coef_a, coef_b = int(rng.integers(-3, 4)) or 2, int(rng.integers(-3, 4)) or -1

    def run(seedsets, twice=False):
        m, ins, outs = entry['build']()
        st_in0 = [snapshot(s.state) for s in ins]
        m.response()
        if [not same(a, snapshot(s.state)) for a, s in zip(st_in0, ins)].count(True):
            fails.append(('response() changes an input state', None))
        if any(s.sensitivity is not None for s in ins + outs):
            fails.append(('response() sets a sensitivity', None))
        if entry['freeze']:
            entry['freeze'](m)
        res = []
        for seeds in seedsets:
            for s, w in zip(outs, seeds):
                s.sensitivity = _c(w)
            st0 = [snapshot(s.state) for s in ins + outs]
            sd0 = [snapshot(s.sensitivity) for s in outs]
            m.sensitivity()
            g1 = [snapshot(s.sensitivity) for s in ins]
            if any(not same(a, snapshot(s.state)) for a, s in zip(st0, ins + outs)):
                fails.append(('sensitivity() changes a state', None))
            if any(not same(a, snapshot(s.sensitivity)) for a, s in zip(sd0, outs)):
                fails.append(('sensitivity() writes only sensitivities of the module inputs (seed unchanged)', seed_change_detail(sd0, outs)))
            if twice:
                m.sensitivity()
                g2 = [snapshot(s.sensitivity) for s in ins]
                if any(not same(a, snapshot(s.sensitivity)) for a, s in zip(sd0, outs)):
                    fails.append(('sensitivity() writes only sensitivities of the module inputs (seed unchanged)', dict(after='second call', **seed_change_detail(sd0, outs))))
                for a, b in zip(g1, g2):
                    if a is None and b is None:
                        continue
                    if a is None or b is None or not close(('ar', 2 * a[1]), b):
                        fails.append(('second sensitivity() adds the same contribution', dict(first=str(a)[:200], second=str(b)[:200])))
                        break
            m.reset()
            if any(not same(a, snapshot(s.state)) for a, s in zip(st0, ins + outs)):
                fails.append(('reset() changes a state', None))
            left = [s.sensitivity for s in ins + outs]
            if any(x is not None and np.any(dense(x.todense() if isinstance(x, pym.DyadCarrier) else x) != 0) for x in left):
                fails.append(('reset() leaves a sensitivity', None))
            res.append(g1)
        return res, outs
    # build once to learn output shapes
    m, ins, outs = entry['build']()
    m.response()
    w1, w2 = make_seeds(outs, rng, pym), make_seeds(outs, rng, pym)
    w3 = [coef_a * a + coef_b * b for a, b in zip(w1, w2)]
    (g1, g2, g3), _ = run([w1, w2, w3])
    for a, b, c in zip(g1, g2, g3):
        za = 0.0 if a is None else a[1]
        zb = 0.0 if b is None else b[1]
        if c is None and a is None and b is None:
            continue
        if not close(('ar', coef_a * za + coef_b * zb), c, 1e-8):
            fails.append(('seed linearity: sens(a*w1+b*w2) = a*sens(w1)+b*sens(w2)', dict(a=coef_a, b=coef_b)))
            break
    # homogeneity for very small seeds: sens(eps*w1) = eps*sens(w1)
    eps = 1e-12
    (g4,), _ = run([[eps * a for a in w1]])
    for a, c in zip(g1, g4):
        if a is None and c is None:
            continue
        za = 0.0 if a is None else a[1]
        if not close(('ar', eps * za), c, 1e-6):
            fails.append(('seed linearity: sens(eps*w) = eps*sens(w) for a tiny factor', dict(eps=eps)))
            break
    run([w1], twice=True)
    fails.extend(seed_layout_check(entry, pym, w1, g1))
    fails.extend(seed_support_sequences(entry, pym, rng))
    for variant in ((0, 1) if entry.get('nout', 1) > 1 else (0,)):
        fails.extend(column_support_sequences(entry, pym, rng, variant))
    # seeds are not modified by sensitivity() in a way that changes a repeated call (covered above) and
    # unseeded sensitivity() is a no-op
    m, ins, outs = entry['build']()
    m.response()
    st0 = [snapshot(s.state) for s in ins + outs]
    m.sensitivity()
    if any(s.sensitivity is not None for s in ins) or any(not same(a, snapshot(s.state)) for a, s in zip(st0, ins + outs)):
        fails.append(('sensitivity() without any seed changes nothing', None))
    return fails
