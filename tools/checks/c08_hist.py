"""C08 — histories of several Assemble* modules in one process (shared DomainDefinition objects, one shared input
signal), dtype kinds of every operand, every accepted matrix_type, aliasing of returned matrices.

A scenario is a JSON-able dict
    dict(kind='scenario', name=..., grid=[a, b, c], sizes=[hx, hy, hz], exact=bool, ops=[op, ...])
    op = dict(op='new', cls='general'|'stiffness'|'mass'|'poisson', dom=0|1, ek=kind, elmat=[[num]], eorder='C'|'F',
              share_elmat=None|k, kw={...}, bc=None|[..], bc_form='list'|'array'|'array32', bcd=None|[kind, num],
              const=None|dict(fmt=..., k=kind, trip=[[r, c, num]]), mt=name)
       | dict(op='setx', k=kind, vals=[num], layout='c'|'strided')
       | dict(op='resp', i=k)
       | dict(op='scribble', r=k)          # the caller overwrites the values of the k-th returned matrix
    num = real number or [re, im]; kind in {'int', 'float', 'complex'}
It is run against the implementation (run_scenario), evaluated by the Coq history model Model/AsmHist.v
(coq_scenario) and by a numpy statement of the property (oracle_scenario)."""
from fractions import Fraction
import numpy as np
from vlib import zl, ql, zlit, qlit, blit

KCODE = {'int': 1, 'float': 2, 'complex': 3}
NPDT = {'int': np.int64, 'float': np.float64, 'complex': np.complex128}
KINDS = ('int', 'float', 'complex')
SPARSE_MT = ('csc_matrix', 'csr_matrix', 'coo_matrix', 'bsr_matrix', 'csc_array', 'csr_array', 'coo_array', 'bsr_array')
ALL_MT = SPARSE_MT + ('dense_fn',)

HEADER_HIST = '''
From Pymoto Require Import Base.CplxNum Model.AsmHist.
Definition CK := cplx bigQ.
Definition cq (re im : Q) : CK := Cx (bq re) (bq im).
Definition rv (l : list Q) : list CK := map (fun q => cq q 0) l.
Definition cv (l : list (Q * Q)) : list CK := map (fun p => cq (fst p) (snd p)) l.
Definition rm (M : list (list Q)) : list (list CK) := map rv M.
Definition cm (M : list (list (Q * Q))) : list (list CK) := map cv M.
Definition ct (T : list (Z * Z * Q * Q)) : list (Z * Z * CK) :=
  map (fun t => match t with (r, c, re, im) => (r, c, cq re im) end) T.
(* np.max of a complex array: lexicographic (real part first) *)
Definition ck_leb (a b : CK) : bool :=
  match BigQ.compare (c_re a) (c_re b) with Lt => true | Gt => false | Eq => bq_leb (c_im a) (c_im b) end.
Definition cbcd (o : option CK) (M : list (list CK)) : CK :=
  match o with Some v => v
  | None => match concat M with [] => cq 0 0 | a :: t => fold_left (fun m v => if ck_leb m v then v else m) t a end end.
Definition mko (e : list (list CK)) (bc : option (list Z)) (bcd : option CK) (cst : list (Z * Z * CK)) : aopts CK :=
  {| ao_elmat := e; ao_bc := bc; ao_bcd := cbcd bcd e; ao_cst := cst |}.
Definition re_t (T : list (Z * Z * CK)) : list (Z * Z * bigQ) := map (fun t => match t with (r, c, v) => (r, c, c_re v) end) T.
Definition im_t (T : list (Z * Z * CK)) : list (Z * Z * bigQ) := map (fun t => match t with (r, c, v) => (r, c, c_im v) end) T.
(* one observed response: (n, strict, tol, canonical real parts, canonical imaginary parts); n = -1: the call raised;
   n = -2: this response is compared in another check of the same history (large histories are split) *)
Definition out_ok (o : option (list (Z * Z * CK))) (ob : Z * bool * Q * list (Z * Q) * list (Z * Q)) : bool :=
  match ob with (n, strict, tol, kre, kim) =>
    if Z.eqb n (-2) then true else
    match o with
    | Some T => Z.leb 0 n && sp_check tol strict n (re_t T) kre && sp_check tol strict n (im_t T) kim
    | None => false
    end end.
Fixpoint hist_ok (outs : list (option (list (Z * Z * CK)))) (obs : list (Z * bool * Q * list (Z * Q) * list (Z * Q))) : bool :=
  match outs, obs with
  | [], [] => true
  | o :: t, b :: u => out_ok o b && hist_ok t u
  | _, _ => false
  end.
Definition kchk (t : Z * Z * Z * Z * Z) : bool :=
  match t with (ke, kx, bck, kc, code) =>
    kind_obs (asm_out_kind (kof (Z.to_nat ke)) (kof (Z.to_nat kx)) (okof (Z.to_nat bck)) (okof (Z.to_nat kc))) (Z.to_nat code) end.
'''


def fr(x):
    return Fraction(float(x))


def cnum(v):
    if isinstance(v, (list, tuple)):
        return complex(v[0], v[1])
    return v


def num_json(z):
    z = complex(z)
    return [z.real, z.imag] if z.imag != 0 else z.real


def arr_of(vals, kind):
    return np.array([cnum(v) for v in vals], dtype=NPDT[kind])


def mat_of(rows, kind, order='C'):
    M = np.array([[cnum(v) for v in r] for r in rows], dtype=NPDT[kind])
    return np.asfortranarray(M) if order == 'F' else np.ascontiguousarray(M)


def kind_of_dtype(dt):
    dt = np.dtype(dt)
    if dt.kind in 'iu':
        return 1
    if dt == np.float64:
        return 2
    if dt == np.complex128:
        return 3
    if dt.kind == 'b':
        return 0
    return 9


def dense_fn(args, shape=None):
    """a user-supplied matrix_type obeying the documented constructor protocol: dense result, duplicates summed"""
    v, (r, c) = args
    A = np.zeros(shape, dtype=np.asarray(v).dtype)
    np.add.at(A, (np.asarray(r).astype(int), np.asarray(c).astype(int)), v)
    return A


def canon_c(A, n):
    """-> (items [(key, complex)], is_sparse); sparse: all stored entries, duplicates summed; dense: non-zeros"""
    import scipy.sparse as sp
    if sp.issparse(A):
        c = A.tocoo(copy=True)
        c.sum_duplicates()
        return sorted((int(r) * n + int(cc), complex(v)) for r, cc, v in zip(c.row, c.col, c.data)), True
    D = np.asarray(A)
    return [(i * n + j, complex(D[i, j])) for i in range(n) for j in range(n) if D[i, j] != 0], False


def make_const(sp, spec, n):
    if spec is None:
        return None
    rows = [int(t[0]) for t in spec['trip']]
    cols = [int(t[1]) for t in spec['trip']]
    vals = np.array([cnum(t[2]) for t in spec['trip']], dtype=NPDT[spec['k']])
    C = sp.coo_matrix((vals, (rows, cols)), shape=(n, n))
    fmt = spec['fmt']
    if fmt == 'dense':
        return np.asarray(C.toarray())
    if fmt == 'coo_array':
        return sp.coo_array(C)
    return C.asformat(fmt)


def snapshot(obj):
    import scipy.sparse as sp
    if obj is None:
        return None
    if sp.issparse(obj):
        c = obj.tocoo(copy=True)
        return ('sp', obj.dtype.str, c.row.copy(), c.col.copy(), c.data.copy())
    if isinstance(obj, np.ndarray):
        return ('nd', obj.dtype.str, obj.shape, obj.strides, obj.copy())
    return ('py', repr(obj))


def same_snapshot(a, b):
    if a is None or b is None:
        return a is b
    if a[0] != b[0] or a[1] != b[1]:
        return False
    if a[0] == 'sp':
        return all(np.array_equal(p, q) for p, q in zip(a[2:], b[2:]))
    if a[0] == 'nd':
        return a[2] == b[2] and a[3] == b[3] and np.array_equal(a[4], b[4])
    return True


def run_scenario(pym, sp, sc):
    """-> dict(mods=[...], resps=[...], owned=[...]) ; nothing raises"""
    a, b, cz = sc['grid']
    doms = [pym.DomainDefinition(a, b, cz, *sc['sizes']), pym.DomainDefinition(a, b, cz, *sc['sizes'])]
    sx = pym.Signal('x')
    mods, resps, owned = [], [], []
    cur = dict(k=None, vals=None, arr=None)
    for op in sc['ops']:
        what = op['op']
        if what == 'setx':
            arr = arr_of(op['vals'], op['k'])
            if op.get('layout') == 'strided':
                base = np.zeros(2 * arr.size, dtype=arr.dtype)
                base[::2] = arr
                arr = base[::2]
            sx.state = arr
            cur = dict(k=op['k'], vals=list(op['vals']), arr=arr)
            owned.append(('x', arr, snapshot(arr)))
        elif what == 'new':
            rec = dict(op=op, m=None, err=None)
            try:
                d = doms[op.get('dom', 0)]
                kwargs = {}
                bc = op.get('bc')
                if bc is not None:
                    form = op.get('bc_form', 'list')
                    bcobj = list(bc) if form == 'list' else np.array(bc, dtype=np.int32 if form == 'array32' else np.int64)
                    kwargs['bc'] = bcobj
                    if form != 'list':
                        owned.append(('bc', bcobj, snapshot(bcobj)))
                if op.get('bcd') is not None:
                    k, v = op['bcd']
                    kwargs['bcdiagval'] = {'int': int, 'float': float, 'complex': complex}[k](cnum(v))
                kwargs['matrix_type'] = dense_fn if op['mt'] == 'dense_fn' else getattr(sp, op['mt'])
                cls = op['cls']
                if cls == 'general':
                    if op.get('share_elmat') is not None:
                        Ke = mods[op['share_elmat']]['Ke_obj']
                    else:
                        Ke = mat_of(op['elmat'], op['ek'], op.get('eorder', 'C'))
                    ndof = Ke.shape[-1] // d.elemnodes
                elif cls == 'stiffness':
                    ndof = d.dim
                elif cls == 'mass':
                    ndof = op['kw']['ndof']
                else:
                    ndof = 1
                n = ndof * d.nnodes
                C = make_const(sp, op.get('const'), n)
                if C is not None:
                    kwargs['add_constant'] = C
                    owned.append(('add_constant', C, snapshot(C)))
                if cls == 'general':
                    m = pym.AssembleGeneral(sx, domain=d, element_matrix=Ke, **kwargs)
                    rec['Ke_obj'] = Ke
                    owned.append(('element_matrix', Ke, snapshot(Ke)))
                elif cls == 'stiffness':
                    kw = op['kw']
                    m = pym.AssembleStiffness(sx, domain=d, e_modulus=cnum(kw['E']), poisson_ratio=kw['nu'], plane=kw['plane'], **kwargs)
                elif cls == 'mass':
                    m = pym.AssembleMass(sx, domain=d, material_property=op['kw']['mp'], ndof=op['kw']['ndof'], **kwargs)
                else:
                    m = pym.AssemblePoisson(sx, domain=d, material_property=op['kw']['mp'], **kwargs)
                rec.update(m=m, n=n, ndof=ndof, Ke=np.array(m.elmat), ke=kind_of_dtype(np.asarray(m.elmat).dtype))
            except Exception as e:  # noqa
                rec['err'] = type(e).__name__ + ': ' + str(e)[:200]
            mods.append(rec)
        elif what == 'resp':
            rec = dict(i=op['i'], x=dict(cur), err=None, A=None, scribbled=False)
            mr = mods[op['i']] if op['i'] < len(mods) else None
            try:
                if mr is None or mr['m'] is None:
                    raise RuntimeError('module was not constructed: ' + str(mr and mr['err']))
                mr['m'].response()
                A = mr['m'].sig_out[0].state
                items, is_sparse = canon_c(A, mr['n'])
                rec.update(A=A, items=items, is_sparse=is_sparse, code=kind_of_dtype(A.dtype), tname=type(A).__name__,
                           shape=tuple(A.shape))
            except Exception as e:  # noqa
                rec['err'] = type(e).__name__ + ': ' + str(e)[:200]
            resps.append(rec)
        elif what == 'scribble':
            r = resps[op['r']] if op['r'] < len(resps) else None
            if r is not None and r['A'] is not None:
                A = r['A']
                if sp.issparse(A):
                    A.data[...] = 777
                else:
                    np.asarray(A)[...] = 777
                r['scribbled'] = True
    return dict(mods=mods, resps=resps, owned=owned)


# ------------------------------------------------------------------------------------------------ Coq side
def qnum(v):
    z = complex(cnum(v))
    return f'(cq {qlit(fr(z.real))} {qlit(fr(z.imag))})'


def qmat_c(M):
    M = np.asarray(M)
    if np.iscomplexobj(M):
        return '(cm [' + '; '.join('[' + '; '.join(f'({qlit(fr(v.real))}, {qlit(fr(v.imag))})' for v in r) + ']' for r in M) + ']%Q)'
    return '(rm ' + ql([[fr(v) for v in r] for r in M]) + '%Q)'


def qvec_c(vals, kind):
    if kind == 'complex':
        return '(cv [' + '; '.join(f'({qlit(fr(complex(cnum(v)).real))}, {qlit(fr(complex(cnum(v)).imag))})' for v in vals) + ']%Q)'
    return '(rv ' + ql([fr(v) for v in vals]) + '%Q)'


def kvq(items):
    return '[' + '; '.join(f'({zlit(k)}, {qlit(v)}%Q)' for k, v in items) + ']'


SKIP = '((-2)%Z, false, 0%Q, [], [])'


def coq_scenario(sc, run, budget=110000):
    """-> (list of values checks, kinds check) as Coq boolean expressions; a history whose observations are larger than
    `budget` characters is compared in several checks (same operations, disjoint slices of the observed responses)"""
    a, b, cz = sc['grid']
    ops, obs, kinds = [], [], []
    mi = 0
    ri = 0
    for op in sc['ops']:
        what = op['op']
        if what == 'setx':
            ops.append(f'ASetX {qvec_c(op["vals"], op["k"])}')
        elif what == 'new':
            mr = run['mods'][mi]
            mi += 1
            if mr['m'] is None:
                # construction raised: the model has a module here; every response of it is reported as an error observation
                Ke = mat_of(op['elmat'], op['ek']) if op.get('elmat') is not None else np.zeros((1, 1))
            else:
                Ke = mr['Ke']
            bcq = 'None' if op.get('bc') is None else f'(Some {zl(op["bc"])})'
            if op['cls'] == 'mass' and op.get('bcd') is None:
                bcdq = '(Some (cq 0 0))'
            else:
                bcdq = 'None' if op.get('bcd') is None else f'(Some {qnum(op["bcd"][1])})'
            cst = op.get('const')
            cstq = '[]' if cst is None else '[' + '; '.join(
                f'({zlit(int(t[0]))}, {zlit(int(t[1]))}, {qlit(fr(complex(cnum(t[2])).real))}%Q, {qlit(fr(complex(cnum(t[2])).imag))}%Q)'
                for t in cst['trip']) + ']'
            ops.append(f'ANew (mko {qmat_c(Ke)} {bcq} {bcdq} (ct {cstq}))')
        elif what == 'resp':
            r = run['resps'][ri]
            ri += 1
            ops.append(f'AResp {op["i"]}%nat')
            mr = run['mods'][op['i']]
            if r['err'] is not None:
                obs.append('((-1)%Z, false, 0%Q, [], [])')
                continue
            items = r['items']
            scale = max([1.0] + [abs(v) for _, v in items])
            tol = '0%Q' if sc.get('exact') else f'(rel {qlit(fr(scale))}%Q)'
            mop = mr['op']
            strict = r['is_sparse'] and mop.get('const') is None and not mop['mt'].startswith('bsr')
            if not strict:
                # block formats store explicit zeros inside their blocks, sparse + sparse drops cancelled entries: compare values only
                items = [(k, v) for k, v in items if v != 0]
            obs.append(f'({mr["n"]}%Z, {blit(strict)}, {tol}, {kvq([(k, fr(v.real)) for k, v in items])}, '
                       f'{kvq([(k, fr(v.imag)) for k, v in items])})')
            bck = 0 if mop.get('bc') is None else (KCODE[mop['bcd'][0]] if mop.get('bcd') is not None else
                                                   (2 if mop['cls'] == 'mass' else mr['ke']))
            kc = 0 if mop.get('const') is None else KCODE[mop['const']['k']]
            kinds.append(f'({mr["ke"]}, {KCODE[r["x"]["k"]]}, {bck}, {kc}, {r["code"]})%Z')
    g = f'(G {a} {b} {cz})'
    slices, cur, size = [], [], 0
    for k, o in enumerate(obs):
        if cur and size + len(o) > budget:
            slices.append(cur)
            cur, size = [], 0
        cur.append(k)
        size += len(o)
    slices.append(cur)
    vals = []
    for sl in slices:
        keep = set(sl)
        vals.append(f'hist_ok (arun {g} astate0 [' + '; '.join(ops) + ']) [' + '; '.join(o if k in keep else SKIP for k, o in enumerate(obs)) + ']')
    kq = 'forallb kchk [' + '; '.join(kinds) + ']'
    return vals, kq


# ------------------------------------------------------------------------------------------------ numpy statement
def dense_ref(grid, ndof, Ke, x, bc, bcd, const):
    a, b, cz = grid
    dim = 2 if cz == 0 else 3
    n = ndof * (a + 1) * (b + 1) * (cz + 1)
    ref = np.zeros((n, n), dtype=complex)
    offs = [(0, 0, 0), (1, 0, 0), (0, 1, 0), (1, 1, 0)] + ([(0, 0, 1), (1, 0, 1), (0, 1, 1), (1, 1, 1)] if dim == 3 else [])
    for k in range(max(cz, 1)):
        for j in range(b):
            for i in range(a):
                e = (k * b + j) * a + i
                nodes = [((k + o[2]) * (b + 1) + (j + o[1])) * (a + 1) + (i + o[0]) for o in offs]
                dofs = [nd * ndof + q for nd in nodes for q in range(ndof)]
                ref[np.ix_(dofs, dofs)] += x[e] * Ke
    if bc is not None:
        bcl = [int(q) for q in bc]
        ref[bcl, :] = 0
        ref[:, bcl] = 0
        for q in bcl:
            ref[q, q] += bcd
    for r_, c_, v_ in (const or []):
        ref[int(r_), int(c_)] += cnum(v_)
    return ref


def oracle_scenario(ctx, sc, run, pub):
    """the property and the non-interference demands, in numpy, on the implementation's observations"""
    def bad(site, pred, detail, expected=None, got=None):
        ctx.violation('impl-violates', site, pred, 'several modules / histories', dict(scenario=pub, detail=detail),
                      expected=expected, got=got)
    site_of = {'general': 'AssembleGeneral._response', 'stiffness': 'AssembleStiffness', 'mass': 'AssembleMass', 'poisson': 'AssemblePoisson'}
    for k, mr in enumerate(run['mods']):
        if mr['m'] is None:
            bad(site_of[mr['op']['cls']], 'module with admissible options can be constructed', dict(module=k, error=mr['err']))
    for k, r in enumerate(run['resps']):
        ctx.search_evaluations += 1
        mr = run['mods'][r['i']]
        if mr['m'] is None:
            continue
        mop = mr['op']
        site = site_of[mop['cls']]
        det = dict(response=k, module=r['i'], x=r['x']['vals'], x_kind=r['x']['k'], matrix_type=mop['mt'])
        if r['err'] is not None:
            bad(site, 'response of an admissible history does not raise', dict(det, error=r['err']))
            continue
        Ke = mr['Ke']
        x = arr_of(r['x']['vals'], r['x']['k'])
        if mop.get('bcd') is not None:
            bcd = cnum(mop['bcd'][1])
        elif mop['cls'] == 'mass':
            bcd = 0.0
        else:
            bcd = Ke.ravel()[np.lexsort((Ke.ravel().imag, Ke.ravel().real))[-1]] if np.iscomplexobj(Ke) else np.max(Ke)
        ref = dense_ref(sc['grid'], mr['ndof'], Ke, x, mop.get('bc'), bcd, (mop.get('const') or {}).get('trip'))
        n = mr['n']
        got = np.zeros((n, n), dtype=complex)
        for key, v in r['items']:
            got[key // n, key % n] += v
        scale = max(1.0, float(np.abs(ref).max()))
        if r['shape'] != (n, n):
            bad(site, 'A == mask_bc(sum_e x_e scatter(K_e)) + bcdiagval*I_bc + constant', det, [n, n], list(r['shape']))
        elif np.abs(got - ref).max() > 1e-9 * scale:
            bad(site, 'A == mask_bc(sum_e x_e scatter(K_e)) + bcdiagval*I_bc + constant', det, None, float(np.abs(got - ref).max()))
        need = max([mr['ke'], KCODE[r['x']['k']]] + ([KCODE[mop['bcd'][0]]] if (mop.get('bc') is not None and mop.get('bcd') is not None) else [])
                   + ([KCODE[mop['const']['k']]] if mop.get('const') is not None else []))
        if not (need <= r['code'] <= 3):
            bad(site, 'dtype of the assembled matrix holds the values of every operand', det, need, r['code'])
        # a matrix handed out earlier is a value: later responses (of any module) must not change it
        if not r['scribbled']:
            items2, _ = canon_c(r['A'], n)
            if items2 != r['items'] or kind_of_dtype(r['A'].dtype) != r['code']:
                bad(site, 'returned matrix is not changed by later responses', det)
    for name, obj, snap in run['owned']:
        ctx.search_evaluations += 1
        if not same_snapshot(snap, snapshot(obj)):
            bad('AssembleGeneral', 'caller-owned argument is left unchanged', dict(argument=name))


# ------------------------------------------------------------------------------------------------ scenario generators
def int_elmat(rng, m, kind, sym=None):
    sym = rng.random() < 0.5 if sym is None else sym
    def one():
        M = [[rng.randint(-4, 4) for _ in range(m)] for _ in range(m)]
        if sym:
            M = [[M[i][j] + M[j][i] for j in range(m)] for i in range(m)]
        return M
    R = one()
    if kind == 'int':
        return R
    if kind == 'float':
        return [[v + rng.choice((0, 0.5, 0.25, -0.75)) for v in r] for r in R]
    Im = one()
    return [[[R[i][j] + 0.5, Im[i][j] * 0.5] for j in range(m)] for i in range(m)]


def x_vals(rng, nel, kind):
    if kind == 'int':
        return [rng.choice((0, 1, 1, 2, 3, -1, 5)) for _ in range(nel)]
    if kind == 'float':
        return [rng.choice((0.0, 1.0, 0.5, 1.5, 0.125, 2.25, 0.375)) for _ in range(nel)]
    return [[rng.choice((1.0, 0.5, 1.5, 2.0)), rng.choice((0.5, -0.25, 1.0, 0.125))] for _ in range(nel)]


def bcd_of(kind):
    return {None: None, 'int': ['int', 3], 'float': ['float', 2.5], 'complex': ['complex', [1.5, -2.0]]}[kind]


def const_of(rng, n, kind, fmt):
    if kind is None:
        return None
    k = rng.randint(1, n + 2)
    trip = []
    for _ in range(k):
        v = rng.randint(-4, 4)
        if kind == 'float':
            v = v + 0.5
        elif kind == 'complex':
            v = [v + 0.5, rng.randint(-3, 3) + 0.25]
        trip.append([rng.randrange(n), rng.randrange(n), v])
    return dict(fmt=fmt, k=kind, trip=trip)


def nodes_at(a, b, cz, axis, side):
    """node numbers on one face of the grid"""
    out = []
    for k in range(cz + 1):
        for j in range(b + 1):
            for i in range(a + 1):
                c = (i, j, k)[axis]
                lim = (a, b, cz)[axis]
                if c == (0 if side == 0 else lim):
                    out.append((k * (b + 1) + j) * (a + 1) + i)
    return out


def dofs_of(nodes, ndof):
    return [nd * ndof + q for nd in nodes for q in range(ndof)]


def interleave(rng, news, nel, xkinds, final_all=True, scribble=True):
    """history: build modules one after the other; after each construction evaluate the new one and some EARLIER ones;
    re-assign x (also its dtype kind) in between; finally evaluate every module again"""
    ops = [dict(op='setx', k=xkinds[0], vals=x_vals(rng, nel, xkinds[0]), layout='c')]
    nresp = 0
    for k, nw in enumerate(news):
        ops.append(nw)
        ops.append(dict(op='resp', i=k))
        nresp += 1
        for j in rng.sample(range(k + 1), min(k + 1, rng.randint(1, 2))):
            ops.append(dict(op='resp', i=j))
            nresp += 1
        if scribble and nresp >= 2 and rng.random() < 0.3:
            ops.append(dict(op='scribble', r=rng.randrange(nresp)))
        if k % 2 == 1 and len(xkinds) > 1:
            kx = xkinds[(k // 2 + 1) % len(xkinds)]
            ops.append(dict(op='setx', k=kx, vals=x_vals(rng, nel, kx), layout=rng.choice(('c', 'strided'))))
            ops.append(dict(op='resp', i=rng.randrange(k + 1)))
            nresp += 1
    if final_all:
        kx = xkinds[-1]
        ops.append(dict(op='setx', k=kx, vals=x_vals(rng, nel, kx), layout='strided'))
        order = list(range(len(news)))
        rng.shuffle(order)
        ops += [dict(op='resp', i=j) for j in order]
    return ops


def stress_scenarios(rng):
    """deterministic in structure (run on every seed; only the numbers vary with the seed)"""
    out = []
    # ---- S1: 2-D, 2 dofs per node, one domain object: different bc sets (equal and different lengths), bcdiagval,
    #          add_constant, matrix types; stiffness / mass / general side by side
    a, b, cz = 3, 2, 0
    nel = a * b
    left, right = dofs_of(nodes_at(a, b, cz, 0, 0), 2), dofs_of(nodes_at(a, b, cz, 0, 1), 2)
    top = dofs_of(nodes_at(a, b, cz, 1, 1), 2)
    n = 2 * (a + 1) * (b + 1)
    Ke8 = int_elmat(rng, 8, 'float', sym=False)
    news = [
        dict(op='new', cls='stiffness', dom=0, kw=dict(E=1.0, nu=0.3, plane='strain'), bc=left, bc_form='array', bcd=['float', 3.0], const=None, mt='csc_matrix'),
        dict(op='new', cls='stiffness', dom=0, kw=dict(E=1.0, nu=0.3, plane='strain'), bc=right, bc_form='array', bcd=['float', 3.0], const=None, mt='csr_matrix'),
        dict(op='new', cls='general', dom=0, ek='float', elmat=Ke8, bc=[0, 1, 5], bc_form='list', bcd=None, const=None, mt='coo_matrix'),
        dict(op='new', cls='general', dom=0, share_elmat=2, ek='float', elmat=Ke8, bc=[2, 3, 4, 7], bc_form='array32', bcd=['int', 5],
             const=const_of(rng, n, 'int', 'csc'), mt='csc_array'),
        dict(op='new', cls='mass', dom=0, kw=dict(mp=2.0, ndof=2), bc=top, bc_form='list', bcd=None, const=None, mt='csr_array'),
        dict(op='new', cls='general', dom=0, share_elmat=2, ek='float', elmat=Ke8, bc=None, bcd=None, const=None, mt='bsr_matrix'),
        dict(op='new', cls='stiffness', dom=1, kw=dict(E=[2.0, 0.25], nu=0.25, plane='stress'), bc=left, bc_form='list', bcd=['float', 1.0], const=None, mt='csc_matrix'),
        dict(op='new', cls='general', dom=0, share_elmat=2, ek='float', elmat=Ke8, bc=list(reversed(left)), bc_form='list', bcd=['float', 3.0],
             const=None, mt='coo_array'),
    ]
    out.append(dict(kind='scenario', name='S1 bc sets, ndof 2, one domain', grid=[a, b, cz], sizes=[0.5, 0.25, 1.0], exact=False,
                    ops=interleave(rng, news, nel, ['float', 'float', 'complex'])))
    # ---- S2: 1 dof per node: Poisson / mass / general with different bc sets, two domain objects of equal size
    a, b, cz = 2, 2, 0
    nel = a * b
    n = (a + 1) * (b + 1)
    Ke4 = int_elmat(rng, 4, 'int', sym=True)
    news = [
        dict(op='new', cls='poisson', dom=0, kw=dict(mp=1.0), bc=nodes_at(a, b, cz, 0, 0), bc_form='array', bcd=['float', 1.0], const=None, mt='csc_matrix'),
        dict(op='new', cls='mass', dom=0, kw=dict(mp=1.0, ndof=1), bc=nodes_at(a, b, cz, 0, 1), bc_form='array', bcd=['float', 1.0], const=None, mt='csc_matrix'),
        dict(op='new', cls='general', dom=0, ek='int', elmat=Ke4, bc=[4], bc_form='list', bcd=None, const=const_of(rng, n, 'float', 'csr'), mt='csr_matrix'),
        dict(op='new', cls='poisson', dom=0, kw=dict(mp=2.5), bc=None, bcd=None, const=None, mt='coo_matrix'),
        dict(op='new', cls='general', dom=1, ek='int', elmat=Ke4, bc=[0, 8], bc_form='list', bcd=['int', 2], const=None, mt='csc_matrix'),
        dict(op='new', cls='general', dom=0, share_elmat=2, ek='int', elmat=Ke4, bc=[], bc_form='list', bcd=None, const=None, mt='csc_matrix'),
        dict(op='new', cls='poisson', dom=1, kw=dict(mp=1.0), bc=nodes_at(a, b, cz, 1, 1), bc_form='list', bcd=None, const=const_of(rng, n, 'int', 'dense'), mt='csr_array'),
    ]
    out.append(dict(kind='scenario', name='S2 bc sets, ndof 1, two equal domains', grid=[a, b, cz], sizes=[1.0, 2.0, 0.5], exact=False,
                    ops=interleave(rng, news, nel, ['float', 'int', 'float'])))
    # ---- S3: 3-D, ndof 3 and ndof 1 on one domain
    a, b, cz = 2, 1, 1
    nel = a * b * cz
    face0, face1 = nodes_at(a, b, cz, 0, 0), nodes_at(a, b, cz, 2, 1)
    Ke8i = int_elmat(rng, 8, 'int', sym=True)
    news = [
        dict(op='new', cls='stiffness', dom=0, kw=dict(E=2.0, nu=0.25, plane='strain'), bc=dofs_of(face0, 3), bc_form='array', bcd=None, const=None, mt='csc_matrix'),
        dict(op='new', cls='general', dom=0, ek='int', elmat=Ke8i, bc=face0, bc_form='list', bcd=['float', 1.0], const=None, mt='csc_matrix'),
        dict(op='new', cls='stiffness', dom=0, kw=dict(E=2.0, nu=0.25, plane='strain'), bc=dofs_of(face1, 3), bc_form='array', bcd=None, const=None, mt='csr_matrix'),
        dict(op='new', cls='general', dom=0, share_elmat=1, ek='int', elmat=Ke8i, bc=face1, bc_form='list', bcd=['float', 1.0], const=None, mt='coo_matrix'),
        dict(op='new', cls='mass', dom=0, kw=dict(mp=1.5, ndof=3), bc=dofs_of(face1, 3)[:5], bc_form='list', bcd=None, const=None, mt='csc_matrix'),
    ]
    out.append(dict(kind='scenario', name='S3 3-D, ndof 3 and 1', grid=[a, b, cz], sizes=[1.0, 0.5, 2.0], exact=False,
                    ops=interleave(rng, news, nel, ['float', 'float'])))
    # ---- S4: dtype kinds.  element matrix kind x (bc None | bc with bcdiagval default/int/float/complex), evaluated with
    #          x of every kind (earlier modules are re-evaluated after x changed its kind); constants and matrix types cycle
    a, b, cz = 2, 1, 0
    nel, n = 2, 6
    bcs = [[1], [0, 4], [5, 2, 3]]
    for ek in KINDS:
        Ke = int_elmat(rng, 4, ek)
        news = []
        for t, bopt in enumerate(('nobc', None, 'int', 'float', 'complex')):
            ck = (None, 'int', 'float', 'complex')[(t + KINDS.index(ek)) % 4]
            mt = ALL_MT[(3 * KINDS.index(ek) + t) % len(SPARSE_MT)]
            news.append(dict(op='new', cls='general', dom=0, ek=ek, elmat=Ke, eorder='F' if t % 2 else 'C', share_elmat=None if t == 0 else 0,
                             bc=None if bopt == 'nobc' else bcs[t % 3], bc_form='list' if t % 2 else 'array',
                             bcd=None if bopt == 'nobc' else bcd_of(bopt),
                             const=const_of(rng, n, ck, ('csc', 'csr', 'coo', 'dense')[t % 4]), mt=mt))
        ops = []
        for kx in KINDS:
            vals = {'int': [2, 3], 'float': [1.5, 0.375], 'complex': [[1.5, 0.5], [2.0, -1.0]]}[kx]
            ops.append(dict(op='setx', k=kx, vals=vals, layout='c'))
            if kx == 'int':
                for k, nw in enumerate(news):
                    ops += [nw, dict(op='resp', i=k)]
            else:
                ops += [dict(op='resp', i=k) for k in range(len(news))]
        ops.append(dict(op='setx', k='float', vals=[0.5, 2.25], layout='strided'))
        ops += [dict(op='resp', i=k) for k in reversed(range(len(news)))]
        out.append(dict(kind='scenario', name=f'S4 dtype kinds, element matrix {ek}', grid=[a, b, cz], sizes=[1.0, 1.0, 1.0], exact=True, ops=ops))
    # ---- S4b: the documented "wider x" combinations on fresh modules whose FIRST evaluation already sees the wide x
    Kei = int_elmat(rng, 4, 'int', sym=True)
    news = [dict(op='new', cls='general', dom=0, ek='int', elmat=Kei, bc=[0, 3], bc_form='array', bcd=None, const=None, mt='csc_matrix'),
            dict(op='new', cls='poisson', dom=0, kw=dict(mp=1.0), bc=[0, 3], bc_form='array', bcd=['float', 1.0], const=None, mt='csc_matrix'),
            dict(op='new', cls='stiffness', dom=0, kw=dict(E=1.0, nu=0.3, plane='stress'), bc=[0, 1, 6, 7], bc_form='array', bcd=['float', 1.0], const=None, mt='coo_matrix'),
            dict(op='new', cls='mass', dom=0, kw=dict(mp=1.0, ndof=1), bc=[2], bc_form='list', bcd=['int', 1], const=None, mt='csr_matrix')]
    ops = [dict(op='setx', k='float', vals=[0.75, 0.3], layout='c'), news[0], dict(op='resp', i=0),
           dict(op='setx', k='complex', vals=[[0.75, 0.05], [0.3, 0.02]], layout='c'),
           news[1], dict(op='resp', i=1), news[2], dict(op='resp', i=2), news[3], dict(op='resp', i=3), dict(op='resp', i=0),
           dict(op='setx', k='int', vals=[2, 1], layout='c')] + [dict(op='resp', i=k) for k in range(4)]
    out.append(dict(kind='scenario', name='S4b x wider than the element matrix', grid=[2, 1, 0], sizes=[1.0, 1.0, 1.0], exact=False, ops=ops))
    # ---- S5: every accepted matrix_type, with and without bc: a returned matrix is a value (later responses, and a
    #          caller who overwrites a returned matrix, do not influence anything)
    a, b, cz = 2, 2, 0
    nel, n = 4, 9
    Ke = int_elmat(rng, 4, 'float', sym=True)
    news, ops = [], [dict(op='setx', k='float', vals=x_vals(rng, nel, 'float'), layout='c')]
    x2 = [v + 1.0 for v in x_vals(rng, nel, 'float')]
    nresp = 0
    for t, mt in enumerate(ALL_MT):
        for bc in (None, [[0, 4], [8, 1, 2], [3]][t % 3]):
            k = len(news)
            news.append(dict(op='new', cls='general', dom=0, ek='float', elmat=Ke, share_elmat=None if k == 0 else 0, bc=bc, bc_form='array',
                             bcd=['float', 2.0] if t % 2 else None,
                             const=const_of(rng, n, 'float', 'csc') if (t % 4 == 3 and mt != 'dense_fn') else None, mt=mt))
            ops += [news[-1], dict(op='resp', i=k), dict(op='setx', k='float', vals=x2, layout='c'), dict(op='resp', i=k),
                    dict(op='scribble', r=nresp + 1), dict(op='resp', i=k),
                    dict(op='setx', k='float', vals=ops[0]['vals'], layout='c'), dict(op='resp', i=k), dict(op='scribble', r=nresp + 3)]
            nresp += 4
    ops += [dict(op='resp', i=k) for k in range(len(news))]
    out.append(dict(kind='scenario', name='S5 matrix types, returned matrices are values', grid=[a, b, cz], sizes=[1.0, 1.0, 1.0], exact=True, ops=ops))
    return out


def random_scenario(rng, idx):
    dim3 = rng.random() < 0.25
    if dim3:
        a, b, cz = rng.randint(1, 2), rng.randint(1, 2), rng.randint(1, 2)
    else:
        a, b, cz = rng.randint(1, 3), rng.randint(1, 3), 0
    en = 8 if dim3 else 4
    nel = a * b * max(cz, 1)
    nn = (a + 1) * (b + 1) * (cz + 1)
    main_ndof = rng.choice((1, 1, 2)) if dim3 else rng.choice((1, 2, 2, 3))
    sizes = [float(Fraction(rng.choice((1, 2, 3, 4)), rng.choice((1, 2, 4)))) for _ in range(3)]
    ninst = rng.randint(3, 6)
    news = []
    exact = True
    bc_pool = []
    for k in range(ninst):
        cls = rng.choice(('general', 'general', 'general', 'stiffness', 'mass', 'poisson'))
        ndof = main_ndof if rng.random() < 0.75 else rng.choice((1, 2))
        op = dict(op='new', cls=cls, dom=rng.choice((0, 0, 1)))
        if cls == 'general':
            ek = rng.choice(KINDS)
            prev = [j for j, q in enumerate(news) if q['cls'] == 'general' and q.get('share_elmat') is None and len(q['elmat']) == en * ndof]
            if prev and rng.random() < 0.4:
                j = rng.choice(prev)
                op.update(ek=news[j]['ek'], elmat=news[j]['elmat'], share_elmat=j)
            else:
                op.update(ek=ek, elmat=int_elmat(rng, en * ndof, ek), eorder=rng.choice('CF'), share_elmat=None)
        elif cls == 'stiffness':
            ndof = 3 if dim3 else 2
            op['kw'] = dict(E=rng.choice((1.0, 2.5, [1.0, 0.1])), nu=rng.choice((0.3, 0.0, 0.25)), plane=rng.choice(('strain', 'stress')))
            exact = False
        elif cls == 'mass':
            op['kw'] = dict(mp=rng.choice((1.0, 2.5)), ndof=ndof)
            exact = False
        else:
            ndof = 1
            op['kw'] = dict(mp=rng.choice((1.0, 0.75)))
            exact = False
        n = ndof * nn
        r = rng.random()
        if r < 0.2:
            bc = None
        elif r < 0.25:
            bc = []
        elif r < 0.45 and [q for q in bc_pool if max(q, default=0) < n]:
            bc = list(rng.choice([q for q in bc_pool if max(q, default=0) < n]))
        else:
            bc = rng.sample(range(n), rng.randint(1, min(n, 5)))
            if rng.random() < 0.5:
                bc = sorted(bc)
        if bc:
            bc_pool.append(bc)
        op.update(bc=bc, bc_form=rng.choice(('list', 'array', 'array32')), bcd=bcd_of(rng.choice((None, None, 'int', 'float', 'complex'))))
        mt = rng.choice(ALL_MT)
        ck = rng.choice((None, None, 'int', 'float', 'complex'))
        op.update(mt=mt, const=None if mt == 'dense_fn' else const_of(rng, n, ck, rng.choice(('csc', 'csr', 'coo', 'bsr', 'dense', 'coo_array'))))
        news.append(op)
    kinds = [rng.choice(KINDS) for _ in range(3)]
    return dict(kind='scenario', name=f'random history {idx}', grid=[a, b, cz], sizes=sizes, exact=exact,
                ops=interleave(rng, news, nel, kinds))
