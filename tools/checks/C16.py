"""C16 — aggregations bound the true extreme; active sets select the requested band."""
import os, re, json, math, itertools
from fractions import Fraction
from concurrent.futures import ThreadPoolExecutor
import numpy as np
import vlib
from vlib import ql, qlit, zlit
import py2coq
import gen_C16

CORPUS = os.path.join(vlib.ROOT, 'corpus', 'C16')


# ----------------------------------------------------------------------------- literals
def fhex(v):
    """Python float -> Coq primitive float literal (exact, float.hex())"""
    v = float(v)
    if v != v:
        return 'nan'
    if v == math.inf:
        return 'infinity'
    if v == -math.inf:
        return 'neg_infinity'
    h = v.hex()
    return f'({h})' if h.startswith('-') else h


def fl(xs):
    return '[' + '; '.join(fhex(v) for v in xs) + ']'


def natl(xs):
    return '[' + '; '.join(str(int(v)) for v in xs) + ']%nat'


def rlit(v):
    """exact real literal of a float / Fraction (R_scope)"""
    f = v if isinstance(v, Fraction) else Fraction(float(v))
    s = f'{abs(f.numerator)}' if f.denominator == 1 else f'({abs(f.numerator)} / {f.denominator})'
    return f'(- {s})' if f < 0 else s


def rl(xs):
    return '[' + '; '.join(rlit(v) for v in xs) + ']'


def mask_code(res):
    """implementation result -> integer code: -1 Ellipsis, -2 ValueError, -3 AssertionError, >= 0 mask bits"""
    if res is Ellipsis:
        return -1
    if isinstance(res, str):
        return {'ValueError': -2, 'AssertionError': -3}.get(res, -9)
    return sum(1 << i for i, b in enumerate(res) if b)


HEADER = '''From Coq Require Import ZArith QArith List Bool PrimFloat.
From Pymoto Require Import Base.Num Base.Cmp Base.PyFloat Model.ActiveSet Model.Agg.
Import ListNotations.
Open Scope float_scope.
Definition tol : Q := (1 # 1000000000)%Q.
Definition mask_of (n : nat) (z : Z) : list bool := map (fun i => Z.testbit z (Z.of_nat i)) (seq 0 n).
Definition res_of (n : nat) (z : Z) : as_result :=
  if (z =? -1)%Z then AS_All else if (z =? -2)%Z then AS_ValueError else if (z =? -3)%Z then AS_AssertionError
  else if (z <? 0)%Z then AS_BadOracle else AS_Mask (mask_of n z).
(* model (numpy's argsort as checked oracle) == implementation, and with the model's own stable argsort the
   removed VALUES agree as multisets (tie-breaking is unspecified) *)
Definition ck_full (x : list float) (p : list nat) (c : @as_cfg float) (z : Z) : bool :=
  let e := res_of (length x) z in
  result_eqb (active_set_checked FloatOps c p x) e &&
  match active_set_api FloatOps c (isort_model FloatOps x) x, e with
  | AS_Mask m, AS_Mask m' =>
      fl_eqb_list (sort_values FloatOps (removed_values m x)) (sort_values FloatOps (removed_values m' x))
  | a, b => result_eqb a b
  end.
'''


# ----------------------------------------------------------------------------- tables
def fraction_tables(ctx):
    amt = [k / 20 for k in range(21)] + [0.01, 0.99, 1 / 3, 2 / 3, 0.29, 0.57, 0.58]
    amt = sorted(set(amt))
    rel = sorted({-0.25, 0.0, 0.1, 0.25, 1 / 3, 0.5, 0.75, 0.9, 1.0, 1.25})
    return amt, rel


def gen_vectors(ctx, rng, nmax):
    vecs = []
    for n in range(1, nmax + 1):
        while True:
            x = np.round(rng.uniform(-2, 5, n), 3)
            if len(set(x.tolist())) == n:
                break
        vecs.append(('distinct', x))
        while True:
            x = rng.integers(0, max(2, (n + 1) // 2), n).astype(float)
            if n == 1 or x.max() != x.min():
                break
        vecs.append(('ties', x))
        if not ctx.quick():
            x = np.where(rng.random(n) < 0.5, 1.5, -0.5)
            if n > 1 and x.max() == x.min():
                x[0] = 2.0
            vecs.append(('two-valued', x))
            vecs.append(('descending', np.arange(n, 0, -1).astype(float) * 0.7))
    return vecs


def call_active(pym, x, lr, ur, la, ua):
    try:
        a = pym.AggActiveSet(lower_rel=lr, upper_rel=ur, lower_amt=la, upper_amt=ua)
        r = a(np.array(x, dtype=float))
    except AssertionError:
        return 'AssertionError'
    except ValueError:
        return 'ValueError'
    except TypeError:
        return 'TypeError'
    except IndexError:
        return 'IndexError'
    except RuntimeError:
        return 'RuntimeError'
    except Exception:
        return 'Other'
    if r is Ellipsis:
        return Ellipsis
    return [bool(b) for b in r]


# ----------------------------------------------------------------------------- implementation-side oracle
def count_candidates(n, frac_value):
    """whole entries for a requested fraction: floor(n*f) up to float rounding of the product"""
    v = Fraction(n) * frac_value
    eps = Fraction(1, 10 ** 9)
    return sorted({max(0, math.floor(v - eps)), max(0, math.floor(v + eps))})


def band_oracle(x, lr, ur, la, ua, res):
    """the property, stated in numpy on the implementation's result; returns None or a description"""
    x = np.asarray(x, dtype=float)
    n = x.size
    if x.max() == x.min():
        if res is Ellipsis or (res is not Ellipsis and all(res)):
            return None
        return 'all entries equal but not everything kept'
    if res is Ellipsis:
        return 'Ellipsis returned although entries differ'
    m = np.array(res, dtype=bool)
    xrel = (x - x.min()) / (x.max() - x.min())
    vk = (xrel >= lr) & (xrel <= ur)
    # closed band: an entry exactly on a threshold is inside; only near-misses (float noise) are undecided
    dontcare = ((xrel != lr) & (np.abs(xrel - lr) < 1e-12)) | ((xrel != ur) & (np.abs(xrel - ur) < 1e-12))
    cl = count_candidates(n, Fraction(la)) if la > 0 else [0]
    ch = count_candidates(n, 1 - Fraction(ua)) if ua < 1 else [0]
    msgs = []
    for klo in cl:
        for khi in ch:
            bad = None
            if klo + khi >= n:
                if m.any():
                    bad = f'counts {klo}+{khi} cover all {n} entries but some are kept'
            else:
                for g in np.unique(x):
                    idx = np.where(x == g)[0]
                    if dontcare[idx].any():
                        continue
                    size = idx.size
                    nl = min(max(klo - int((x < g).sum()), 0), size)
                    nh = min(max(khi - int((x > g).sum()), 0), size)
                    exp_kept = (size - nl - nh) if vk[idx[0]] else 0
                    if int(m[idx].sum()) != exp_kept:
                        bad = (f'value {g}: {int(m[idx].sum())} entries kept, expected {exp_kept} '
                               f'(in band: {bool(vk[idx[0]])}, lowest-count {klo}, highest-count {khi})')
                        break
            if bad is None:
                return None
            msgs.append(bad)
    return msgs[0]


def active_input_class(x, la, ua):
    n = len(x)
    if ua < 1 and 0 in count_candidates(n, 1 - Fraction(ua)):
        return 'int(n*(1-upper_amt)) == 0'
    if la > 0 and 0 in count_candidates(n, Fraction(la)):
        return 'int(n*lower_amt) == 0'
    return 'general'


# ----------------------------------------------------------------------------- interval goals
INTERVAL_HEADER = '''From Coq Require Import Reals List.
From Interval Require Import Tactic.
From Pymoto Require Import Model.Agg Proofs.AggP.
Import ListNotations.
Open Scope R_scope.
Ltac agg_eval :=
  try (rewrite softminmax_quot by discriminate);
  unfold pnorm, ks, rscale, rmul, rsum; cbn [map fold_right combine fst snd];
  interval with (i_prec 80).
'''


def run_interval(ctx, name, goals, shard=24):
    """goals: list of Coq propositions over R; returns (failing indices, error text)"""
    failing, errors = [], []
    jobs = [(k, list(range(k, min(k + shard, len(goals))))) for k in range(0, len(goals), shard)]

    def one(job):
        k, idxs = job
        bad, err = [], ''
        rounds = 0
        while idxs and rounds < 6:
            rounds += 1
            lines = INTERVAL_HEADER.splitlines()
            base = len(lines)
            for i in idxs:
                lines.append(f'Goal {goals[i]}. Proof. agg_eval. Qed.')
            p = ctx.write_gen(f'interval_{name}_{k // shard}.v', '\n'.join(lines) + '\n')
            rc, out, e = ctx.coqc(p, 600)
            if rc == 0:
                break
            m = re.search(r'line (\d+)', e)
            if not m or int(m.group(1)) - 1 < base:
                err = e[-1500:]
                break
            j = int(m.group(1)) - 1 - base
            if j >= len(idxs):
                err = e[-1500:]
                break
            bad.append(idxs[j])
            idxs = idxs[j + 1:]
        return bad, err
    with ThreadPoolExecutor(max_workers=int(os.environ.get('VERIF_COQ_JOBS', '6'))) as ex:
        for (k, idxs), (bad, err) in zip(jobs, ex.map(one, jobs)):
            failing += bad
            if err:
                errors.append(f'shard {k}: {err}')
            ctx.obligation(f'interval:{name} shard {k // shard} ({len(idxs)} goals |model - impl| <= 1e-9*scale)',
                           'interval', not bad and not err, err)
    return sorted(failing), '\n'.join(errors)


def agg_formula(kind, par, xs):
    return {'PNorm': 'pnorm', 'KSFunction': 'ks', 'SoftMinMax': 'softminmax'}[kind] + f' {rlit(par)} {rl(xs)}'


def agg_goal(kind, par, xs, q):
    scale = max(1.0, abs(float(q)))
    tolq = Fraction(1, 10 ** 9) * Fraction(scale)
    return f'Rabs ({agg_formula(kind, par, xs)} - {rlit(q)}) <= {rlit(tolq)}'


def make_module(pym, kind, sig, par, scaling=None, active_set=None):
    if kind == 'PNorm':
        return pym.PNorm(sig, p=par, scaling=scaling, active_set=active_set)
    if kind == 'KSFunction':
        return pym.KSFunction(sig, rho=par, scaling=scaling, active_set=active_set)
    return pym.SoftMinMax(sig, alpha=par, scaling=scaling, active_set=active_set)


def agg_bounds_oracle(kind, par, xs, val):
    """bounds of the property text, in numpy, with 1e-9 relative slack; None or description"""
    xs = np.asarray(xs, dtype=float)
    n = xs.size
    M, m, mean = xs.max(), xs.min(), xs.mean()
    sl = 1e-9 * max(1.0, abs(M), abs(m))
    if kind == 'PNorm':
        lo, hi = (M, n ** (1 / par) * M) if par > 0 else (n ** (1 / par) * m, m)
    elif kind == 'KSFunction':
        lo, hi = (M, M + math.log(n) / par) if par > 0 else (m + math.log(n) / par, m)
    else:
        lo, hi = (mean, M) if par > 0 else (m, mean)
    if not (lo - sl <= val <= hi + sl):
        return f'{kind}({par}) = {val} outside [{lo}, {hi}]'
    return None


PARAM_ATTR = {'PNorm': 'p', 'KSFunction': 'rho', 'SoftMinMax': 'alpha'}
CONTINUATION = {
    'PNorm': [[2.0, 4.0, 8.0, 16.0], [4.0, -4.0, 6.0, -2.0], [8.0, 2.0, 1.5, 1.5], [-2.0, -6.0, -12.0]],
    'KSFunction': [[1.0, 3.0, 9.0, 20.0], [4.0, -4.0, 6.0, -2.0], [10.0, 2.0, 0.5, 0.5], [-1.0, -5.0, -15.0]],
    'SoftMinMax': [[1.0, 3.0, 9.0, 20.0], [4.0, -4.0, 6.0, -2.0], [10.0, 2.0, 0.5, 0.5], [-1.0, -5.0, -15.0]],
}


def agg_ref(kind, par, xs):
    """plain-numpy statement of the three aggregation functions and their gradients for a GIVEN parameter
    (positive data); independent of the module's attributes"""
    xs = np.asarray(xs, dtype=float)
    if kind == 'PNorm':
        S = float(np.sum(xs ** par))
        return S ** (1.0 / par), S ** (1.0 / par - 1.0) * xs ** (par - 1.0)
    z = par * xs
    w = np.exp(z - z.max())
    if kind == 'KSFunction':
        return float((z.max() + math.log(float(np.sum(w)))) / par), w / np.sum(w)
    w = w / np.sum(w)
    val = float(np.sum(xs * w))
    return val, w * (1.0 + par * (xs - val))


def agg_ref_fd_ok(kind, par, xs, grad):
    """validate the reference gradient against central differences of the reference value"""
    xs = np.asarray(xs, dtype=float)
    h = 1e-6
    for i in range(xs.size):
        e = np.zeros_like(xs)
        e[i] = h
        fd = (agg_ref(kind, par, xs + e)[0] - agg_ref(kind, par, xs - e)[0]) / (2 * h)
        assert abs(fd - grad[i]) <= 2e-5 * max(1.0, abs(grad[i])), (kind, par, xs.tolist(), i, fd, grad[i])
    return 1


# ----------------------------------------------------------------------------- main
def run(ctx):
    import pymoto as pym
    ctx.rule = ('active set: EXHAUSTIVE over n = 1..12 (thorough 1..16) x all pairs lower_amt < upper_amt of a 28-value fraction grid '
                '(0, .05, ..., 1, .01, .99, 1/3, 2/3, .29, .57, .58) x vector families (distinct values, ties; thorough also two-valued, '
                'descending), plus all pairs lower_rel < upper_rel of a 10-value grid (incl. values outside [0,1]) x 3 (4) count settings; '
                'counts alone for n = 2..64 (thorough 2..400) x every fraction; a case is non-trivial when the result is a mask; distinct by '
                '(vector, configuration).  Aggregations: PNorm/KS/SoftMinMax x parameters of both signs x n in 1..12 positive data, '
                'each an `interval` goal |model_R - impl| <= 1e-9*scale.  AggScaling: sequences of 1..6 calls; Aggregation pipeline: '
                'histories of 1..6 response() calls with scaling/active set, exact Q on the float values; the aggregation parameter (p, rho, alpha) is '
                're-assigned on the module between calls: 72 deliberate continuation histories on every run (3 classes x increasing / sign-flipping / '
                'decreasing / negative schedules x no / undamped / damped scaling x with / without active set, first two calls on the same data) and '
                '~60% of the random histories; every call gives an interval goal for the CURRENT parameter; implementation-side oracle per call: value '
                'and bounds for the current parameter, scale-factor recurrence, and the sensitivity against s_k*dfdy*grad of a plain-numpy reference')
    ctx.assumptions += [
        'aggregation bounds are theorems over the reals for positive data (KS/soft-max: any data); the float results are tied to the '
        'real formulas by interval goals at 1e-9 relative tolerance',
        'scipy.special.softmax is modelled by its definition exp(z_i)/sum_j exp(z_j)',
        'np.min/np.max are modelled by value (a minimal / maximal entry); NaN data is outside the property',
        'C16_removed_are_extremes / argsort check: <= on the number type is transitive (holds for R and for non-NaN binary64)']
    ctx.trusted += [
        'Print Assumptions: generic (every FOps instance) active-set theorems are closed under the global context; theorems over R use '
        'ClassicalDedekindReals.sig_forall_dec, sig_not_dec, FunctionalExtensionality.functional_extensionality_dep, Classical_Prop.classic '
        '(Coq stdlib Reals)',
        'Coq primitive floats (PrimFloat/Uint63 kernel primitives, FloatOps.Prim2SF) implement IEEE-754 binary64 round-to-nearest-even '
        'like CPython/numpy: used only for EVALUATING the model bit-exactly, no theorem depends on float axioms',
        'Interval tactic (coq-interval) for the generated goals',
        'tools/gen_C16.py (T-real translator for the aggregation formulas, AggScaling.__call__, the two int() counts and xrel)']
    vlib.audit(ctx)
    if not vlib.ensure_static(ctx):
        return

    # ---- (T) regenerate formulas and re-check bridge lemmas
    gen_ok, err = True, ''
    try:
        text = gen_C16.gen(vlib.REPO)
        p = ctx.write_gen('AggGen.v', text)
        gen_ok, _, err = vlib.compile_file(ctx, p, 'gen:AggGen.v compiles', 'translator')
    except py2coq.Unsupported as e:
        ctx.obligation('gen:AggGen.v translation', 'translator', False, str(e))
        gen_ok, err = False, str(e)
    if gen_ok:
        bp = os.path.join(ctx.bridge_dir, 'AggBridge.v')
        gen_ok, _, err = vlib.compile_file(ctx, bp, 'bridge:AggBridge (generated formulas = model, all arguments)', 'bridge')
    if not gen_ok:
        ctx.violation('proof', 'pymoto/modules/aggregation.py', 'generated formulas equal Model/Agg.v, Model/ActiveSet.v',
                      'translator/bridge', dict(error=err[-3000:]), theorem='BridgeC16.AggBridge')
    vlib.check_props(ctx)

    rng = np.random.default_rng(ctx.seed)
    checks, labels = [], []

    def add(label, expr, nontrivial=True, info=None):
        checks.append(expr)
        labels.append((label, info))
        ctx.case(label, nontrivial, sample=dict(case=[str(v) for v in label], coq=expr[:300]))

    oracle_hits = []      # (case info, message)

    def active_case(kind, x, lr, ur, la, ua, tag):
        x = [float(v) for v in x]
        res = call_active(pym, x, lr, ur, la, ua)
        perm = np.argsort(np.array(x, dtype=float)).tolist() if len(x) else []
        code = mask_code(res)
        info = dict(x=x, lower_rel=lr, upper_rel=ur, lower_amt=la, upper_amt=ua,
                    impl='Ellipsis' if res is Ellipsis else res, argsort=perm)
        return code, perm, info, res

    # ---- corpus (runs first): hand-picked edge cases and the witnesses of F01
    ncorp = 0
    for fn in sorted(os.listdir(CORPUS)) if os.path.isdir(CORPUS) else []:
        if not fn.endswith('.json'):
            continue
        for c in json.load(open(os.path.join(CORPUS, fn)))['cases']:
            x = c['x']
            lr, ur = float(c.get('lower_rel', 0.0)), float(c.get('upper_rel', 1.0))
            la, ua = float(c.get('lower_amt', 0.0)), float(c.get('upper_amt', 1.0))
            code, perm, info, res = active_case('corpus', x, lr, ur, la, ua, fn)
            info['corpus'] = fn + ':' + c.get('note', '')
            ctx.count('corpus')
            ncorp += 1
            add(('corpus', fn, ncorp), f'ck_full {fl(x)} {natl(perm)} (mkCfg {fhex(lr)} {fhex(ur)} {fhex(la)} {fhex(ua)}) {zlit(code)}',
                not isinstance(res, str), info)
            if 'expect_all_kept' in c and c['expect_all_kept']:
                ok = res is Ellipsis or (not isinstance(res, str) and all(res))
                ctx.search_evaluations += 1
                if not ok:
                    oracle_hits.append((info, 'a removal count that rounds to zero must remove nothing'))
            if not isinstance(res, str):
                ctx.search_evaluations += 1
                msg = band_oracle(x, lr, ur, la, ua, res)
                if msg:
                    oracle_hits.append((info, msg))

    # ---- exhaustive active-set grid
    AMT, REL = fraction_tables(ctx)
    nmax = 12 if ctx.quick() else 16
    vecs = gen_vectors(ctx, rng, nmax)
    hdr = [HEADER, 'Definition AMT : list float := ' + fl(AMT) + '.', 'Definition REL : list float := ' + fl(REL) + '.',
           'Definition VS : list (list float) := [' + ';\n  '.join(fl(x) for _, x in vecs) + '].',
           'Definition PS : list (list nat) := [' + ';\n  '.join(natl(np.argsort(x)) for _, x in vecs) + '].',
           'Definition am (i : nat) := nth i AMT 0. Definition re (i : nat) := nth i REL 0.',
           'Definition ck (v lr ur la ua : nat) (z : Z) : bool :=',
           '  ck_full (nth v VS []) (nth v PS []) (mkCfg (re lr) (re ur) (am la) (am ua)) z.',
           '(* counts alone: x = 0..n-1 (distinct), only one clause active; k = number of removed entries *)',
           'Definition ck_lo (n : Z) (la : nat) (k : Z) : bool := Z.eqb (Z.min (n_lower FloatOps (mkCfg 0 1 (am la) 2) n) n) k.',
           'Definition ck_hi (n : Z) (ua : nat) (k : Z) : bool := Z.eqb (Z.min (n_upper FloatOps (mkCfg 0 1 (-1) (am ua)) n) n) k.']
    header = '\n'.join(hdr) + '\n'
    i_rel0, i_rel1 = REL.index(0.0), REL.index(1.0)
    amt_pairs = [(a, b) for a in range(len(AMT)) for b in range(len(AMT)) if AMT[a] < AMT[b]]
    rel_pairs = [(a, b) for a in range(len(REL)) for b in range(len(REL)) if REL[a] < REL[b]]
    amt_few = [(AMT.index(0.0), AMT.index(1.0)), (AMT.index(0.25), AMT.index(0.75)), (AMT.index(0.1), AMT.index(0.9)),
               (AMT.index(1 / 3), AMT.index(0.95))]
    if ctx.quick():
        amt_few = amt_few[:3]

    def grid_case(v, lr, ur, la, ua):
        kind, x = vecs[v]
        code, perm, info, res = active_case(kind, x, REL[lr], REL[ur], AMT[la], AMT[ua], kind)
        ctx.count(f'n={len(x)}')
        ctx.count('vec:' + kind)
        ctx.count('result:' + ('Ellipsis' if res is Ellipsis else res if isinstance(res, str) else 'mask'))
        add(('grid', v, lr, ur, la, ua), f'ck {v} {lr} {ur} {la} {ua} {zlit(code)}', not isinstance(res, str) and res is not Ellipsis, info)
        if not isinstance(res, str):
            ctx.search_evaluations += 1
            msg = band_oracle(x, REL[lr], REL[ur], AMT[la], AMT[ua], res)
            if msg:
                oracle_hits.append((info, msg))

    for v in range(len(vecs)):
        for la, ua in amt_pairs:
            grid_case(v, i_rel0, i_rel1, la, ua)
        for lr, ur in rel_pairs:
            for la, ua in amt_few:
                grid_case(v, lr, ur, la, ua)
        # a few random mixed configurations
        for _ in range(8 if ctx.quick() else 12):
            lr, ur = rel_pairs[int(rng.integers(len(rel_pairs)))]
            la, ua = amt_pairs[int(rng.integers(len(amt_pairs)))]
            grid_case(v, lr, ur, la, ua)

    # ---- counts alone, larger n
    ncount = 64 if ctx.quick() else 400
    for n in range(2, ncount + 1):
        x = np.arange(n, dtype=float)
        for a in range(len(AMT)):
            r = pym.AggActiveSet(lower_amt=AMT[a], upper_amt=2.0)(x)
            k = n - int(np.sum(r))
            add(('count_lo', n, a), f'ck_lo {n} {a} {k}', True, dict(n=n, lower_amt=AMT[a], removed=k))
            r = pym.AggActiveSet(lower_amt=-1.0, upper_amt=AMT[a])(x)
            k2 = n - int(np.sum(r))
            add(('count_hi', n, a), f'ck_hi {n} {a} {k2}', True, dict(n=n, upper_amt=AMT[a], removed=k2))
            ctx.count('count-only', 2)
            # oracle: whole entries, rounded down
            ctx.search_evaluations += 2
            if k not in [min(c, n) for c in count_candidates(n, Fraction(AMT[a]))]:
                oracle_hits.append((dict(x=f'arange({n})', lower_amt=AMT[a], upper_amt=2.0, removed=k), 'lower count is not floor(n*lower_amt)'))
            if AMT[a] < 1 and k2 not in [min(c, n) for c in count_candidates(n, 1 - Fraction(AMT[a]))]:
                oracle_hits.append((dict(x=f'arange({n})', lower_amt=-1.0, upper_amt=AMT[a], removed=k2), 'upper count is not floor(n*(1-upper_amt))'))

    # ---- malformed stream: only the exception class is compared
    nan = float('nan')
    malformed = [([], 0.0, 1.0, 0.0, 1.0), ([], 0.2, 0.8, 0.1, 0.9), ([1.0, 2.0], 0.5, 0.5, 0.0, 1.0), ([1.0, 2.0], 0.6, 0.4, 0.0, 1.0),
                 ([1.0, 2.0, 3.0], 0.0, 1.0, 0.5, 0.5), ([1.0, 2.0, 3.0], 0.0, 1.0, 0.7, 0.2), ([1.0, 2.0], nan, 1.0, 0.0, 1.0),
                 ([1.0, 2.0], 0.0, nan, 0.0, 1.0), ([1.0, 2.0], 0.0, 1.0, nan, 1.0), ([1.0, 2.0], 0.0, 1.0, 0.0, nan),
                 ([], 0.5, 0.5, 0.0, 1.0)]
    for t, (x, lr, ur, la, ua) in enumerate(malformed):
        code, perm, info, res = active_case('malformed', x, lr, ur, la, ua, 'malformed')
        ctx.count('malformed:' + (res if isinstance(res, str) else 'no-error'))
        add(('malformed', t), f'ck_full {fl(x)} {natl(perm)} (mkCfg {fhex(lr)} {fhex(ur)} {fhex(la)} {fhex(ua)}) {zlit(code)}', False, info)

    # ---- AggScaling call sequences (Q, toleranced)
    nseq = 60 if ctx.quick() else 400
    for t in range(nseq):
        which = 'max' if rng.random() < 0.5 else 'min'
        d = float(rng.choice([0.0, 0.0, 0.25, 0.5, 0.75, 0.9, 0.3]))
        sc = pym.AggScaling(which, damping=d)
        calls, outs, trues = [], [], []
        for _ in range(int(rng.integers(1, 7))):
            xk = np.round(rng.uniform(0.2, 4, int(rng.integers(1, 6))), 2)
            ak = float(np.round(rng.uniform(0.3, 5), 2))
            outs.append(float(sc(xk, ak)))
            calls.append((xk.tolist(), ak))
            trues.append(float(xk.max() if which == 'max' else xk.min()))
        ctx.count(f'scaling:{which}:d={d}')
        ctx.count(f'scaling:calls={len(calls)}')
        scale = max(1.0, max(abs(o) for o in outs))
        cl = '[' + '; '.join(f'(qext {vlib.blit(which == "max")} {ql([Fraction(v) for v in xk])}%Q, {qlit(Fraction(ak))}%Q)' for xk, ak in calls) + ']'
        add(('scaling', t), f'Ql_close (tol * {qlit(Fraction(scale))})%Q (scaling_run {qlit(Fraction(d))}%Q None {cl}) {ql([Fraction(o) for o in outs])}%Q',
            True, dict(which=which, damping=d, calls=calls, impl=outs))
        # oracle: undamped -> sf*approx = true; recurrence
        ctx.search_evaluations += 1
        prev = None
        for (xk, ak), o, tr in zip(calls, outs, trues):
            exp = tr / ak if prev is None else d * prev + (1 - d) * tr / ak
            if abs(o - exp) > 1e-12 * max(1, abs(exp)):
                oracle_hits.append((dict(site='AggScaling.__call__', pred='scale factor follows the damped recurrence', which=which, damping=d, calls=calls, impl=outs), 'scale factor does not follow the recurrence'))
                break
            if d == 0.0 and abs(o * ak - tr) > 1e-12 * max(1, abs(tr)):
                oracle_hits.append((dict(site='AggScaling.__call__', pred='undamped: sf*approx = true extreme', which=which, damping=d, calls=calls, impl=outs), 'undamped: sf*approx != true extreme'))
                break
            prev = o
    for which in ('MAX', 'Min', 'median', ''):
        try:
            pym.AggScaling(which)
            r = 'ok'
        except ValueError:
            r = 'ValueError'
        except Exception as e:  # pragma: no cover
            r = type(e).__name__
        ctx.count('scaling-ctor:' + r)
        exp = 'ok' if which.lower() in ('min', 'max') else 'ValueError'
        add(('scaling_ctor', which), vlib.blit(r == exp), False, dict(which=which, impl=r, model=exp))

    # ---- aggregation values: interval goals against the R formulas
    goals, glabels = [], []
    pars = {'PNorm': [1.0, -1.0, 2, -2.0, 3.5, -3.5, 8.0, -8.0], 'KSFunction': [0.5, -0.5, 2.0, -2.0, 10.0, -10.0],
            'SoftMinMax': [0.5, -0.5, 2.0, -2.0, 10.0, -10.0]}
    ns = [1, 2, 3, 5, 8, 12] if ctx.quick() else [1, 2, 3, 4, 5, 6, 7, 8, 10, 12, 16, 24]
    reps = 1 if ctx.quick() else 3
    for kind in pars:
        for par in pars[kind]:
            for n in ns:
                for _ in range(reps):
                    xs = np.round(rng.uniform(0.2, 3, n), 3)
                    if rng.random() < 0.2 and n > 1:
                        xs[1] = xs[0]
                    sig = pym.Signal('x', state=xs.copy())
                    try:
                        mod = make_module(pym, kind, sig, par)
                        mod.response()
                        val = float(mod.sig_out[0].state)
                    except Exception as e:
                        oracle_hits.append((dict(site=kind + '.aggregation_function', pred='returns a value on positive data', kind=kind,
                                                 parameter=par, x=xs.tolist(), impl=type(e).__name__), 'aggregation raised ' + type(e).__name__))
                        continue
                    goals.append(agg_goal(kind, par, xs, val))
                    glabels.append(dict(kind=kind, parameter=par, x=xs.tolist(), impl=val))
                    ctx.count(f'agg:{kind}:{"pos" if par > 0 else "neg"}')
                    ctx.case(('agg', kind, par, tuple(xs.tolist())), True)
                    ctx.search_evaluations += 1
                    msg = agg_bounds_oracle(kind, par, xs, val)
                    if msg:
                        oracle_hits.append((dict(kind=kind, parameter=par, x=xs.tolist(), impl=val), msg))

    # ---- wide-range stress (oracle only): SoftMinMax is built on scipy's shifted soft-max, so |alpha| * (max - min) far beyond
    #      the exponent range of binary64 (709) must still give a finite value inside the bounds, for both signs of alpha
    #      and with undamped scaling the exact extreme (seeded change C16-m8: a hand-written shift by max(x) overflows for alpha < 0)
    wide = [[1.0, 20.0, 60.0], [3.0, 400.0, 150.0, 2.0], [0.5, 1000.0], [250.0, 250.0, 1.0, 800.0, 40.0]]
    for par in [20.0, -20.0, 5.0, -5.0, 2.0, -2.0]:
        for xs in wide:
            xs = np.array(xs)
            for which in (None, 'max' if par > 0 else 'min'):
                sig = pym.Signal('x', state=xs.copy())
                info = dict(site='SoftMinMax.aggregation_function', pred='aggregation bounds (wide range)', kind='SoftMinMax', parameter=par,
                            x=xs.tolist(), scaling=which)
                try:
                    mod = make_module(pym, 'SoftMinMax', sig, par, scaling=pym.AggScaling(which, damping=0.0) if which else None)
                    mod.response()
                    val = float(mod.sig_out[0].state)
                except Exception as e:
                    oracle_hits.append((dict(info, impl=type(e).__name__), 'aggregation raised ' + type(e).__name__))
                    continue
                ctx.count(f'agg-wide:SoftMinMax:{"pos" if par > 0 else "neg"}:{"scaled" if which else "plain"}')
                ctx.search_evaluations += 1
                if which:
                    ext = float(xs.max() if par > 0 else xs.min())
                    if not abs(val - ext) <= 1e-9 * abs(ext):
                        oracle_hits.append((dict(info, impl=val), f'undamped scaling: output {val} is not the true extreme {ext}'))
                else:
                    msg = agg_bounds_oracle('SoftMinMax', par, xs, val)
                    if msg:
                        oracle_hits.append((dict(info, impl=val), msg))

    # ---- the same wide-range inputs on KSFunction (regression of finding F38: the unshifted log(sum(exp(rho*x))) overflowed to inf for
    #      rho*max(x) > 709 and underflowed to log(0) for rho*min(x) < -745); value inside the bounds and a finite sensitivity that sums to dfdy
    for par in [20.0, -20.0, 5.0, -5.0, 2.0, -2.0]:
        for xs in wide + [[40.0, 50.0, 1000.0], [800.0, 900.0]]:
            xs = np.array(xs)
            sig = pym.Signal('x', state=xs.copy())
            info = dict(site='KSFunction.aggregation_function', pred='aggregation bounds (wide range)', kind='KSFunction', parameter=par, x=xs.tolist())
            try:
                mod = make_module(pym, 'KSFunction', sig, par)
                mod.response()
                val = float(mod.sig_out[0].state)
                mod.sig_out[0].sensitivity = 1.0
                mod.sensitivity()
                g = np.asarray(sig.sensitivity, dtype=float)
            except Exception as e:
                oracle_hits.append((dict(info, impl=type(e).__name__), 'aggregation raised ' + type(e).__name__))
                continue
            ctx.count(f'agg-wide:KSFunction:{"pos" if par > 0 else "neg"}')
            ctx.search_evaluations += 1
            msg = agg_bounds_oracle('KSFunction', par, xs, val)
            if msg:
                oracle_hits.append((dict(info, impl=val), msg))
            elif not (np.all(np.isfinite(g)) and np.all(g >= 0) and abs(g.sum() - 1.0) <= 1e-9):
                oracle_hits.append((dict(info, site='KSFunction.aggregation_derivative', pred='weights are non-negative and sum to one (wide range)',
                                         impl=g.tolist()), 'KS sensitivity weights not a partition of unity'))

    # ---- Aggregation pipeline: histories of response() calls with scaling and active set; the aggregation parameter
    #      (p / rho / alpha, also its sign) may be RE-ASSIGNED on the module between the calls (continuation)
    fd_checked = [0]

    def run_history(label, kind, pars, which, d, use_scaling, ascfg, xlist):
        """one module, len(xlist) response() calls; pars[k] is assigned to the module before call k"""
        attr = PARAM_ATTR[kind]
        use_as = ascfg is not None
        mk_as = (lambda: pym.AggActiveSet(*ascfg)) if use_as else (lambda: None)
        sig = pym.Signal('x')
        sig2 = pym.Signal('x2')
        mod = make_module(pym, kind, sig, pars[0], scaling=pym.AggScaling(which, damping=d) if use_scaling else None, active_set=mk_as())
        twin = make_module(pym, kind, sig2, pars[0], scaling=None, active_set=mk_as())
        changed = len(set(pars)) > 1
        icls = 'parameter re-assigned between response() calls' if changed else 'aggregation'
        steps, outs, ok = [], [], True
        sf_ref = None

        def info_now(**kw):
            return dict(kind=kind, constructor={attr: pars[0], 'scaling': (which, d) if use_scaling else None, 'active_set': ascfg},
                        calls=[{attr: pars[j], 'x': st['x']} for j, st in enumerate(steps)], impl=list(outs), icls=icls, **kw)
        for k, xk in enumerate(xlist):
            par = pars[k]
            if k > 0:
                setattr(mod, attr, par)          # continuation: m.p = ..., m.rho = ..., m.alpha = ...
                setattr(twin, attr, par)
            sig.state = xk.copy()
            sig2.state = xk.copy()
            try:
                mod.response()
                twin.response()
            except ValueError:
                ok = False        # empty selection: outside the property
                break
            except Exception as e:
                steps.append(dict(x=xk.tolist()))
                oracle_hits.append((info_now(site='Aggregation._response', pred='returns a value on positive data', error=type(e).__name__),
                                    'response raised ' + type(e).__name__))
                ok = False
                break
            sel = mod.select
            selc = -1 if sel is Ellipsis else mask_code([bool(b) for b in sel])
            xs_sel = xk if sel is Ellipsis else xk[sel]
            if xs_sel.size == 0:
                ok = False
                break
            xagg = float(twin.sig_out[0].state)
            out = float(mod.sig_out[0].state)
            steps.append(dict(x=xk.tolist(), perm=np.argsort(xk).tolist(), sel=selc, xagg=xagg, xsel=xs_sel.tolist(), par=par))
            outs.append(out)
            goals.append(agg_goal(kind, par, xs_sel, xagg))
            glabels.append(dict(kind=kind, parameter=par, x=xs_sel.tolist(), impl=xagg, pipeline=label,
                                parameters_so_far=list(pars[:k + 1])))
            # -- implementation-side oracle, everything for the CURRENT parameter
            ctx.search_evaluations += 1
            rval, rgrad = agg_ref(kind, par, xs_sel)
            fd_checked[0] += agg_ref_fd_ok(kind, par, xs_sel, rgrad)
            tr = float(xs_sel.max() if which == 'max' else xs_sel.min())
            msg = agg_bounds_oracle(kind, par, xs_sel, xagg)
            if msg:
                oracle_hits.append((info_now(site=kind + '.aggregation_function', pred='aggregation bounds', step=k), msg + ' (current parameter, selected entries)'))
                break
            if abs(xagg - rval) > 1e-10 * max(1, abs(rval)):
                oracle_hits.append((info_now(site=kind + '.aggregation_function', pred='aggregation value is that of the current parameter', step=k),
                                    f'call {k}: aggregation value {xagg}, formula for {attr}={par} gives {rval}'))
                break
            if use_scaling:
                sc = tr / rval
                sf_ref = sc if sf_ref is None else d * sf_ref + (1 - d) * sc
                exp_out = sf_ref * rval
            else:
                sf_ref, exp_out = 1.0, rval
            if use_scaling and d == 0.0 and abs(out - tr) > 1e-12 * max(1, abs(tr)):
                oracle_hits.append((info_now(site='Aggregation._response', pred='undamped scaling returns the true extreme', step=k),
                                    'undamped scaling: output != true extreme of the selected entries'))
                break
            if not use_scaling and abs(out - xagg) > 1e-12 * max(1, abs(xagg)):
                oracle_hits.append((info_now(site='Aggregation._response', pred='unscaled output is the aggregation value', step=k),
                                    'without scaling the output is the aggregation value'))
                break
            if abs(out - exp_out) > 1e-10 * max(1, abs(exp_out)):
                oracle_hits.append((info_now(site='Aggregation._response', pred='scale factor follows the damped recurrence', step=k),
                                    f'call {k}: output {out}, s_k * approx_k = {exp_out} (s_k = d*s_(k-1) + (1-d)*true/approx)'))
                break
            # derivative of the response for the current parameter (scale factor and active set held fixed, as the
            # module defines its sensitivity): dy/dx[select] = s_k * d agg(par_k)/dx, zero elsewhere
            dfdy = float(np.round(rng.uniform(0.5, 2.0), 2)) * (-1 if rng.random() < 0.3 else 1)
            try:
                mod.sig_out[0].sensitivity = dfdy
                mod.sensitivity()
                got = np.array(sig.sensitivity, dtype=float)
                mod.reset()
            except Exception as e:
                oracle_hits.append((info_now(site='Aggregation._sensitivity', pred='returns a sensitivity', step=k, error=type(e).__name__),
                                    'sensitivity raised ' + type(e).__name__))
                break
            exp_dx = np.zeros_like(xk)
            exp_dx[sel] = sf_ref * dfdy * rgrad
            if got.shape != exp_dx.shape or np.max(np.abs(got - exp_dx)) > 1e-9 * max(1.0, np.max(np.abs(exp_dx))):
                oracle_hits.append((info_now(site='Aggregation._sensitivity', pred='sensitivity is the derivative of the response for the current parameter',
                                             step=k, dfdy=dfdy, expected_dx=exp_dx.tolist(), impl_dx=got.tolist()),
                                    f'call {k}: sensitivity differs from s_k * dfdy * d agg({attr}={par})/dx on the selected entries'))
                break
        if not ok or not steps or len(steps) != len(outs):
            ctx.count('pipeline:skipped-empty-selection')
            return
        ctx.count(f'pipeline:{kind}:scaling={use_scaling}:active_set={use_as}')
        ctx.count(f'pipeline:calls={len(steps)}')
        ctx.count('pipeline:parameter-' + ('changed' if changed else 'constant'))
        if changed and any(a * b < 0 for a, b in zip(pars, pars[1:len(steps)])):
            ctx.count('pipeline:parameter-sign-flip')
        scale = max(1.0, max(abs(o) for o in outs))
        cfg = f'(mkCfg {fhex(ascfg[0])} {fhex(ascfg[1])} {fhex(ascfg[2])} {fhex(ascfg[3])})' if use_as else None
        parts, hist = [], []
        for st in steps:
            if use_as:
                selx = f'(active_set_checked FloatOps {cfg} {natl(st["perm"])} {fl(st["x"])})'
                parts.append(f'result_eqb {selx} (res_of {len(st["x"])} {zlit(st["sel"])})')
            else:
                selx = 'AS_All'
                parts.append(vlib.blit(st['sel'] == -1))
            hist.append(f'(map f2q (apply_select {selx} {fl(st["x"])}), {qlit(Fraction(st["xagg"]))}%Q)')
        damp = f'(Some {qlit(Fraction(d))}%Q)' if use_scaling else 'None'
        expr = ' && '.join(parts) + f' && Ql_close (tol * {qlit(Fraction(scale))})%Q (response_run_obs {vlib.blit(which == "max")} {damp} None [' + \
            '; '.join(hist) + f']) {ql([Fraction(o) for o in outs])}%Q'
        add(('pipeline', label), expr, True, dict(kind=kind, parameters=list(pars[:len(steps)]), which=which, damping=d if use_scaling else None,
                                                  active_set=ascfg, steps=steps, impl=outs))

    def draw_x(n, equal=False):
        xk = np.round(rng.uniform(0.2, 3, n), 3)
        if equal:
            xk[:] = xk[0]
        return xk

    # deliberate continuation histories (every run): all three classes x {no scaling, undamped, damped} x {no active
    # set, active set} x {increasing, sign-flipping, decreasing-then-constant, negative increasing} parameter schedules;
    # the first two calls see the SAME data, so only the parameter differs between them
    for kind in ('PNorm', 'KSFunction', 'SoftMinMax'):
        for si, sched in enumerate(CONTINUATION[kind]):
            for sc_i, (use_scaling, d) in enumerate(((False, 0.0), (True, 0.0), (True, 0.5))):
                for as_i, ascfg in enumerate((None, (0.1, 0.95, 0.1, 0.9))):
                    which = 'max' if sched[0] > 0 else 'min'
                    n = (3, 5, 8, 12)[(si + sc_i + as_i) % 4]
                    x0 = draw_x(n)
                    xlist = [x0, x0.copy()] + [draw_x(int(rng.integers(3, 9))) for _ in sched[2:]]
                    run_history(f'continuation:{kind}:{si}:{sc_i}:{as_i}', kind, list(sched), which, d, use_scaling, ascfg, xlist)
    nhist = 40 if ctx.quick() else 300
    for t in range(nhist):
        kind = ['PNorm', 'KSFunction', 'SoftMinMax'][int(rng.integers(3))]
        pool = [2.0, -2.0, 4.0, -4.0, 1.5, -1.5, 7.0, -7.0]
        par = float(rng.choice(pool[:6]))
        which = ('max' if par > 0 else 'min') if rng.random() < 0.85 else ('min' if par > 0 else 'max')
        d = float(rng.choice([0.0, 0.0, 0.25, 0.5, 0.9]))
        use_scaling = rng.random() < 0.8
        ascfg = None
        if rng.random() < 0.7:
            ascfg = (float(rng.choice([0.0, 0.1, 0.25])), float(rng.choice([1.0, 0.9, 0.75])),
                     float(rng.choice([0.0, 0.1, 0.2, 0.3])), float(rng.choice([1.0, 0.9, 0.8, 0.7])))
        ncalls = int(rng.integers(1, 7))
        mode = rng.random()          # constant parameter | same-sign changes | arbitrary changes
        pars = [par]
        for _ in range(ncalls - 1):
            if mode < 0.4 or rng.random() < 0.3:
                pars.append(pars[-1])
            elif mode < 0.7:
                pars.append(float(abs(rng.choice(pool)) * (1 if par > 0 else -1)))
            else:
                pars.append(float(rng.choice(pool)))
        xlist = [draw_x(int(rng.integers(2, 9)), equal=rng.random() < 0.15) for _ in range(ncalls)]
        run_history(t, kind, pars, which, d, use_scaling, ascfg, xlist)
    ctx.oracle_validation['plain-numpy aggregation gradient == central finite difference of the plain-numpy value (2e-5)'] = fd_checked[0]

    ctx.exhaustive = True
    ctx.extra['exhaustive_space'] = (f'n = 1..{nmax} x {len(amt_pairs)} (lower_amt, upper_amt) pairs x {len(vecs) // nmax} vector families; '
                                     f'n = 2..{ncount} x {len(AMT)} fractions for the counts')
    # ---- evaluate inside Coq
    failing, err = vlib.run_cases(ctx, 'agg', header, checks, chunk=2500)
    ctx.obligation('correspondence:case files evaluated', 'correspondence', not err, err)
    if err:
        ctx.violation('correspondence', 'aggregation.py', 'case files compile', 'harness', dict(error=err[-3000:]), theorem='cases_agg')
    for idx in failing[:20]:
        label, info = labels[idx]
        site = {'scaling': 'AggScaling.__call__', 'scaling_ctor': 'AggScaling.__init__', 'pipeline': 'Aggregation._response'}.get(label[0], 'AggActiveSet.__call__')
        icls = label[0]
        if site == 'AggActiveSet.__call__' and info and 'x' in info and isinstance(info['x'], list) and info['x'] and label[0] != 'malformed':
            icls = active_input_class(info['x'], info['lower_amt'], info['upper_amt'])
        ctx.violation('correspondence', site, 'model == implementation', icls, dict(label=[str(v) for v in label], info=info, coq_check=checks[idx][:3000]),
                      note='Coq model and implementation differ')
    gfail, gerr = run_interval(ctx, 'agg', goals)
    if gerr:
        ctx.violation('correspondence', 'aggregation_function', 'interval goal files compile', 'harness', dict(error=gerr[-3000:]), theorem='interval_agg')
    for idx in gfail[:20]:
        g = glabels[idx]
        ctx.violation('correspondence', g['kind'] + '.aggregation_function', 'model == implementation (1e-9)', 'positive data',
                      dict(info=g, goal=goals[idx][:3000]), note='R formula and implementation differ by more than the tolerance')
    ctx.oracle_validation['np.argsort returns a sorting permutation (checked inside Coq per case)'] = \
        sum(1 for l, _ in labels if l[0] in ('grid', 'corpus'))

    # ---- implementation-side property oracle results
    for info, msg in oracle_hits[:20]:
        if 'lower_amt' in info and isinstance(info.get('x'), list):
            icls = active_input_class(info['x'], info['lower_amt'], info['upper_amt'])
            pred = 'zero removal count removes nothing' if icls != 'general' else 'band and counts'
            ctx.violation('impl-violates', 'AggActiveSet.__call__', pred, icls, info, expected=msg, got=info.get('impl'))
        elif 'lower_amt' in info:
            ctx.violation('impl-violates', 'AggActiveSet.__call__', 'counts are fractions rounded down', 'counts', info, expected=msg)
        else:
            site, pred = info.get('site', str(info.get('kind'))), info.get('pred', 'aggregation bounds')
            ctx.violation('impl-violates', site, pred, info.get('icls', 'aggregation'), info, expected=msg, got=info.get('impl'))

    if ctx.replay:
        ctx.extra['replay'] = 'the replayed case is part of the corpus / generated stream; see violations'


if __name__ == '__main__':
    vlib.main(run, 'C16')
