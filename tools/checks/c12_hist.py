"""C12, histories: module instances used more than once, several instances on ONE domain object.

Every scenario builds one DomainDefinition and several modules on it (ElementOperation with dof-level and node-level operator arrays,
NodalOperation, Strain voigt True/False, Stress, ElementAverage, ThermoMechanical; 2-D and 3-D) and evaluates them interleaved:
response, sensitivity, response on a NEW input array, sensitivity with another seed, response after the input array was modified IN
PLACE, a None seed, response on the first input again, the first seed again.  The arrays the modules returned earlier stay in the
hands of the harness.

 * correspondence: the history of every instance and what it returned each time are handed to Coq, which evaluates `hrun` of
   Model/ElemHist.v (module state as written) on the same history;
 * oracle (testing, counted as search evaluations): every result is compared with a fresh instance on a fresh domain (and, for the
   generic operators, with explicit loops), arrays returned earlier must keep their contents, caller-owned arrays (inputs, seeds,
   operator arrays) must be unchanged, the shared domain must be unchanged bit-for-bit, the transpose identity must hold at every
   call, repeating an input must repeat the result.
"""
import random as _random
from fractions import Fraction
import numpy as np
from vlib import zl, ql, zlit, qlit
import c13_hist

CLS = dict(elemop='ElementOperation', nodalop='NodalOperation', strain='Strain', stress='Stress', average='ElementAverage', thermo='ThermoMechanical')
P_FRESH_R = 'response on a used instance == response of a fresh instance for the same input'
P_FRESH_S = 'sensitivity on a used instance == sensitivity of a fresh instance for the same input and seed'
P_REPEAT = 'repeating an input / a seed on the same instance repeats the result'
P_HELD = 'arrays returned earlier keep their contents'
P_ARGS = 'caller-owned arrays (inputs, seeds, operator array) are unchanged'
P_DOM = 'module evaluation leaves the shared domain unchanged'
P_NONE = 'a None seed gives no sensitivity and no error'
P_TRANSPOSE = '<x, ElementOperation(u)> == <NodalOperation(x), u> at every call of a history'
P_RAISE = 'well-formed operator array and data are accepted'

HEADER_EXTRA = '''
From Pymoto Require Import Model.ElemHist.
Definition mobs_close (tol : Q) (a : mobs bigQ) (b : option (list (list Q))) : bool :=
  match a, b with MOut y, Some z => bqm_close tol y z | MNone, None => true | _, _ => false end.
Fixpoint hist_close (tol : Q) (a : list (mobs bigQ)) (b : list (option (list (list Q)))) : bool :=
  match a, b with
  | [], [] => true
  | x :: a', y :: b' => mobs_close tol x y && hist_close tol a' b'
  | _, _ => false
  end.
Definition eo_hist (g : grid) (em : @opmat bigQ) (ops : list (mop bigQ)) := hrun (eo_hstep g) (eo_prepare em) ops.
Definition no_hist (g : grid) (em : @opmat bigQ) (ops : list (mop bigQ)) := hrun no_hstep (no_prepare g em) ops.
'''


class Inst:
    """one module instance on the shared domain of its scenario"""

    def __init__(self, H, ctx, pym, scen, spec, events):
        self.H, self.ctx, self.pym, self.scen, self.spec, self.events = H, ctx, pym, scen, spec, events
        self.kind = spec['what']
        self.E = self.kind in ('elemop', 'strain', 'stress', 'average')      # nodal input, element output
        self.m = None
        self.om = None
        self.held = []          # (array object, expected contents, description)
        self.owned = []         # caller-owned arrays: (array object, expected contents, description)
        self.cur = None         # the array object currently set as input state
        self.first = {}         # event data key -> first result (for the repeat check)
        self.obs = []           # per event: ('resp' | 'sens', input data, result) for Coq
        self.resp = []          # (input copy, result copy) of the responses, in order
        self.dead = False
        self.nviol = 0
        self.k = -1
        if self.kind in ('elemop', 'nodalop'):
            self.EM = H.mk_arr(spec['em'], spec.get('em_dtype'))
            self.owned.append((self.EM, self.EM.copy(), 'operator array'))

    # -- building
    def build(self, d, v):
        pym, H, spec = self.pym, self.H, self.spec
        if self.kind == 'elemop':
            EM = self.EM if d is self.scen.d else self.EM.copy()
            return pym.ElementOperation(pym.Signal('u', v), domain=d, element_matrix=EM), None
        if self.kind == 'nodalop':
            EM = self.EM if d is self.scen.d else self.EM.copy()
            return pym.NodalOperation(pym.Signal('x', v), domain=d, element_matrix=EM), None
        return H.build_module(pym, spec, d, v)

    def arr(self, data, ev=None):
        """the caller-owned array of an event, in the dtype / memory layout the event names (values are the same)"""
        a = np.array(data, dtype=float)
        ev = ev or {}
        if ev.get('dtype') and np.all(a == np.round(a)):
            a = a.astype(ev['dtype'])
        lay = ev.get('layout')
        if lay == 'F' and a.ndim >= 2:
            a = np.asfortranarray(a)
        elif lay == 'strided':          # every second entry of a larger buffer along the last axis
            big = np.zeros(a.shape[:-1] + (2 * a.shape[-1],), dtype=a.dtype)
            big[..., ::2] = a
            a = big[..., ::2]
        if lay:
            self.ctx.count(f'history array layout {lay}' + ('' if a.flags.c_contiguous else ' (non-contiguous)'))
        if ev.get('dtype'):
            self.ctx.count(f'history array dtype {a.dtype}')
        return a

    def site(self, which):
        return f'{CLS[self.kind]}.{which}'

    def case(self):
        return dict(scenario=self.scen.name, grid=list(self.scen.grid), sizes=list(self.scen.hs), module=self.spec, events=self.events[:self.k + 1],
                    failing_event=self.k, shares_domain_with=[i.kind for i in self.scen.insts if i is not self],
                    note='all modules of the scenario are built on ONE DomainDefinition(*grid, *sizes) and evaluated round-robin, event by event; '
                         'resp new: the input signal gets a new array; resp inplace: the current input array is overwritten; sens: reset(), seed, sensitivity()')

    def bad(self, which, pred, expected=None, got=None):
        self.nviol += 1
        if self.nviol <= 3:
            self.ctx.violation('impl-violates', self.site(which), pred, self.kind, self.case(), expected=expected, got=got)

    # -- checks after every event
    def after(self, which):
        for i, (a, exp, what) in enumerate(self.held):
            if not c13_hist.same_array(a, exp):
                self.bad(which, P_HELD, expected=dict(array=what, values=exp.tolist()), got=a.tolist())
                self.held[i] = (a, a.copy(), what)
        for i, (a, exp, what) in enumerate(self.owned):
            if not c13_hist.same_array(a, exp):
                self.bad(which, P_ARGS, expected=dict(array=what, values=exp.tolist()), got=a.tolist())
                self.owned[i] = (a, a.copy(), what)
        self.scen.check_domain(self, which)

    def fresh_module(self, v):
        """a fresh instance of the same module on a fresh domain, evaluated once on v"""
        mf, _ = self.build(self.scen.fresh_domain(), np.array(v, dtype=float))
        mf.response()
        return mf

    def step(self, k):
        self.k = k
        ev = self.events[k]
        self.ctx.search_evaluations += 1
        self.ctx.count(f'history event {ev["ev"]} on {CLS[self.kind]}')
        which = '_response' if ev['ev'] == 'resp' else '_sensitivity'
        try:
            self._step(ev, which)
        except Exception as e:  # noqa -- every event is well-formed: an exception is a failing input
            self.bad(which, P_RAISE, expected='no exception', got=f'{type(e).__name__}: {str(e)[:300]}')
            self.dead = True

    def _step(self, ev, which):
        H, d = self.H, self.scen.d
        if ev['ev'] == 'resp':
            data = self.arr(ev['v'], ev)
            if self.m is None:
                self.cur = data.copy()
                self.m, self.om = self.build(d, self.cur)
                self.owned.append((self.cur, self.cur.copy(), f'input array of event {self.k}'))
            elif ev.get('mode') == 'inplace':
                self.cur[...] = data
                data = np.array(self.cur, dtype=float)      # what the array holds now (an integer-typed array keeps integers)
                self.owned = [(a, a.copy(), w) if a is self.cur else (a, e, w) for a, e, w in self.owned]
            else:
                self.cur = data            # in the layout / dtype of the event
                data = np.array(data, dtype=float)
                self.m.sig_in[0].state = self.cur
                self.owned.append((self.cur, self.cur.copy(), f'input array of event {self.k}'))
            self.m.response()
            y = self.m.sig_out[0].state
            self.obs.append(('resp', data, np.array(y, dtype=float)))
            self.resp.append((data.copy(), np.array(y, dtype=float)))
            self.after(which)
            ref = np.asarray(self.fresh_module(data).sig_out[0].state, dtype=float)
            if H.differs(y, ref):
                self.bad(which, P_FRESH_R, expected=ref.tolist(), got=np.asarray(y).tolist())
            key = ('resp', data.tobytes())
            if key in self.first and not c13_hist.same_array(np.asarray(y), self.first[key]):
                self.bad(which, P_REPEAT, expected=self.first[key].tolist(), got=np.asarray(y).tolist())
            self.first.setdefault(key, np.array(y))
            if self.kind in ('elemop', 'nodalop'):
                self.explicit(ev, data, np.asarray(y, dtype=float), which)
            self.held.append((y, np.array(y), f'state returned by event {self.k} (response)'))
        elif ev['ev'] == 'sens':
            seed = self.arr(np.array(ev['dy'], dtype=float).reshape(np.shape(self.m.sig_out[0].state)), ev)
            seed0 = np.array(seed, dtype=float)
            self.owned.append((seed, seed0, f'seed of event {self.k}'))
            self.m.reset()
            self.m.sig_out[0].sensitivity = seed
            self.m.sensitivity()
            g = self.m.sig_in[0].sensitivity
            self.obs.append(('sens', seed0, np.array(g, dtype=float)))
            self.after(which)
            mf = self.fresh_module(self.cur)
            mf.sig_out[0].sensitivity = seed0.copy()
            mf.sensitivity()
            ref = np.asarray(mf.sig_in[0].sensitivity, dtype=float)
            if H.differs(g, ref):
                self.bad(which, P_FRESH_S, expected=ref.tolist(), got=np.asarray(g).tolist())
            key = ('sens', self.cur.tobytes(), seed0.tobytes())
            if key in self.first and not c13_hist.same_array(np.asarray(g), self.first[key]):
                self.bad(which, P_REPEAT, expected=self.first[key].tolist(), got=np.asarray(g).tolist())
            self.first.setdefault(key, np.array(g))
            self.held.append((g, np.array(g), f'sensitivity returned by event {self.k}'))
        else:   # a None seed
            self.m.reset()
            self.m.sig_out[0].sensitivity = None
            self.m.sensitivity()
            if self.m.sig_in[0].sensitivity is not None:
                self.bad(which, P_NONE, expected=None, got=np.asarray(self.m.sig_in[0].sensitivity).tolist())
            self.after(which)

    def explicit(self, ev, data, y, which):
        """explicit loops for the generic operators (no einsum / add.at), on the connectivity of a fresh domain"""
        H, df = self.H, self.scen.fresh_domain()
        EM = np.asarray(self.owned[0][1], dtype=float)
        if self.kind == 'elemop':
            nd = data.size // df.nnodes
            ref = H.ref_gather(H.eff_operator(EM, df.elemnodes, nd), df.get_dofconnectivity(nd), data)
            pred = 'y[.., e] == sum_k B[.., k] u[dofconn[e, k]]'
        else:
            nd = EM.shape[-1] // df.elemnodes
            ref = H.ref_scatter(EM, df.get_dofconnectivity(nd), nd * df.nnodes, data)
            pred = 'f[dofconn[e, k]] accumulates sum_.. A[.., k] x[.., e]'
        if H.differs(y, ref):
            self.bad(which, pred, expected=ref.tolist(), got=y.tolist())

    # -- Coq text
    def coq_check(self):
        H = self.H
        a, b, c = self.scen.grid
        g = f'(G {a} {b} {c})'
        rows = lambda arr_: np.asarray(arr_, dtype=float).reshape(-1, np.shape(arr_)[-1]) if np.ndim(arr_) > 0 else np.asarray(arr_, dtype=float).reshape(1, 1)   # noqa
        one = lambda arr_: np.asarray(arr_, dtype=float).reshape(1, -1)     # noqa
        ops, obs, sc = [], [], 1.0
        for what, inp, res in self.obs:
            sc = max(sc, float(np.abs(res).max(initial=0.0)), float(np.abs(inp).max(initial=0.0)))
            if self.E:
                if what == 'resp':
                    ops.append(f'MResp (bqm {H.qmat(one(inp))})')
                    obs.append(f'Some {H.qmat(rows(res))}')
                else:
                    ops.append(f'MSens (bqm {H.qmat(rows(inp))})')
                    obs.append(f'Some {H.qmat(one(res))}')
            else:
                if what == 'resp':
                    ops.append(f'MResp (bqm {H.qmat(rows(inp))})')
                    obs.append(f'Some {H.qmat(one(res))}')
                else:
                    ops.append(f'MSens (bqm {H.qmat(one(inp))})')
                    obs.append(f'Some {H.qmat(rows(res))}')
        opl, obl = '[' + ';\n     '.join(ops) + ']', '[' + ';\n     '.join(obs) + ']'
        fn = 'eo_hist' if self.E else 'no_hist'
        if self.kind in ('elemop', 'nodalop'):
            EM = np.asarray(self.owned[0][1], dtype=float)
            om = f'(OM {zl(list(EM.shape[:-1]))} {EM.shape[-1]} {H.qmat(EM.reshape(-1, EM.shape[-1]))})'
            return f'hist_close 0 ({fn} {g} {om} {opl})\n    {obl}'
        EMi = np.array(self.m.element_matrix, dtype=float)
        tol = f'(rel {qlit(H.fr(sc * max(1.0, float(np.abs(EMi).max()))))})'
        if self.kind == 'average':
            return f'hist_close {tol} ({fn} {g} {self.om} {opl})\n    {obl}'
        return f'(let M := {self.om} in israt M && hist_close {tol} ({fn} {g} (rat M) {opl})\n    {obl})'


class Scenario:
    def __init__(self, H, ctx, pym, name, grid, hs, kinds=None):
        self.H, self.ctx, self.pym, self.name, self.grid, self.hs, self.kinds = H, ctx, pym, name, tuple(grid), list(hs), kinds
        self.d = self.fresh_domain()
        self.snap = c13_hist.snapshot(self.d)
        self.insts = []

    def fresh_domain(self):
        return self.pym.DomainDefinition(*self.grid, *self.H.mk_sizes(self.hs, self.kinds))

    def add(self, spec, events):
        spec = dict(spec, grid=list(self.grid), sizes=list(self.hs))
        if self.kinds:
            spec['size_kinds'] = list(self.kinds)
        self.insts.append(Inst(self.H, self.ctx, self.pym, self, spec, events))

    def check_domain(self, inst, which):
        now = c13_hist.snapshot(self.d)
        diff = c13_hist.snap_diff(self.snap, now)
        if diff:
            inst.bad(which, P_DOM, expected={k: c13_hist.describe(self.snap[k]) for k in diff[:3]}, got={k: c13_hist.describe(now.get(k)) for k in diff[:3]})
            for k in diff:
                if k in now:
                    self.snap[k] = now[k]

    def run(self):
        n = max(len(i.events) for i in self.insts)
        for k in range(n):
            for i in self.insts:
                if k < len(i.events) and not i.dead:
                    i.step(k)
        # transpose identity at every call: pairs (ElementOperation, NodalOperation) built from the same operator array
        for e in self.insts:
            for nn in self.insts:
                if e.kind == 'elemop' and nn.kind == 'nodalop' and e.spec.get('pair') is not None and e.spec.get('pair') == nn.spec.get('pair'):
                    for k, ((u, y), (x, f)) in enumerate(zip(e.resp, nn.resp)):
                        self.ctx.search_evaluations += 1
                        lhs, rhs = float(np.sum(y * x.reshape(y.shape))), float(np.dot(f, u))
                        if abs(lhs - rhs) > 1e-9 * max(1.0, abs(lhs)):
                            nn.k = len(nn.events) - 1
                            nn.bad('_response', P_TRANSPOSE, expected=lhs, got=dict(rhs=rhs, response_number=k))


# ---------------------------------------------------------------------------------------------------- generators
def ints(r, n, lo, hi, q=1):
    return [r.randint(q * lo, q * hi) / q for _ in range(n)]


def template(r, nin, nout, v1=None, v2=None, xdata=False, order=None, int_second=False):
    """the event list of one instance; nin / nout: sizes of the input and of the flattened output"""
    mk_in = (lambda: [r.choice((0.0, 0.25, 0.5, 1.0)) for _ in range(nin)]) if xdata else (lambda: ints(r, nin, -5, 5, 4))
    v1 = v1 if v1 is not None else mk_in()
    v2 = v2 if v2 is not None else mk_in()
    v3 = mk_in()
    s1, s2 = ints(r, nout, -3, 3, 2), ints(r, nout, -3, 3, 2)
    if int_second:
        v2 = [float(round(v)) for v in v2]
    ev = [dict(ev='resp', v=v1, mode='new'), dict(ev='sens', dy=s1),
          dict(ev='resp', v=v2, mode='new', layout='strided', **(dict(dtype='int64') if int_second else {})), dict(ev='sens', dy=s2, layout='F'),
          dict(ev='resp', v=v3, mode='inplace'), dict(ev='sens_none'), dict(ev='resp', v=v1, mode='new'), dict(ev='sens', dy=s1)]
    if order is not None:       # a random history: the first event stays a response
        rest = [dict(e) for e in ev[1:]]
        order.shuffle(rest)
        ev = [ev[0]] + rest[:order.randint(3, len(rest))]
    return ev


def affine(H, d, G, c0):
    return H.affine_field(d, G, c0).tolist()


def build_scenarios(H, ctx, pym):
    rs = _random.Random(1214)
    scen = []

    def generic(s, d, r, lead, ndof, node_level=False, pair=None, order=None, em=None, int_second=False):
        en, nel, nn = d.elemnodes, d.nel, d.nnodes
        kd = en if node_level else en * ndof
        nrow = int(np.prod(lead)) if lead else 1
        if em is None:
            em = np.array(ints(r, nrow * kd, -4, 4), dtype=float).reshape(list(lead) + [kd]).tolist()
        oshape = ([ndof] if (node_level and ndof > 1) else []) + list(lead) + [nel]
        s.add(dict(what='elemop', em=em, ndof=ndof, pair=pair), template(r, nn * ndof, int(np.prod(oshape)), order=order, int_second=int_second))
        return em

    def nodal(s, d, r, lead, ndof, em=None, pair=None, order=None):
        en, nel, nn = d.elemnodes, d.nel, d.nnodes
        nrow = int(np.prod(lead)) if lead else 1
        if em is None:
            em = np.array(ints(r, nrow * en * ndof, -4, 4), dtype=float).reshape(list(lead) + [en * ndof]).tolist()
        ev = template(r, nrow * nel, nn * ndof, order=order)
        for e in ev:      # element data of shape (lead.., nel)
            if e['ev'] == 'resp':
                e['v'] = np.array(e['v']).reshape(list(lead) + [nel]).tolist()
        s.add(dict(what='nodalop', em=em, ndof=ndof, pair=pair), ev)

    G2a, G2b = [[2, 1], [3, -3]], [[-1, 2], [0, 2]]
    G3a, G3b = [[2, 1, 4], [2, -3, 5], [-2, 2, 5]], [[1, 0, -2], [3, 2, 1], [0, -1, -3]]
    # ---- 2-D, thickness 2, every module kind on ONE domain
    s = Scenario(H, ctx, pym, 'all-2d', (2, 2, 0), (0.5, 2.0, 2.0))
    d = s.d
    em = generic(s, d, rs, [2], 2, pair='A')
    nodal(s, d, rs, [2], 2, em=em, pair='A')
    generic(s, d, rs, [3], 2, node_level=True, int_second=True)
    nodal(s, d, rs, [], 1)              # ndof = 1: the dof connectivity IS the node connectivity
    nodal(s, d, rs, [2, 2], 1)
    nu2 = d.nnodes * 2
    s.add(dict(what='strain', kw=dict(voigt=True)), template(rs, nu2, 3 * d.nel, v1=affine(H, d, G2a, [1, -2]), v2=affine(H, d, G2b, [0, 1])))
    s.add(dict(what='strain', kw=dict(voigt=False)), template(rs, nu2, 3 * d.nel, v1=affine(H, d, G2a, [1, -2]), v2=affine(H, d, G2b, [0, 1])))
    s.add(dict(what='stress', kw=dict(E=2.5, nu=0.25, plane='plane stress')), template(rs, nu2, 3 * d.nel, v1=affine(H, d, G2a, [0, 0]), v2=affine(H, d, G2b, [2, 1])))
    s.add(dict(what='average', kw=dict(ndof=2)), template(rs, nu2, 2 * d.nel))
    s.add(dict(what='thermo', kw=dict(E=2.5, nu=0.25, alpha=0.5, plane='plane stress')), template(rs, d.nel, nu2, xdata=True))
    s.add(dict(what='thermo', kw=dict(E=2, nu=0, alpha=1, plane='Plane-Strain')), template(rs, d.nel, nu2, xdata=True))
    scen.append(s)
    # ---- 3-D, non-cubic elements
    s = Scenario(H, ctx, pym, 'all-3d', (1, 2, 1), (1.0, 0.5, 2.0))
    d = s.d
    nu3 = d.nnodes * 3
    em = generic(s, d, rs, [2], 3, pair='B')
    nodal(s, d, rs, [2], 3, em=em, pair='B')
    nodal(s, d, rs, [], 1)
    s.add(dict(what='strain', kw=dict(voigt=False)), template(rs, nu3, 6 * d.nel, v1=affine(H, d, G3a, [1, -2, 3]), v2=affine(H, d, G3b, [0, 1, 0])))
    s.add(dict(what='stress', kw=dict(E=2.5, nu=0.25, plane='strain')), template(rs, nu3, 6 * d.nel, v1=affine(H, d, G3a, [0, 0, 0]), v2=affine(H, d, G3b, [2, 1, 0])))
    s.add(dict(what='thermo', kw=dict(E=2.5, nu=0.25, alpha=0.5, plane='strain')), template(rs, d.nel, nu3, xdata=True))
    scen.append(s)
    # ---- integer-valued sizes handed over as Python ints (integer element_size array), 2-D
    s = Scenario(H, ctx, pym, 'int-sizes-2d', (3, 1, 0), (2, 1, 1), kinds=['int'] * 3)
    d = s.d
    nodal(s, d, rs, [], 2)
    generic(s, d, rs, [], 1, node_level=True, int_second=True)
    s.add(dict(what='average', kw=dict(ndof=1)), template(rs, d.nnodes, d.nel))
    s.add(dict(what='thermo', kw=dict(E=2, nu=0, alpha=1, plane='plane stress')), template(rs, d.nel, d.nnodes * 2, xdata=True))
    scen.append(s)
    # ---- random histories (generic operators and 2-D derived modules): random order of the events
    r = ctx.rng
    for n in range(3 if ctx.quick() else 20):
        grid = (r.randint(1, 3), r.randint(1, 2), 0) if r.random() < 0.7 else (r.randint(1, 2), 1, r.randint(1, 2))
        dim = 2 if grid[2] == 0 else 3
        hs = [r.choice((0.5, 1.0, 2.0)) for _ in range(3)]
        s = Scenario(H, ctx, pym, f'random{n}', grid, hs)
        d = s.d
        lead = [r.randint(1, 3) for _ in range(r.choice((0, 1, 2)))]
        ndof = r.choice((1, 2, 3))
        em = generic(s, d, r, lead, ndof, pair='R', order=None)
        nodal(s, d, r, lead, ndof, em=em, pair='R', order=None)
        nodal(s, d, r, [r.randint(1, 2) for _ in range(r.choice((0, 1)))], r.choice((1, dim)), order=r)
        generic(s, d, r, [r.randint(1, 2) for _ in range(r.choice((0, 1)))], r.choice((1, 2)), node_level=r.random() < 0.5, order=r)
        if dim == 2:
            k = r.choice(('strain', 'stress', 'average', 'thermo'))
            nu2 = d.nnodes * 2
            if k == 'strain':
                s.add(dict(what='strain', kw=dict(voigt=r.random() < 0.5)), template(r, nu2, 3 * d.nel, order=r))
            elif k == 'stress':
                s.add(dict(what='stress', kw=dict(E=r.choice((1.0, 2.5)), nu=r.choice((0.25, 0.0)), plane=r.choice(('strain', 'stress')))), template(r, nu2, 3 * d.nel, order=r))
            elif k == 'average':
                s.add(dict(what='average', kw=dict(ndof=2)), template(r, nu2, 2 * d.nel, order=r))
            else:
                s.add(dict(what='thermo', kw=dict(E=2.5, nu=0.25, alpha=0.5, plane=r.choice(('strain', 'stress')))), template(r, d.nel, nu2, xdata=True, order=r))
        scen.append(s)
    return scen


def run_histories(ctx, pym, add, H):
    """H: the C12 check module (helpers); add(label, coq_expr, nontrivial, case)"""
    scen = build_scenarios(H, ctx, pym)
    out = []
    for s in scen:
        s.run()
        for i in s.insts:
            ctx.count(f'history instance {CLS[i.kind]} dim{s.d.dim}')
            if i.m is None or not i.obs:
                continue
            try:
                expr = i.coq_check()
            except Exception as e:  # noqa -- unrepresentable observation (NaN, wrong rank): failing input, reported by the oracle part
                i.bad('_response', 'observation is representable (finite numbers)', got=f'{type(e).__name__}: {str(e)[:200]}')
                continue
            label = (i.kind, 'history', s.name, str(i.spec.get('kw')), str(i.spec.get('em'))[:60], len(i.obs), str(i.events)[:300])
            add(label, expr, True, dict(scenario=s.name, grid=list(s.grid), sizes=list(s.hs), module=i.spec, events=i.events))
            out.append(i)
    return out
