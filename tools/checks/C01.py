"""C01 — every module's sensitivity is the exact adjoint of its response."""
import io, contextlib, warnings
from fractions import Fraction
import numpy as np
import scipy.sparse as sps
import vlib
from vlib import zl, ql, zlit, qlit
import modzoo

HEADER_DISPATCH = '''From Coq Require Import ZArith List Bool.
From Pymoto Require Import Base.Num Base.Cmp Model.Dispatch Model.DispatchZ.
Import ListNotations.
Open Scope Z_scope.
'''
HEADER_F1 = '''From Coq Require Import ZArith QArith List Bool.
From Pymoto Require Import Base.Num Base.Cmp Base.SparseLin.
Import ListNotations.
Open Scope Q_scope.
Definition T3 (d s : nat) (c : Q) : @triple Q := (d, s, c).
'''
HEADER_F3 = '''From Coq Require Import ZArith QArith List Bool.
From Pymoto Require Import Base.Num Base.Cmp.
Import ListNotations.
Open Scope Q_scope.
Definition mv (M : list (list Q)) (x : list Q) : list Q := map (fun r => dot r x) M.
Fixpoint tr (M : list (list Q)) (n : nat) : list (list Q) :=
  match n with O => [] | S k => tr M k ++ [map (fun r => nth k r 0) M] end.
Definition mm (A B : list (list Q)) (n : nat) : list (list Q) := map (fun r => mv (tr B n) r) A.
Definition outer (a b : list Q) : list (list Q) := map (fun x => map (fun y => Qred (x * y)) b) a.
Definition mneg (A : list (list Q)) := map (map Qopp) A.
Definition madd (A B : list (list Q)) : list (list Q) := map (fun p => map (fun q => Qred (fst q + snd q)) (combine (fst p) (snd p))) (combine A B).
Definition mscale (c : Q) (A : list (list Q)) : list (list Q) := map (map (fun x => Qred (c * x))) A.
Definition mzero (n : nat) : list (list Q) := repeat (repeat 0 n) n.
(* sum_i c_i q_i (x) q_i over (c_i, q_i) *)
Definition dyadsum (n : nat) (l : list (Q * list Q)) : list (list Q) :=
  fold_left (fun acc p => madd acc (mscale (fst p) (outer (snd p) (snd p)))) l (mzero n).
Definition ident (n : nat) : list (list Q) := map (fun i => map (fun j => if Nat.eqb i j then 1 else 0) (seq 0 n)) (seq 0 n).
'''
HEADER_F2 = '''From Coq Require Import Reals List.
From Interval Require Import Tactic.
From Pymoto Require Import Model.Formulas.
Import ListNotations.
Open Scope R_scope.
Ltac go := unfold pnorm, pnorm_grad, ks, ks_grad, softmm, softmm_grad, sumf, rpow, cnorm, cnorm_sens_re, cnorm_sens_im,
  scaling_resp, scaling_sens, agg_resp, agg_sens; cbn [fold_right map nth]; interval with (i_prec 90).
'''


def optz(v):
    return 'None' if v is None else f'(Some {zl([int(x) for x in np.asarray(v).ravel()])})'


# --------------------------------------------------------------------------------------------- dispatch
def dispatch_cases(ctx, pym, n):
    """random user-defined integer modules driven through random protocol scripts on the REAL Module/Signal classes"""
    rng = ctx.rng

    class IntMod(pym.Module):
        def _prepare(self, Ms, lens, nonez, style='fresh'):
            self.Ms, self.lens, self.nonez, self.style = Ms, lens, nonez, style
            self.buf = np.zeros(sum(lens), dtype=int)

        def _response(self, *xs):
            v = np.concatenate([np.atleast_1d(x) for x in xs]) if xs else np.zeros(0, dtype=int)
            return [M @ v for M in self.Ms]

        def _sensitivity(self, *ws):
            if self.style == 'passthrough':      # hands the seed object itself back (identity module)
                return [ws[0]]
            if self.style == 'cached':           # reuses one internal buffer for every call and returns views of it
                g = self.buf
                g[:] = 0
                for M, w in zip(self.Ms, ws):
                    if w is not None:
                        g += M.T @ w
            else:
                g = np.zeros(sum(self.lens), dtype=int)
                for M, w in zip(self.Ms, ws):
                    if w is not None:
                        g = g + M.T @ w
            out, k = [], 0
            for ln, nz in zip(self.lens, self.nonez):
                out.append(None if nz else g[k:k + ln])
                k += ln
            return out
    checks, labels = [], []
    for t in range(n):
        nsig_in = rng.randint(1, 3)
        nin = rng.randint(1, 3)
        ins = [rng.randrange(nsig_in) for _ in range(nin)]            # a signal may be used twice
        siglen = [rng.randint(1, 3) for _ in range(nsig_in)]
        nout = rng.randint(1, 3)
        outs = [nsig_in + j for j in range(nout)]
        lens = [siglen[i] for i in ins]
        outlen = [rng.randint(1, 3) for _ in range(nout)]
        Ms = [np.array([[rng.randint(-3, 3) for _ in range(sum(lens))] for _ in range(outlen[j])], dtype=int).reshape(outlen[j], sum(lens))
              for j in range(nout)]
        nonez = [rng.random() < 0.15 for _ in ins]
        style = rng.choice(['fresh', 'fresh', 'cached', 'passthrough'])
        if style == 'passthrough':
            nin, nout = 1, 1
            ins, outs = [0], [nsig_in]
            lens, outlen = [siglen[0]], [siglen[0]]
            Ms, nonez = [np.eye(siglen[0], dtype=int)], [False]
        ctx.count('dispatch_style:' + style)
        sigs = [pym.Signal(f's{i}', np.array([rng.randint(-4, 4) for _ in range(siglen[i])])) for i in range(nsig_in)] + \
               [pym.Signal(f'o{j}') for j in range(nout)]
        env0 = [(s.state, s.sensitivity) for s in sigs]
        m = IntMod([sigs[i] for i in ins], [sigs[o] for o in outs], Ms, lens, nonez, style)
        ops, coq_ops = ['resp'], ['OResp']
        m.response()
        for _ in range(rng.randint(1, 7)):
            k = rng.random()
            if k < 0.35:
                o = rng.choice(outs)
                w = None if rng.random() < 0.2 else np.array([rng.randint(-3, 3) for _ in range(outlen[o - nsig_in])])
                sigs[o].sensitivity = w
                coq_ops.append(f'OSeed {o} {optz(w)}')
                ops.append(('seed', o))
            elif k < 0.7:
                m.sensitivity()
                coq_ops.append('OSens')
                ops.append('sens')
            elif k < 0.8:
                m.reset()
                coq_ops.append('OReset')
                ops.append('reset')
            elif k < 0.9:
                i = rng.randrange(nsig_in)
                x = np.array([rng.randint(-4, 4) for _ in range(siglen[i])])
                sigs[i].state = x
                coq_ops.append(f'OSet {i} {zl(x.tolist())}')
                ops.append(('set', i))
            else:
                m.response()
                coq_ops.append('OResp')
                ops.append('resp')
        for o in ops:
            ctx.count('dispatch_op:' + (o if isinstance(o, str) else o[0]))
        final = '[' + '; '.join(f'mks {optz(s.state)} {optz(s.sensitivity)}' for s in sigs) + ']'
        init = '[' + '; '.join(f'mks {optz(a)} {optz(b)}' for a, b in env0) + ']'
        mats = '[' + '; '.join(zl(M.tolist()) for M in Ms) + ']'
        expr = (f'env_eqb (run (mk_mod {zl(ins)}%nat {zl(outs)}%nat {mats} {zl(lens)}%nat [{"; ".join(vlib.blit(b) for b in nonez)}]) '
                f'{init} [{"; ".join(coq_ops)}]) {final}')
        expr = expr.replace('%nat', '%nat')
        checks.append(expr)
        labels.append(('dispatch', t, tuple(map(str, ops))))
        ctx.case(('dispatch', ins, outs, [M.tolist() for M in Ms], tuple(map(str, ops))), len(ops) > 2,
                 sample=dict(kind='dispatch', ins=ins, outs=outs, ops=[str(o) for o in ops]))
    return checks, labels


# --------------------------------------------------------------------------------------------- F1 probing
def topair(a, conj=False):
    a = modzoo.dense(a)
    a = np.asarray(a)
    if np.iscomplexobj(a):
        return np.concatenate([a.real.ravel(), (-a.imag if conj else a.imag).ravel()])
    return a.astype(float).ravel()


def f1_case(entry, pym, rng, active=None, budget=None):
    """probe a module that is (affine-)linear in the inputs `active` (all by default) with the other inputs fixed at the
    entry's point: returns (Coq check, meta) or None when not applicable"""
    m, ins, outs = entry['build']()
    base = [modzoo._c(x) for x in entry['ins']]
    active = list(range(len(base))) if active is None else active
    if any(sps.issparse(base[k]) for k in active):
        return None
    cplx_in = [np.iscomplexobj(x) for x in base]
    sizes = [np.size(base[k]) * (2 if cplx_in[k] else 1) for k in active]
    n = sum(sizes)
    if n > 60:
        return None

    def setx(vec):
        k0 = 0
        for k, sz in zip(active, sizes):
            s, x, c = ins[k], base[k], cplx_in[k]
            seg = vec[k0:k0 + sz]
            k0 += sz
            if c:
                val = (seg[:sz // 2] + 1j * seg[sz // 2:]).reshape(np.shape(x))
            else:
                val = seg.reshape(np.shape(x))
            if np.ndim(x) == 0 and not isinstance(x, np.ndarray):
                val = complex(val) if c else float(val)
            s.state = val

    def resp(vec):
        setx(vec)
        m.response()
        return np.concatenate([topair(s.state) for s in outs])
    y0 = resp(np.zeros(n))
    mm = y0.size
    if mm * n > 120000 or mm > 3000:
        return None
    T = np.zeros((mm, n))
    for j in range(n):
        e = np.zeros(n)
        e[j] = 1.0
        T[:, j] = resp(e) - y0
    x = rng.integers(-3, 4, size=n).astype(float)
    yx = resp(x) - y0
    cplx_out = [np.iscomplexobj(modzoo.dense(s.state)) for s in outs]
    wpair, seeds = [], []
    for s, c in zip(outs, cplx_out):
        shp = np.shape(modzoo.dense(s.state))
        w = rng.integers(-3, 4, size=shp).astype(float)
        if c:
            w = w + 1j * rng.integers(-3, 4, size=shp)
        seeds.append(w)
        wpair.append(topair(w, conj=True))
    for s, w in zip(outs, seeds):
        s.sensitivity = w if np.ndim(w) else (complex(w) if np.iscomplexobj(w) else float(w))
    m.sensitivity()
    g = []
    for k, sz in zip(active, sizes):
        gi, c = ins[k].sensitivity, cplx_in[k]
        if gi is None:
            g.append(np.zeros(sz))
        elif c:
            g.append(topair(np.asarray(gi) + 0j, conj=True))
        else:
            g.append(np.real(np.asarray(gi, dtype=complex)).ravel())
    g = np.concatenate(g)
    wv = np.concatenate(wpair)
    if budget is not None and float(np.count_nonzero(T)) * mm > budget:
        return None        # quick tier: `apply T` costs nnz * m list steps in Coq (a 3-D stiffness matrix of 54 dofs needs minutes)
    trip = [(i, j, Fraction(float(T[i, j]))) for i in range(mm) for j in range(n) if T[i, j] != 0.0]
    scale = max(1.0, float(np.max(np.abs(T), initial=0)) * 3 * max(n, mm) * 3)
    tol = Fraction(scale) / 10 ** 9
    F = lambda a: [Fraction(float(v)) for v in a]
    tl = '[' + '; '.join(f'T3 {i} {j} {qlit(c)}' for i, j, c in trip) + ']'
    expr = (f'(let T := {tl} in tboundedb {mm} {n} T && '
            f'Ql_close {qlit(tol)} (apply T {mm} {ql(F(x))}) {ql(F(yx))} && '
            f'Ql_close {qlit(tol)} (apply (transpose T) {n} {ql(F(wv))}) {ql(F(g))})')
    return expr, dict(m=mm, n=n, nnz=len(trip), active=active)


# --------------------------------------------------------------------------------------------- F2 interval goals
def rl(x):
    f = Fraction(float(x))
    s = f'{f.numerator} / {f.denominator}' if f.denominator != 1 else f'{f.numerator}'
    return f'({s})'


def f2_goals(ctx, pym, n):
    rng = np.random.default_rng(ctx.seed + 7)
    goals, labels = [], []

    def goal(lhs, val, scale, label):
        goals.append(f'Goal Rabs ({lhs} - {rl(val)}) <= {rl(1e-9 * max(1.0, abs(scale)))}. Proof. go. Qed.')
        labels.append(label)
        ctx.case(('f2', label, lhs[:200]), True, sample=dict(kind='interval goal', goal=goals[-1][:300]))
    for t in range(n):
        kind = ('PNorm', 'KSFunction', 'SoftMinMax', 'ComplexNorm', 'Scaling')[t % 5]
        ctx.count('f2:' + kind)
        if kind in ('PNorm', 'KSFunction', 'SoftMinMax'):
            nn = int(rng.integers(1, 6))
            x = rng.random(nn) * 2 + 0.25
            par = float(rng.choice([-4.0, -2.0, 1.0, 2.0, 3.5, 6.0]))
            scaled = rng.random() < 0.4
            kw = {dict(PNorm='p', KSFunction='rho', SoftMinMax='alpha')[kind]: par}
            if scaled:
                kw['scaling'] = pym.AggScaling('max' if par > 0 else 'min')
            sx, sy = pym.Signal('x', x.copy()), pym.Signal('y')
            m = getattr(pym, kind)([sx], [sy], **kw)
            m.response()
            dfdy = float(rng.integers(1, 4))
            sy.sensitivity = dfdy
            m.sensitivity()
            sf = float(m.sf)
            fn = dict(PNorm='pnorm', KSFunction='ks', SoftMinMax='softmm')[kind]
            xs = '[' + '; '.join(rl(v) for v in x) + ']'
            goal(f'agg_resp {rl(sf)} ({fn} {rl(par)}) {xs}', float(sy.state), float(sy.state), (kind, 'value', par, nn, scaled))
            j = int(rng.integers(nn))
            goal(f'nth {j} (agg_sens {rl(sf)} {rl(dfdy)} ({fn}_grad {rl(par)} {xs})) 0', float(sx.sensitivity[j]),
                 float(np.max(np.abs(sx.sensitivity))), (kind, 'gradient', par, nn, scaled))
        elif kind == 'ComplexNorm':
            a, b = float(rng.standard_normal()), float(rng.standard_normal())
            sz, sA = pym.Signal('z', np.array([a + 1j * b])), pym.Signal('A')
            m = pym.ComplexNorm([sz], [sA])
            m.response()
            dA = float(rng.integers(1, 4))
            sA.sensitivity = np.array([dA])
            m.sensitivity()
            goal(f'cnorm {rl(a)} {rl(b)}', float(sA.state[0]), 1.0, (kind, 'value'))
            goal(f'cnorm_sens_re {rl(dA)} {rl(a)} {rl(b)}', float(np.real(sz.sensitivity[0])), dA, (kind, 'sens_re'))
            goal(f'cnorm_sens_im {rl(dA)} {rl(a)} {rl(b)}', float(np.imag(sz.sensitivity[0])), dA, (kind, 'sens_im'))
        else:
            mode = int(rng.integers(3))
            x0, x1 = float(rng.random() + 0.5), float(rng.random() + 0.5)
            lim, sc = float(rng.random() + 0.5), float(rng.integers(1, 9))
            kw = [dict(scaling=sc), dict(scaling=sc, minval=lim), dict(scaling=sc, maxval=lim)][mode]
            sx, sy = pym.Signal('x', x0), pym.Signal('y')
            m = pym.Scaling([sx], [sy], **kw)
            m.response()           # freezes sf on the first value in mode 0
            sx.state = x1
            m.response()
            dy = float(rng.integers(1, 4))
            sy.sensitivity = dy
            m.sensitivity()
            sf = sc / abs(x0) if mode == 0 else sc
            goal(f'scaling_resp {mode} {rl(sf)} {rl(lim)} {rl(x1)}', float(sy.state), float(sy.state), (kind, 'value', mode))
            goal(f'scaling_sens {mode} {rl(sf)} {rl(lim)} {rl(dy)}', float(sx.sensitivity), float(sx.sensitivity), (kind, 'sens', mode))
    return goals, labels


def run_goals(ctx, name, header, goals, labels, chunk=40):
    """compile files of interval goals; a failing goal = a failing case (first failure per shard reported)"""
    from concurrent.futures import ThreadPoolExecutor
    import re, os
    shards = [(k, goals[k:k + chunk]) for k in range(0, len(goals), chunk)]

    def one(sh):
        k, gs = sh
        p = ctx.write_gen(f'goals_{name}_{k // chunk}.v', header + '\n' + '\n'.join(gs) + '\n')
        rc, out, err = ctx.coqc(p, 900)
        if rc == 0:
            return None
        mline = re.search(r'line (\d+)', err)
        idx = None
        if mline:
            ln = int(mline.group(1)) - (header.count('\n') + 1)
            idx = k + max(0, min(len(gs) - 1, ln - 1))
        return idx, err
    fails = []
    with ThreadPoolExecutor(max_workers=int(os.environ.get('VERIF_COQ_JOBS', '6'))) as ex:
        for r in ex.map(one, shards):
            if r is not None:
                fails.append(r)
    return fails


# --------------------------------------------------------------------------------------------- F3 premises
def f3_cases(ctx, pym, n):
    """the premises of the secant theorems hold for what the implementation returns (exact Q, 1e-9):
    LinSolve: A u = b, A^T db = w, dA = -db (x) u;   Inverse: A B = 1, dA = -B^T W B^T"""
    rng = np.random.default_rng(ctx.seed + 5)
    F = lambda a: [[Fraction(float(v)) for v in r] for r in a] if np.ndim(a) == 2 else [Fraction(float(v)) for v in a]
    checks, labels = [], []
    for t in range(n):
        k = int(rng.integers(1, 6))
        A = rng.integers(-4, 5, size=(k, k)).astype(float) + 6 * np.eye(k)
        if t % 3 == 0:
            A = (A + A.T) / 2
        tol = qlit(Fraction(1, 10 ** 8))
        if t % 3 == 2 and k >= 2:
            # EigenSolve (dense, symmetric, generalised) with eigenvalue seeds only
            Qo, _ = np.linalg.qr(rng.standard_normal((k, k)))
            Ae = Qo @ np.diag(np.arange(1, k + 1) * 1.5 + rng.random(k) * 0.2) @ Qo.T
            Ae = (Ae + Ae.T) / 2
            Mb = rng.standard_normal((k, k))
            Be = (Mb @ Mb.T) / k + np.eye(k)
            dW = rng.integers(-3, 4, size=k).astype(float)
            sA, sB2, sW, sQ = pym.Signal('A', Ae.copy()), pym.Signal('B', Be.copy()), pym.Signal('W'), pym.Signal('Q')
            m = pym.EigenSolve([sA, sB2], [sW, sQ])
            m.response()
            sW.sensitivity = dW.copy()
            m.sensitivity()
            Wv, Qm = sW.state, sQ.state
            pairs = '[' + '; '.join(f'({qlit(Fraction(float(dW[i])))}, {ql(F(Qm[:, i]))})' for i in range(k)) + ']'
            lpairs = '[' + '; '.join(f'({qlit(Fraction(float(-dW[i] * 1.0)) * Fraction(float(Wv[i])))}, {ql(F(Qm[:, i]))})' for i in range(k)) + ']'
            eig = ' && '.join(f'Ql_close {tol} (mv {ql(F(Ae))} {ql(F(Qm[:, i]))}) (map (fun x => Qred ({qlit(Fraction(float(Wv[i])))} * x)) (mv {ql(F(Be))} {ql(F(Qm[:, i]))})) && '
                              f'Qclose {tol} (dot {ql(F(Qm[:, i]))} (mv {ql(F(Be))} {ql(F(Qm[:, i]))})) 1' for i in range(k))
            checks.append(f'({eig} && Qll_close {tol} (dyadsum {k} {pairs}) {ql(F(sA.sensitivity))} && '
                          f'Qll_close {tol} (dyadsum {k} {lpairs}) {ql(F(sB2.sensitivity))})')
            labels.append(('EigenSolve', k))
            ctx.count('f3:EigenSolve')
        elif t % 2 == 0:
            b = rng.integers(-4, 5, size=k).astype(float)
            w = rng.integers(-3, 4, size=k).astype(float)
            sA, sb, sx = pym.Signal('A', A.copy()), pym.Signal('b', b.copy()), pym.Signal('x')
            m, optlabel = modzoo.linsolve_with_options(pym, [sA, sb], sx, t // 2, A)   # rotates through every constructor option
            m.response()
            sx.sensitivity = modzoo.seed_in_layout(w, t // 2)                          # ... and seed memory layouts
            m.sensitivity()
            u, dA, db = sx.state, sA.sensitivity, sb.sensitivity
            ctx.count('f3:LinSolve options ' + optlabel)
            checks.append(f'(Ql_close {tol} (mv {ql(F(A))} {ql(F(u))}) {ql(F(b))} && '
                          f'Ql_close {tol} (mv (tr {ql(F(A))} {k}) {ql(F(db))}) {ql(F(w))} && '
                          f'Qll_close {tol} (mneg (outer {ql(F(db))} {ql(F(u))})) {ql(F(dA))})')
            labels.append(('LinSolve', k, t % 3 == 0))
            ctx.count('f3:LinSolve')
        else:
            W = rng.integers(-3, 4, size=(k, k)).astype(float)
            sA, sB = pym.Signal('A', A.copy()), pym.Signal('B')
            m = pym.Inverse([sA], sB)
            m.response()
            sB.sensitivity = W.copy()
            m.sensitivity()
            B, dA = sB.state, sA.sensitivity
            Bt = ql(F(B.T))
            checks.append(f'(Qll_close {tol} (mm {ql(F(A))} {ql(F(B))} {k}) (ident {k}) && '
                          f'Qll_close {tol} (mneg (mm (mm {Bt} {ql(F(W))} {k}) {Bt} {k})) {ql(F(dA))})')
            labels.append(('Inverse', k))
            ctx.count('f3:Inverse')
        ctx.case(('f3', labels[-1], checks[-1][:300]), k >= 2, sample=dict(kind='F3 premises', module=labels[-1][0], n=k))
    return checks, labels


# --------------------------------------------------------------------------------------------- main
def run(ctx):
    warnings.filterwarnings('ignore')
    import pymoto as pym
    ctx.rule = ('(a) dispatch: random user-defined integer modules x random protocol scripts on the real Module/Signal, compared exactly '
                'with Model/Dispatch.v; (b) F1: every (affine-)linear zoo entry is probed (response matrix T from unit vectors, exact rationals) '
                'and Coq checks response = apply T and sensitivity = apply (transpose T) (1e-9); (c) F2: value and gradient of the formula '
                'modules against Model/Formulas.v through `interval` goals; (d) oracle: Richardson central-difference adjoint test on every '
                'zoo entry (all library modules with a sensitivity) with full / partial / dyadic seeds. Non-trivial: >= 2 ops (a), nnz >= 2 (b), '
                'every goal (c). Distinct by content hash.')
    ctx.assumptions += ['F2 theorems are about real arithmetic (floats tied by 1e-9 interval goals)',
                        'F3 identities assume the inner linear solve exact',
                        'differentiable dependence of a simple eigenpair on (A, B) (implicit function theorem) is not proved: EigenSolve theorems (C01d) are the adjoint '
                        'identity of the linearised eigenproblem; Inverse/LinSolve/SystemOfEquations/StaticCondensation VALUES enter through C05-C07; MathGeneral (sympy absent) '
                        'and AutoMod (jax absent) cannot run here',
                        'F1 models (triple lists) are obtained from the implementation by probing on every run (the tie), not written by hand']
    ctx.trusted += ['Print Assumptions: stdlib real-number axioms (ClassicalDedekindReals.sig_forall_dec, sig_not_dec, Classical_Prop.classic, '
                    'FunctionalExtensionality.functional_extensionality_dep) for the F2 theorems and interval goals; '
                    'dispatch/F1/F3 theorems closed under the global context',
                    'Interval tactic (uses primitive floats/ints) for the generated F2 correspondence goals']
    vlib.audit(ctx)
    if not vlib.ensure_static(ctx, ['theories/Props/C01.vo', 'theories/Props/C01b.vo', 'theories/Props/C01c.vo', 'theories/Props/C01d.vo',
                                    'theories/Model/EigAdjExec.vo', 'theories/Model/DispatchZ.vo']):
        return
    vlib.check_props(ctx)
    vlib.check_props(ctx, 'theories/Props/C01b.v')
    import C01_overhang
    C01_overhang.check_props_c(ctx)          # vlib.check_props(ctx, 'theories/Props/C01c.v') + module-wise coqchk in the thorough tier
    vlib.check_props(ctx, 'theories/Props/C01d.v')      # EigenSolve eigenvector / eigenvalue sensitivities (mathcomp)
    quick = ctx.quick()
    broken = False
    # (a) dispatch
    checks, labels = dispatch_cases(ctx, pym, 300 if quick else 3000)
    failing, err = vlib.run_cases(ctx, 'dispatch', HEADER_DISPATCH, checks, chunk=150)
    ctx.obligation('correspondence:dispatch case files evaluated', 'correspondence', not err, err)
    ctx.obligation('correspondence:dispatch model == implementation', 'correspondence', not failing and not err, str(failing[:10]))
    if err:
        ctx.violation('correspondence', 'Module.sensitivity', 'case files compile', 'harness', dict(error=err[-3000:]), theorem='cases_dispatch')
    for idx in failing[:10]:
        broken = True
        ctx.violation('correspondence', 'Module.response/sensitivity/reset', 'model == implementation', 'dispatch',
                      dict(label=labels[idx], coq=checks[idx][:3000]))
    # (b) F1 probing
    E = modzoo.entries(pym, ctx.seed, thorough=not quick)
    rng = np.random.default_rng(ctx.seed + 1)
    checks, labels = [], []
    with contextlib.redirect_stdout(io.StringIO()):
        for e in E:
            if not e['linear']:
                continue
            groups = [None] if e['linear'] is True else e['linear']      # True: jointly linear; else list of input groups
            for active in groups:
                try:
                    r = f1_case(e, pym, rng, active, budget=3e6 if quick else None)
                except Exception as ex:
                    ctx.violation('impl-violates', e['name'], 'response/sensitivity complete without raising', 'zoo entry',
                                  dict(cfg=str(e['cfg'])), got=f'{type(ex).__name__}: {str(ex)[:500]}')
                    continue
                if r is None:
                    continue
                expr, meta = r
                checks.append(expr)
                labels.append((e['name'], str(e['cfg']), meta))
                ctx.count('f1:' + e['name'])
                ctx.case(('f1', e['name'], str(e['cfg']), expr[:500]), meta['nnz'] >= 2,
                         sample=dict(kind='F1 probe', module=e['name'], cfg=str(e['cfg']), **meta))
    # balance the shards: the k-th shard gets the k-th largest case, then the (nshards+k)-th largest ... (the few very large
    # cases -- 3-D stiffness matrices with thousands of entries -- then evaluate in parallel instead of in one shard)
    nsh = max(1, -(-len(checks) // 6))
    by_size = sorted(range(len(checks)), key=lambda i: -len(checks[i]))
    perm = [by_size[j * nsh + k] for k in range(nsh) for j in range(6) if j * nsh + k < len(checks)]
    checks, labels = [checks[i] for i in perm], [labels[i] for i in perm]
    failing, err = vlib.run_cases(ctx, 'f1', HEADER_F1, checks, chunk=6)
    ctx.obligation('correspondence:F1 case files evaluated', 'correspondence', not err, err)
    ctx.obligation('correspondence:F1 sensitivity == transpose of response', 'correspondence', not failing and not err, str(failing[:10]))
    if err:
        ctx.violation('correspondence', 'F1', 'case files compile', 'harness', dict(error=err[-3000:]), theorem='cases_f1')
    for idx in failing[:10]:
        broken = True
        ctx.violation('correspondence', labels[idx][0], 'sensitivity = transpose of response (apply T / apply (transpose T))', 'F1',
                      dict(module=labels[idx][0], cfg=labels[idx][1], meta=labels[idx][2]))
    # (b') F3: premises of the secant identities on implementation outputs
    checks, labels = f3_cases(ctx, pym, 60 if quick else 600)
    failing, err = vlib.run_cases(ctx, 'f3', HEADER_F3, checks, chunk=100)
    ctx.obligation('correspondence:F3 case files evaluated', 'correspondence', not err, err)
    ctx.obligation('correspondence:F3 secant premises hold for LinSolve/Inverse/EigenSolve outputs', 'correspondence', not failing and not err, str(failing[:10]))
    if err:
        ctx.violation('correspondence', 'F3', 'case files compile', 'harness', dict(error=err[-3000:]), theorem='cases_f3')
    for idx in failing[:10]:
        broken = True
        ctx.violation('correspondence', labels[idx][0], 'premises of the secant identity (A u = b, A^T db = w, dA = -db (x) u / A B = 1, dA = -B^T W B^T)', 'F3',
                      dict(label=labels[idx], coq=checks[idx][:3000]))
    # (b'') OverhangFilter: model of _sensitivity (Model/OverhangAdj.v, theorems Props/C01c.v) against the implementation
    C01_overhang.run_part(ctx, pym)
    # (b''') EigenSolve: _dense_sens / _sparse_eigvec_sens / _sparse_eigval_sens (Model/EigAdj.v, theorems Props/C01d.v)
    import C01_eig
    C01_eig.run_part(ctx, pym)
    # (c) F2 interval goals
    goals, glabels = f2_goals(ctx, pym, 40 if quick else 400)
    fails = run_goals(ctx, 'f2', HEADER_F2, goals, glabels)
    ctx.obligation('correspondence:F2 interval goals proved', 'correspondence', not fails, '; '.join(str(f[1])[-400:] for f in fails))
    for idx, gerr in fails[:10]:
        broken = True
        ctx.violation('correspondence', str(glabels[idx][0]) if idx is not None else 'F2', 'formula model == implementation (interval)', 'F2',
                      dict(label=glabels[idx] if idx is not None else None, goal=goals[idx] if idx is not None else None, coqc=gerr[-1500:]))
    # (d) oracle sweep: adjoint test on every zoo entry
    rng = np.random.default_rng(ctx.seed + 2)
    kinds = [('full', False), ('partial', False), ('full', True), ('reseed', False), ('subsets', False)]
    with contextlib.redirect_stdout(io.StringIO()):
        for e in E:
            for seed_kind, dyad in kinds:
                if dyad and e['name'] not in ('AssembleGeneral', 'AssembleStiffness', 'AssembleMass', 'AssemblePoisson'):
                    continue
                if seed_kind == 'partial' and e['name'] not in ('SystemOfEquations', 'EigenSolve'):
                    continue
                if seed_kind == 'subsets' and e.get('nout', 1) < 2:      # every subset of outputs seeded, in sequences
                    continue
                ctx.search_evaluations += 1
                ctx.count('oracle:' + e['name'])
                try:
                    r = modzoo.adjoint_check(e, pym, rng, seed_kind=seed_kind, dyad_seed=dyad, reseed=(seed_kind == 'reseed'))
                except Exception as ex:
                    if e['name'] == 'EigenSolve' and 'sparse' in str(e['cfg']) and 'exactly singular' in str(ex) \
                            and '_sparse_eigvec_sens' in ''.join(__import__('traceback').format_exception(ex)):
                        ctx.violation('impl-violates', 'EigenSolve._sparse_eigvec_sens', 'sensitivity completes without raising',
                                      'sparse pencil whose shifted matrix A - lambda_i B factorises with an exactly zero pivot',
                                      dict(cfg=str(e['cfg']), seed_kind=seed_kind), got=str(ex)[:200])
                        continue
                    ctx.violation('impl-violates', e['name'], 'response/sensitivity complete without raising', 'zoo entry',
                                  dict(cfg=str(e['cfg']), seed_kind=seed_kind, dyad_seed=dyad), got=f'{type(ex).__name__}: {str(ex)[:500]}')
                    continue
                if not r['ok']:
                    ctx.violation('impl-violates', e['name'], 'Re sum(g*v) = d/dt Re sum(w*y(x+tv))', 'zoo entry',
                                  dict(cfg=str(e['cfg']), seed_kind=r.get('seed_kind', seed_kind), dyad_seed=dyad), expected=r['fd'], got=r['an'],
                                  note=f"relative error {r['err']:.3e} > {e['tol']:.1e}")
    # (e) interactions: pre-existing input sensitivities, shared signals / option objects, interleaved instances, memory layouts
    import zoo_interactions
    zoo_interactions.run_part(ctx, pym, E, 'C01', quick)


if __name__ == '__main__':
    vlib.main(run, 'C01')
