import json, sys
v=json.load(open(sys.argv[1]))
print(v['call_site'], '|', v['predicate'], '|', v['input_class'], '|', str(v['case'])[:500], '| exp', str(v.get('expected'))[:80], '| got', str(v.get('got'))[:200])
seen={}
for o in v.get('other_violations', []):
    k=(o['call_site'],o['predicate'][:90]); seen[k]=seen.get(k,0)+1
for k,n in seen.items(): print('   ', n, k)
