import warnings, time, io, contextlib, sys, json
warnings.filterwarnings('ignore')
import numpy as np, scipy.sparse as sps
import pymoto as pym, modzoo, zoo_interactions as zi
class Ctx:
    def __init__(s, seed): s.seed=seed; s.search_evaluations=0; s.v=[]; s.c={}; s.rule=''
    def count(s,k,n=1): s.c[k]=s.c.get(k,0)+n
    def violation(s,*a,**k): s.v.append((a,k))
seed = int(sys.argv[1]) if len(sys.argv) > 1 else 1
prop = sys.argv[2] if len(sys.argv) > 2 else 'C01'
E = modzoo.entries(pym, seed + (11 if prop == 'C04' else 0))
ctx = Ctx(seed)
t0=time.time()
zi.run_part(ctx, pym, E, prop)
print('time', time.time()-t0, 'evals', ctx.search_evaluations, ctx.c)
seen={}
for a,k in ctx.v:
    key=(a[1] if a[1].startswith('Signal') else '*',a[2],a[3])
    if key not in seen:
        seen[key]=0
        print(a[1], '|', a[2], '|', a[3], '|', str(a[4])[:600], '|', str(k.get('got'))[:300], str(k.get('note'))[-600:])
    seen[key]+=1
print(seen)
print(len(ctx.v))
