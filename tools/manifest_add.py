#!/usr/bin/env python3
"""tools/manifest_add.py <pid> <json-file with keys text, note, technique>  -- add/replace a check entry"""
import json, sys
pid, spec = sys.argv[1], json.load(open(sys.argv[2]))
m = json.load(open('/verif/MANIFEST.json'))
m['checks'] = [c for c in m['checks'] if c['property_id'] != pid]
m['checks'].append(dict(property_id=pid, quick_cmd=f'./check {pid} --tier quick', thorough_cmd=f'./check {pid} --tier thorough',
    evidence_file=f'evidence/{pid}.json', replay_cmd_template=f'./check {pid} --replay {{path}}', engine='coq-proof+correspondence',
    level_claimed=dict(category='proof', text=spec['text'], design_ref=f'DESIGN.md 4/{pid} and 8'), level_note=spec['note'], technique=spec['technique']))
m['checks'].sort(key=lambda c: c['property_id'])
m['not_applicable'] = [n for n in m.get('not_applicable', []) if n['property_id'] != pid]
for e in m['engines']:
    if pid not in e['serves_properties']:
        e['serves_properties'].append(pid)
    e['serves_properties'].sort()
json.dump(m, open('/verif/MANIFEST.json', 'w'), indent=1)
print('manifest:', len(m['checks']), 'checks;', len(m['not_applicable']), 'not yet claimed')
