"""Shared machinery of the /verif checks (see DESIGN.md section 2).

A check is a Python module tools/checks/Cxx.py with a function run(ctx).  It
  1. audits the Coq sources, makes sure the static theories are built,
  2. (re)generates model fragments from /repo (tools/py2coq.py) and compiles the bridge lemmas,
  3. re-checks the property file Props/Cxx.v (theorem list + Print Assumptions),
  4. runs the implementation on generated cases, writes the cases *and* the implementation's
     observations into coq/gen/Cxx/cases_*.v and lets Coq compare model and implementation,
  5. runs the implementation-side property oracle (search for failing inputs),
  6. decides: exit 0 / KNOWN-FINDING lines / VIOLATION line, and writes evidence/Cxx.json.
"""
import os, sys, re, json, time, hashlib, subprocess, fcntl, random, traceback
from fractions import Fraction
from concurrent.futures import ThreadPoolExecutor

ROOT = os.path.dirname(os.path.dirname(os.path.abspath(__file__)))
COQ = os.path.join(ROOT, 'coq')
REPO = os.environ.get('VERIF_REPO', '/repo')
BANNED = [r'\bAdmitted\b', r'\badmit\b', r'\bAxiom\b', r'\bAxioms\b', r'\bParameter\b', r'\bParameters\b',
          r'\bConjecture\b', r'Admit Obligations', r'Unset Guard', r'bypass_check', r'type-in-type',
          r'impredicative-set', r'native_compute', r'Unset Positivity', r'Unset Universe']


# ----------------------------------------------------------------------------- Coq literals
def zlit(n):
    n = int(n)
    return f'({n})' if n < 0 else str(n)


def qlit(x):
    f = x if isinstance(x, Fraction) else Fraction(x)
    if f.denominator == 1:
        return f'({f.numerator})' if f.numerator < 0 else f'{f.numerator}'
    return f'({f.numerator}#{f.denominator})'


def blit(b):
    return 'true' if b else 'false'


def clist(xs, f):
    """nested python lists -> Coq list literal, leaves rendered by f"""
    if isinstance(xs, (list, tuple)):
        return '[' + '; '.join(clist(x, f) for x in xs) + ']'
    return f(xs)


def zl(xs):
    return clist(xs, zlit)


def ql(xs):
    return clist(xs, qlit)


def tolist(a):
    """numpy array -> nested list of python ints / Fractions (exact)"""
    import numpy as np
    a = np.asarray(a)
    if a.dtype.kind in 'iub':
        return a.astype(object).tolist() if a.dtype.kind != 'b' else a.astype(int).tolist()
    if a.dtype.kind == 'f':
        return [Fraction(float(v)) for v in a.ravel()] if a.ndim == 1 else [tolist(r) for r in a] if a.ndim > 0 else Fraction(float(a))
    raise TypeError(a.dtype)


# ----------------------------------------------------------------------------- context
class Ctx:
    def __init__(self, pid, tier, seed):
        self.pid, self.tier, self.seed = pid, tier, seed
        self.t0 = time.time()
        self.rng = random.Random(seed)
        self.obligations = []       # {name, kind, ok, detail}
        self.axioms = {}            # theorem -> list of axiom names
        self.evaluations = 0
        self.distinct = set()
        self.samples = []
        self.dist = {}              # input distribution counters
        self.violations = []        # dicts
        self.known = []             # matched known findings
        self.search_evaluations = 0
        self.oracle_validation = {}
        self.trusted = []
        self.assumptions = []
        self.rule = ''
        self.exhaustive = False
        self.extra = {}
        self.gen_dir = os.path.join(COQ, 'gen', pid)
        self.bridge_dir = os.path.join(COQ, 'bridge', pid)
        os.makedirs(self.gen_dir, exist_ok=True)
        for f in os.listdir(self.gen_dir):
            if re.search(r'\.(v|vo|vok|vos|glob|aux)$', f) or f.startswith('.'):
                try:
                    os.remove(os.path.join(self.gen_dir, f))
                except OSError:
                    pass
        self.findings = [f for f in load_findings() if f.get('property') == pid]

    # -- bookkeeping
    def quick(self):
        return self.tier != 'thorough'

    def count(self, key, n=1):
        self.dist[key] = self.dist.get(key, 0) + n

    def case(self, key, nontrivial=True, sample=None):
        """register one explored case; key identifies it for distinctness"""
        self.evaluations += 1
        if nontrivial:
            self.distinct.add(hashlib.sha1(repr(key).encode()).hexdigest()[:16])
        if sample is not None and len(self.samples) < 6:
            self.samples.append(sample)

    def obligation(self, name, kind, ok, detail=''):
        self.obligations.append(dict(name=name, kind=kind, ok=bool(ok), detail=detail[:2000]))

    # -- violations
    def violation(self, kind, call_site, predicate, input_class, case, expected=None, got=None, note='', theorem=None):
        """kind: impl-violates | correspondence | proof"""
        v = dict(property=self.pid, kind=kind, call_site=call_site, predicate=predicate, input_class=input_class,
                 seed=self.seed, case=case, expected=expected, got=got, note=note, theorem=theorem)
        for f in self.findings:
            if f.get('status') == 'known' and f['call_site'] == call_site and f['predicate'] == predicate \
                    and f['input_class'] == input_class and kind == 'impl-violates':
                if f['id'] not in [k['id'] for k in self.known]:
                    self.known.append(f)
                return False
        self.nviol = getattr(self, 'nviol', 0) + 1
        if len(self.violations) < 40:
            self.violations.append(v)
        return True

    def coq_flags(self):
        fl = ['-R', os.path.join(COQ, 'theories'), 'Pymoto', '-R', self.gen_dir, 'Gen' + self.pid]
        if os.path.isdir(self.bridge_dir):
            fl += ['-R', self.bridge_dir, 'Bridge' + self.pid]
        return fl + ['-w', '-notation-overridden,-deprecated-hint-without-locality,-deprecated-instance-without-locality']

    def coqc(self, path, timeout=600):
        return coqc(path, self.coq_flags(), timeout)

    def write_gen(self, name, text):
        p = os.path.join(self.gen_dir, name)
        with open(p, 'w') as f:
            f.write(text)
        return p


def load_findings():
    p = os.path.join(ROOT, 'known_findings.json')
    if not os.path.exists(p):
        return []
    with open(p) as f:
        return json.load(f).get('findings', [])


def coqc(path, flags, timeout=600):
    try:
        r = subprocess.run(['timeout', str(timeout), 'coqc'] + flags + [path], capture_output=True, text=True,
                           cwd=COQ)
        return r.returncode, r.stdout, r.stderr
    except Exception as e:  # pragma: no cover
        return 99, '', repr(e)


# ----------------------------------------------------------------------------- steps
def audit(ctx, extra_dirs=()):
    """grep the Coq sources for banned constructs (DESIGN 2.4)"""
    bad = []
    dirs = [os.path.join(COQ, 'theories'), os.path.join(COQ, 'bridge')] + list(extra_dirs)
    for d in dirs:
        for base, _, files in os.walk(d):
            for fn in files:
                if not fn.endswith('.v'):
                    continue
                p = os.path.join(base, fn)
                src = open(p).read()
                src_nc = strip_comments(src)
                for pat in BANNED:
                    if re.search(pat, src_nc):
                        bad.append(f'{os.path.relpath(p, ROOT)}: {pat}')
                # Variable/Hypothesis outside a Section
                depth = 0
                for line in src_nc.splitlines():
                    s = line.strip()
                    if re.match(r'(Section|Module)\s+\w+', s) and not re.match(r'Module\s+(Import|Export)\b', s):
                        depth += 1
                    elif re.match(r'End\s+\w+\s*\.', s):
                        depth -= 1
                    elif re.match(r'(Variables?|Hypothes[ie]s|Context)\b', s) and depth <= 0:
                        bad.append(f'{os.path.relpath(p, ROOT)}: {s[:40]} outside Section')
    ctx.obligation('audit:no-admitted-no-axioms', 'audit', not bad, '; '.join(bad))
    if bad:
        ctx.violation('proof', 'coq sources', 'audit', 'banned construct', bad, theorem='audit')
    return not bad


def strip_comments(src):
    out, depth, i = [], 0, 0
    while i < len(src):
        if src.startswith('(*', i):
            depth += 1
            i += 2
        elif src.startswith('*)', i) and depth > 0:
            depth -= 1
            i += 2
        else:
            if depth == 0:
                out.append(src[i])
            elif src[i] == '\n':
                out.append('\n')
            i += 1
    return ''.join(out)


def gen_coqproject():
    """_CoqProject lists every .v under theories/ (sorted); regenerated when the set of files changes"""
    files = []
    for base, _, fs in os.walk(os.path.join(COQ, 'theories')):
        files += [os.path.relpath(os.path.join(base, f), COQ) for f in fs if f.endswith('.v')]
    text = ('-R theories Pymoto\n-arg -w -arg -notation-overridden,-deprecated-hint-without-locality,'
            '-deprecated-instance-without-locality\n' + '\n'.join(sorted(files)) + '\n')
    p = os.path.join(COQ, '_CoqProject')
    if not os.path.exists(p) or open(p).read() != text or not os.path.exists(os.path.join(COQ, 'Makefile')):
        with open(p, 'w') as f:
            f.write(text)
        subprocess.run(['coq_makefile', '-f', '_CoqProject', '-o', 'Makefile'], cwd=COQ, capture_output=True)


def ensure_static(ctx, targets=None):
    """make the static theories this property needs (no-op when setup.sh has run and nothing changed);
    serialised by a lock.  targets: list of .vo paths relative to coq/ (default: Props/<pid>.vo)"""
    targets = targets or [f'theories/Props/{ctx.pid}.vo']
    lock = open(os.path.join(COQ, '.build.lock'), 'w')
    fcntl.flock(lock, fcntl.LOCK_EX)
    try:
        gen_coqproject()
        r = subprocess.run(['timeout', '3000', 'make', '-j4'] + targets, cwd=COQ, capture_output=True, text=True)
    finally:
        fcntl.flock(lock, fcntl.LOCK_UN)
        lock.close()
    ok = r.returncode == 0
    ctx.obligation('build:static-theories', 'build', ok, (r.stdout[-1500:] + r.stderr[-1500:]) if not ok else '')
    if not ok:
        ctx.violation('proof', 'coq/theories', 'make', 'static build', (r.stdout[-3000:] + r.stderr[-3000:]),
                      theorem='static build')
    return ok


def check_props(ctx, relpath=None, flags_bridge=False):
    """compile the property file; one obligation per Theorem; record Print Assumptions"""
    relpath = relpath or f'theories/Props/{ctx.pid}.v'
    path = os.path.join(COQ, relpath)
    src = strip_comments(open(path).read())
    names = re.findall(r'^\s*(?:Theorem|Example)\s+(\w+)', src, re.M)
    # statements only: every proof must be a one-liner built from exact/intros/split (no automation hiding work)
    rc, out, err = ctx.coqc(path)
    ok = rc == 0
    failing = None
    if not ok:
        m = re.search(r'line (\d+)', err)
        if m:
            ln = int(m.group(1))
            lines = open(path).read().splitlines()
            for k in range(min(ln, len(lines)) - 1, -1, -1):
                mm = re.match(r'\s*(?:Theorem|Example)\s+(\w+)', lines[k])
                if mm:
                    failing = mm.group(1)
                    break
    for n in names:
        ctx.obligation(n, 'theorem', ok or (failing is not None and n != failing and names.index(n) < names.index(failing) if failing in names else False),
                       '' if ok else err[-1500:])
    if ok:
        # parse Print Assumptions blocks in order
        blocks = re.split(r'(?m)^(?=Axioms:|Closed under the global context)', out)
        blocks = [b for b in blocks if b.startswith('Axioms:') or b.startswith('Closed under')]
        pa = re.findall(r'Print Assumptions\s+(\w+)', src)
        for n, b in zip(pa, blocks):
            ax = re.findall(r'(?m)^([A-Za-z_][\w.]*)\s*$|^([A-Za-z_][\w.]*)\s*:', b)
            ctx.axioms[n] = sorted({a or c for a, c in ax} - {'Axioms'})
    else:
        ctx.violation('proof', relpath, 'coqc', 'property file', dict(stderr=err[-3000:]), theorem=failing or relpath)
    if ok and ctx.tier == 'thorough' and relpath.startswith('theories/'):
        # independent re-check of the compiled property file and everything it depends on
        mod = 'Pymoto.' + relpath[len('theories/'):-2].replace('/', '.')
        try:
            r = subprocess.run(['timeout', '1500', 'coqchk', '-silent', '-o', '-R', os.path.join(COQ, 'theories'), 'Pymoto', mod],
                               capture_output=True, text=True, cwd=COQ)
            okc = r.returncode == 0
            txt = r.stdout + r.stderr
            ax = re.findall(r'^\s{4}([A-Za-z_][\w.]*)\s*$', txt.split('* Axioms:')[-1].split('* Constants')[0], re.M) if '* Axioms:' in txt else []
            ctx.axioms['coqchk:' + mod] = ax
            ctx.obligation('coqchk -o ' + mod, 'coqchk', okc, '' if okc else txt[-1500:])
            if not okc:
                ctx.violation('proof', relpath, 'coqchk', 'property file', dict(output=txt[-3000:]), theorem='coqchk ' + mod)
        except Exception as e:  # pragma: no cover
            ctx.obligation('coqchk -o ' + mod, 'coqchk', False, repr(e))
    return ok


def compile_file(ctx, path, name=None, kind='bridge'):
    rc, out, err = ctx.coqc(path)
    ok = rc == 0
    ctx.obligation(name or os.path.relpath(path, COQ), kind, ok, '' if ok else err[-1500:])
    return ok, out, err


# ----------------------------------------------------------------------------- correspondence in Coq
def run_cases(ctx, name, header, checks, chunk=300, timeout=900, labels=None):
    """checks: list of Coq boolean expressions (one per case), evaluated under `header`.
    Returns (failing indices, error text).  Files are sharded and compiled in parallel."""
    files = []
    for k in range(0, len(checks), chunk):
        part = checks[k:k + chunk]
        body = [header, '', 'Definition cases : list bool := [']
        body.append(';\n'.join('  (' + c + ')' for c in part))
        body.append('].')
        body.append('Eval vm_compute in (failing cases).')
        p = ctx.write_gen(f'cases_{name}_{k // chunk}.v', '\n'.join(body) + '\n')
        files.append((k, p))
    failing, errors = [], []

    def one(kp):
        k, p = kp
        rc, out, err = ctx.coqc(p, timeout)
        if rc != 0:
            return k, None, err
        m = re.search(r'=\s*(\[.*?\])\s*:\s*list nat', out, re.S)
        if not m:
            return k, None, 'unparsable output: ' + out[-500:]
        return k, [int(x) for x in re.findall(r'\d+', m.group(1))], ''
    with ThreadPoolExecutor(max_workers=int(os.environ.get("VERIF_COQ_JOBS", "6"))) as ex:
        for k, fl, err in ex.map(one, files):
            if fl is None:
                errors.append(f'shard {k}: {err[-1500:]}')
            else:
                failing += [k + i for i in fl]
    return sorted(failing), '\n'.join(errors)


def eval_coq(ctx, name, header, exprs, timeout=600):
    """evaluate Coq expressions and return their printed values (used for replays of failing cases only)"""
    body = [header] + [f'Eval vm_compute in ({e}).' for e in exprs]
    p = ctx.write_gen(f'eval_{name}.v', '\n'.join(body) + '\n')
    rc, out, err = ctx.coqc(p, timeout)
    if rc != 0:
        return None, err
    vals = re.findall(r'=\s*(.*?)\n\s*:\s', out, re.S)
    return [re.sub(r'\s+', ' ', v) for v in vals], ''


# ----------------------------------------------------------------------------- finish
def write_replay(ctx, v, idx):
    os.makedirs(os.path.join(ROOT, 'replays'), exist_ok=True)
    h = hashlib.sha1(json.dumps(v, sort_keys=True, default=str).encode()).hexdigest()[:10]
    p = os.path.join(ROOT, 'replays', f'{ctx.pid}-{h}.json')
    with open(p, 'w') as f:
        json.dump(v, f, indent=1, default=str)
    return os.path.relpath(p, ROOT)


def finish(ctx, checker_cmd=None):
    n_ob = len(ctx.obligations)
    n_ok = sum(1 for o in ctx.obligations if o['ok'])
    ev = dict(
        property_id=ctx.pid, tier='thorough' if ctx.tier == 'thorough' else 'quick', seed=int(ctx.seed), level='proof',
        coverage=dict(
            obligations=n_ob, discharged=n_ok,
            checker_cmd=checker_cmd or f'coqc 8.16.1 (full .vo build via coq_makefile/make + coqc of Props/{ctx.pid}.v, bridge and case files); ./check {ctx.pid}',
            trusted_base=ctx.trusted,
            obligation_list=[dict(name=o['name'], kind=o['kind'], ok=o['ok']) for o in ctx.obligations],
            failed_obligations=[o for o in ctx.obligations if not o['ok']],
            axioms=ctx.axioms,
            evaluations=ctx.evaluations, distinct_nontrivial=len(ctx.distinct), rule=ctx.rule,
            samples=ctx.samples, exhaustive=ctx.exhaustive, input_distribution=ctx.dist,
            oracle_validation=ctx.oracle_validation, search_evaluations=ctx.search_evaluations,
            known_findings_matched=[k['id'] for k in ctx.known], **ctx.extra),
        assumptions=ctx.assumptions, wall_s=round(time.time() - ctx.t0, 2), violations=len(ctx.violations))
    # evidence/<id>.json is only written by runs against /repo itself; scratch trees (VERIF_REPO) write elsewhere
    evdir = os.path.join(ROOT, 'evidence') if os.path.realpath(REPO) == '/repo' else os.path.join(ROOT, 'evidence', 'scratch')
    os.makedirs(evdir, exist_ok=True)
    with open(os.path.join(evdir, f'{ctx.pid}.json'), 'w') as f:
        json.dump(ev, f, indent=1, default=str)
    for k in ctx.known:
        print(f"KNOWN-FINDING: property={ctx.pid} {k['id']}: {k['text']}")
    if ctx.violations:
        # prefer a concrete implementation-level failing input as the replay
        concrete = [v for v in ctx.violations if v['kind'] == 'impl-violates']
        others = [v for v in ctx.violations if v['kind'] != 'impl-violates']
        if concrete:
            v = concrete[0]
            v['other_violations'] = [dict(kind=o['kind'], call_site=o['call_site'], predicate=o['predicate'],
                                          theorem=o.get('theorem')) for o in (concrete[1:] + others)[:20]]
            p = write_replay(ctx, v, 0)
            print(f'VIOLATION property={ctx.pid} replay={p}')
        else:
            v = others[0]
            v['other_violations'] = [dict(kind=o['kind'], call_site=o['call_site'], predicate=o['predicate'],
                                          theorem=o.get('theorem')) for o in others[1:20]]
            p = write_replay(ctx, v, 0)
            print(f'VIOLATION property={ctx.pid} replay={p} no-failing-input-found')
        print(f'[{ctx.pid}] {len(ctx.violations)} violation(s); obligations {n_ok}/{n_ob}; {ctx.evaluations} evaluations; '
              f'{time.time() - ctx.t0:.1f}s')
        return 1
    print(f'[{ctx.pid}] OK: obligations {n_ok}/{n_ob} discharged; {ctx.evaluations} correspondence evaluations '
          f'({len(ctx.distinct)} distinct non-trivial); {ctx.search_evaluations} oracle evaluations; '
          f'{time.time() - ctx.t0:.1f}s')
    return 0


GLOBAL_TRUSTED = [
    'Coq 8.16.1 kernel incl. vm_compute (no native_compute); coqchk as second opinion in the thorough tier',
    'tools/py2coq.py (fail-closed Python-ast -> Coq translator) where a generated model is used',
    'tools/vlib.py + tools/checks/*.py: case generation, canonicalisation (fractions.Fraction(float) is exact), the 1e-9 relative tolerance rule',
    'CPython 3.12 / numpy / scipy behave during the theorem\'s lifetime as they did when the cases were run',
    'the reading of Python/numpy semantics embodied in the hand-written models (validated by correspondence, not proved)',
    'no extraction is used',
]


def main(run_fn, pid):
    import argparse
    ap = argparse.ArgumentParser()
    ap.add_argument('--tier', default=os.environ.get('VERIF_TIER', 'quick'))
    ap.add_argument('--replay', default=None)
    a = ap.parse_args(sys.argv[2:])
    seed = int(os.environ.get('VERIF_SEED', '20260926'))
    rep = None
    if a.replay:
        with open(a.replay if os.path.isabs(a.replay) else os.path.join(ROOT, a.replay)) as f:
            rep = json.load(f)
        seed = int(rep.get('seed', seed))   # every random choice derives from the seed: the run replays exactly
    ctx = Ctx(pid, a.tier, seed)
    ctx.trusted = list(GLOBAL_TRUSTED)
    ctx.replay = a.replay
    try:
        run_fn(ctx)
    except Exception:
        tb = traceback.format_exc()
        print(tb, file=sys.stderr)
        ctx.obligation('harness:completed', 'harness', False, tb)
        ctx.violation('correspondence', 'harness', 'exception', 'harness crashed', tb[-3000:], theorem='harness')
    rc = finish(ctx)
    if rep is not None:
        key = (rep.get('kind'), rep.get('call_site'), rep.get('predicate'), json.dumps(rep.get('case'), sort_keys=True, default=str))
        hit = any((v['kind'], v['call_site'], v['predicate'], json.dumps(v['case'], sort_keys=True, default=str)) == key for v in ctx.violations)
        print(f"REPLAY {a.replay}: {'reproduced' if hit else 'NOT reproduced'} on the current tree "
              f"({rep.get('call_site')} / {rep.get('predicate')})")
    sys.exit(rc)
