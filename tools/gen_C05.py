"""Property-specific fail-closed translators for C05 (and reused by C07).

T-alg : the solve() methods of pymoto/solvers/dense.py, SolverSparseLU.solve and the body of the CG loop of
        iterative.py  ->  terms over a mathcomp ringType with transpose `tr` and conjugation `cj`
        (coq/theories/Base/StarRing.v).  Conditions on `trans`, `self.hermitian`, `self.success` are resolved by
        partial evaluation (one term per value); `rhs.ndim == 1` branches must translate to the same term
        (shape glue).  Local variables are substituted (SSA), so renaming a local or splitting an expression
        does not change the generated term.  Anything outside the dialect raises Unsupported.
T-dec : the decision procedure auto_determine_solver -> a Coq function over booleans / option bool.
"""
import ast, os
from py2coq import Unsupported, parse_file, find_class, find_func

TRANS = {'N': 'tN', 'T': 'tT', 'H': 'tH'}
TRI_TRANS = {0: 'tN', 'N': 'tN', 1: 'tT', 'T': 'tT', 2: 'tH', 'C': 'tH'}


def norm(src):
    return ast.unparse(ast.parse(src))


def all_stmts(node):
    for n in ast.walk(node):
        if isinstance(n, ast.stmt):
            yield n


def require_stmt(fn, src, what):
    want = norm(src)
    for s in all_stmts(fn):
        if not isinstance(s, (ast.FunctionDef, ast.If, ast.Try, ast.For, ast.While, ast.With)) and ast.unparse(s) == want:
            return
    raise Unsupported(f'T-alg: {what}: expected statement `{src}` not found in {fn.name}()')


ZERO = '<zeros>'
RAISE = '<raise>'


class AlgEmitter:
    """static: values for partial evaluation, keys 'trans', 'self.hermitian', 'self.success'.
    selfmap: self.<attr> -> Coq term; index_attrs: attributes that are index vectors (only usable in subscripts);
    lambdas: self.<attr> -> (param name, ast body, env) for inlined lambdas; calls: unparsed func -> python callback."""

    def __init__(self, static, selfmap, index_attrs=(), lambdas=None, env=None, calls=None):
        self.static = dict(static)
        self.selfmap = dict(selfmap)
        self.index_attrs = dict(index_attrs)   # attr -> selection matrix name
        self.lambdas = dict(lambdas or {})
        self.env = dict(env or {})
        self.calls = dict(calls or {})

    def fail(self, node, why=''):
        raise Unsupported(f'T-alg: unsupported {type(node).__name__} {why}: {ast.unparse(node)[:140]}')

    # ---- static conditions: returns True / False / 'ndim'
    def cond(self, n):
        if isinstance(n, ast.BoolOp):
            vals = [self.cond(v) for v in n.values]
            if any(v == 'ndim' for v in vals):
                self.fail(n, 'mixed condition')
            return any(vals) if isinstance(n.op, ast.Or) else all(vals)
        if isinstance(n, ast.UnaryOp) and isinstance(n.op, ast.Not):
            v = self.cond(n.operand)
            if v == 'ndim':
                self.fail(n)
            return not v
        if isinstance(n, ast.Compare) and len(n.ops) == 1 and isinstance(n.ops[0], (ast.Eq, ast.NotEq)):
            l, r = n.left, n.comparators[0]
            if isinstance(l, ast.Name) and l.id == 'trans' and isinstance(r, ast.Constant) and isinstance(r.value, str):
                if 'trans' not in self.static:
                    self.fail(n, 'trans not static')
                v = self.static['trans'] == r.value
                return v if isinstance(n.ops[0], ast.Eq) else not v
            if ast.unparse(l) == 'rhs.ndim' and isinstance(r, ast.Constant) and r.value == 1 and isinstance(n.ops[0], ast.Eq):
                return 'ndim'
        if isinstance(n, ast.Attribute) and ast.unparse(n) in self.static and ast.unparse(n) != 'trans':
            return bool(self.static[ast.unparse(n)])
        self.fail(n, 'condition')

    def trans_arg(self, n):
        """value of a trans= keyword: tri-solve constant, IfExp on a static condition, or the name `trans`"""
        if isinstance(n, ast.Constant) and n.value in TRI_TRANS:
            return TRI_TRANS[n.value]
        if isinstance(n, ast.IfExp):
            c = self.cond(n.test)
            if c == 'ndim':
                self.fail(n)
            return self.trans_arg(n.body if c else n.orelse)
        self.fail(n, 'trans argument')

    def flag(self, n):
        if isinstance(n, ast.Constant) and isinstance(n.value, bool):
            return 'true' if n.value else 'false'
        self.fail(n, 'boolean flag')

    # ---- expressions
    def tr(self, n):
        if isinstance(n, ast.Name):
            if n.id in self.env:
                v = self.env[n.id]
                if v == ZERO:
                    self.fail(n, 'use of zero-initialised array before assignment')
                return v
            self.fail(n, 'unbound name')
        if isinstance(n, ast.Attribute):
            if isinstance(n.value, ast.Name) and n.value.id == 'self':
                if n.attr in self.selfmap:
                    return self.selfmap[n.attr]
                self.fail(n, 'attribute')
            if n.attr == 'T':
                return f'(tr {self.tr(n.value)})'
            self.fail(n, 'attribute')
        if isinstance(n, ast.BinOp):
            if isinstance(n.op, ast.MatMult):
                return f'({self.tr(n.left)} * {self.tr(n.right)})'
            if isinstance(n.op, ast.Add):
                return f'({self.tr(n.left)} + {self.tr(n.right)})'
            if isinstance(n.op, ast.Sub):
                return f'({self.tr(n.left)} - {self.tr(n.right)})'
            if isinstance(n.op, ast.Div):
                # rhs / d : row scaling by a diagonal
                return f'(ddiv {self.tr(n.right)} {self.tr(n.left)})'
            self.fail(n, 'operator')
        if isinstance(n, ast.UnaryOp) and isinstance(n.op, ast.USub):
            return f'(- {self.tr(n.operand)})'
        if isinstance(n, ast.IfExp):
            c = self.cond(n.test)
            if c == 'ndim':
                a, b = self.tr(n.body), self.tr(n.orelse)
                if a != b:
                    self.fail(n, 'rhs.ndim branches differ')
                return a
            return self.tr(n.body if c else n.orelse)
        if isinstance(n, ast.Subscript):
            s = ast.unparse(n.slice)
            if s == '(..., None)':          # d[..., None] : broadcasting glue
                return self.tr(n.value)
            for attr, pm in self.index_attrs.items():
                if s in (f'self.{attr}', f'(self.{attr}, slice(None, None, None))') or \
                        ast.unparse(n).endswith(f'[self.{attr}, :]') or ast.unparse(n).endswith(f'[self.{attr}]'):
                    return f'({pm} * {self.tr(n.value)})'
            self.fail(n, 'subscript')
        if isinstance(n, ast.Call):
            f = n.func
            fs = ast.unparse(f)
            kw = {k.arg: k.value for k in n.keywords}
            if isinstance(f, ast.Attribute) and f.attr == 'conj' and not n.args and not kw:
                return f'(cj {self.tr(f.value)})'
            if fs == 'spla.solve_triangular':
                if len(n.args) != 2 or set(kw) - {'trans', 'lower', 'unit_diagonal'}:
                    self.fail(n, 'solve_triangular arguments')
                t = self.trans_arg(kw['trans']) if 'trans' in kw else 'tN'
                lo = self.flag(kw['lower']) if 'lower' in kw else 'false'
                un = self.flag(kw['unit_diagonal']) if 'unit_diagonal' in kw else 'false'
                return f'(tsolve {lo} {un} {self.tr(n.args[0])} {t} {self.tr(n.args[1])})'
            if isinstance(f, ast.Attribute) and isinstance(f.value, ast.Name) and f.value.id == 'self' \
                    and f.attr in self.lambdas and len(n.args) == 1 and not kw:
                param, body, lam_em = self.lambdas[f.attr]
                sub = AlgEmitter(lam_em.static, lam_em.selfmap, lam_em.index_attrs, {}, dict(lam_em.env), lam_em.calls)
                sub.env[param] = self.tr(n.args[0])
                return sub.tr(body)
            if fs in self.calls:
                return self.calls[fs](self, n)
            self.fail(n, 'call')
        self.fail(n)

    # ---- statements; returns the translated return value, RAISE, or None when the block falls through
    def block(self, stmts):
        for s in stmts:
            if isinstance(s, ast.Expr) and isinstance(s.value, ast.Constant) and isinstance(s.value.value, str):
                continue
            if isinstance(s, ast.Assign) and len(s.targets) == 1:
                t = s.targets[0]
                if isinstance(t, ast.Name):
                    if isinstance(s.value, ast.Call) and ast.unparse(s.value.func) == 'np.zeros_like':
                        self.env[t.id] = ZERO
                    else:
                        self.env[t.id] = self.tr(s.value)
                    continue
                if isinstance(t, ast.Subscript) and isinstance(t.value, ast.Name) and self.env.get(t.value.id) == ZERO:
                    for attr, pm in self.index_attrs.items():
                        if ast.unparse(t.slice) == f'self.{attr}':
                            # u = zeros; u[p] = X  with p a permutation:  u = Pm^T X
                            self.env[t.value.id] = f'(tr {pm} * {self.tr(s.value)})'
                            break
                    else:
                        self.fail(s, 'scatter index')
                    continue
                self.fail(s, 'assignment target')
            if isinstance(s, ast.AugAssign) and isinstance(s.target, ast.Name) and isinstance(s.op, (ast.Add, ast.Sub)):
                o = '+' if isinstance(s.op, ast.Add) else '-'
                self.env[s.target.id] = f'({self.tr(s.target)} {o} {self.tr(s.value)})'
                continue
            if isinstance(s, ast.If):
                c = self.cond(s.test)
                if c == 'ndim':
                    e1 = AlgEmitter(self.static, self.selfmap, self.index_attrs, self.lambdas, self.env, self.calls)
                    e2 = AlgEmitter(self.static, self.selfmap, self.index_attrs, self.lambdas, self.env, self.calls)
                    r1, r2 = e1.block(s.body), e2.block(s.orelse)
                    if r1 is None or r1 != r2:
                        self.fail(s, 'rhs.ndim branches differ')
                    return r1
                r = self.block(s.body if c else s.orelse)
                if r is not None:
                    return r
                continue
            if isinstance(s, ast.Return):
                return self.tr(s.value)
            if isinstance(s, ast.Raise):
                return RAISE
            self.fail(s, 'statement')
        return None


PARAMS = ('(M : ringType) (tr cj : M -> M) (tsolve : bool -> bool -> M -> trans -> M -> M) '
          '(ddiv : M -> M -> M) (splu : trans -> M -> M)')

HEADER = '''(* GENERATED by tools/gen_C05.py from {src} -- do not edit *)
From mathcomp Require Import all_ssreflect all_algebra.
From Pymoto Require Import Base.StarRing.
Set Implicit Arguments.
Unset Strict Implicit.
Local Open Scope ring_scope.
'''


def per_trans(fn_for, extra_static=None):
    """match t with tN => .. | tT => .. | tH => .. end"""
    arms = []
    for tv, ct in TRANS.items():
        st = dict(extra_static or {})
        st['trans'] = tv
        r = fn_for(st)
        if r is None or r == RAISE:
            raise Unsupported(f'T-alg: no value returned for trans={tv}')
        arms.append(f'    | {ct} => {r}')
    return '(match t with\n' + '\n'.join(arms) + '\n    end)'


def solve_term(cls, static, selfmap, index_attrs=(), lambdas=None, calls=None):
    fn = find_func(cls, 'solve')
    args = [a.arg for a in fn.args.args]
    if args != ['self', 'rhs', 'x0', 'trans']:
        raise Unsupported(f'T-alg: signature of {cls.name}.solve changed: {args}')
    em = AlgEmitter(static, selfmap, index_attrs, lambdas, {'rhs': 'rhs'}, calls)
    return em.block(fn.body)


def bad_trans_raises(cls):
    """solve(trans=<other>) raises TypeError (not a wrong answer)"""
    fn = find_func(cls, 'solve')
    try:
        em = AlgEmitter({'trans': '?', 'self.hermitian': True, 'self.success': True}, {}, {}, {}, {'rhs': 'rhs'})
        return em.block(fn.body) == RAISE
    except Unsupported:
        return False


def gen_dense(repo):
    out = [HEADER.format(src='pymoto/solvers/dense.py, pymoto/solvers/sparse.py')]
    tree, _ = parse_file(os.path.join(repo, 'pymoto/solvers/dense.py'))

    # ---- SolverDiagonal
    c = find_class(tree, 'SolverDiagonal')
    require_stmt(find_func(c, 'update'), 'self.diag = A.diagonal()', 'SolverDiagonal factor')
    body = per_trans(lambda st: solve_term(c, st, {'diag': 'diag'}))
    out.append(f'Definition gen_sol_Diagonal {PARAMS} (diag : M) (t : trans) (rhs : M) : M :=\n  {body}.\n')

    # ---- SolverDenseQR
    c = find_class(tree, 'SolverDenseQR')
    require_stmt(find_func(c, 'update'), 'self.q, self.r = spla.qr(A)', 'QR factorisation')
    body = per_trans(lambda st: solve_term(c, st, {'q': 'q', 'r': 'r'}))
    out.append(f'Definition gen_sol_QR {PARAMS} (q r : M) (t : trans) (rhs : M) : M :=\n  {body}.\n')

    # ---- SolverDenseLU
    c = find_class(tree, 'SolverDenseLU')
    require_stmt(find_func(c, 'update'), 'self.p, self.l, self.u = spla.lu(A)', 'LU factorisation')
    body = per_trans(lambda st: solve_term(c, st, {'p': 'p', 'l': 'l', 'u': 'u'}))
    out.append(f'Definition gen_sol_LU {PARAMS} (p l u : M) (t : trans) (rhs : M) : M :=\n  {body}.\n')

    # ---- SolverDenseLDL
    c = find_class(tree, 'SolverDenseLDL')
    upd = find_func(c, 'update')
    require_stmt(upd, 'self.l, self.d, self.p = spla.ldl(A, hermitian=self.hermitian)', 'LDL factorisation')
    require_stmt(upd, 'self.hermitian = matrix_is_hermitian(A)', 'LDL hermitian detection')
    require_stmt(upd, 'd1 = np.diag(1 / np.diag(self.d))', 'LDL inverse of diagonal D')
    require_stmt(upd, 'd1 = np.linalg.inv(self.d)', 'LDL inverse of block-diagonal D')
    require_stmt(find_func(c, '__init__'), 'self.hermitian = hermitian', 'LDL hermitian option')
    upd_em = AlgEmitter({}, {'l': 'l'}, {'p': 'Pm'}, {}, {'d1': 'd1'})
    lp = None
    lambdas = {}
    for s in all_stmts(upd):
        if isinstance(s, ast.Assign) and len(s.targets) == 1 and ast.unparse(s.targets[0]) == 'self.lp':
            lp = upd_em.tr(s.value)
        if isinstance(s, ast.Assign) and len(s.targets) == 1 and ast.unparse(s.targets[0]) in ('self.dinv', 'self.dinvH'):
            lam = s.value
            if not (isinstance(lam, ast.Lambda) and len(lam.args.args) == 1):
                raise Unsupported('T-alg: self.dinv/dinvH is not a one-argument lambda')
            lambdas[s.targets[0].attr] = (lam.args.args[0].arg, lam.body, upd_em)
    if lp is None or set(lambdas) != {'dinv', 'dinvH'}:
        raise Unsupported('T-alg: SolverDenseLDL.update: lp / dinv / dinvH not found')

    def ldl(h):
        return per_trans(lambda st: solve_term(c, st, {'lp': lp}, {'p': 'Pm'}, lambdas), {'self.hermitian': h})
    out.append(f'Definition gen_sol_LDL {PARAMS} (h : bool) (l d1 Pm : M) (t : trans) (rhs : M) : M :=\n'
               f'  if h then {ldl(True)}\n  else {ldl(False)}.\n')

    # ---- SolverDenseCholesky
    c = find_class(tree, 'SolverDenseCholesky')
    upd = find_func(c, 'update')
    require_stmt(upd, 'self.U = spla.cholesky(A)', 'Cholesky factorisation')
    require_stmt(upd, 'self.backup_solver.update(A)', 'Cholesky fallback update')
    require_stmt(upd, 'self.success = True', 'Cholesky success flag')
    require_stmt(upd, 'self.success = False', 'Cholesky success flag')
    require_stmt(find_func(c, '__init__'), 'self.backup_solver = SolverDenseLDL()', 'Cholesky backup solver')

    def backup(em, n):
        kw = {k.arg: ast.unparse(k.value) for k in n.keywords}
        if [ast.unparse(a) for a in n.args] != ['rhs'] or kw != {'trans': 'trans'}:
            em.fail(n, 'backup solve arguments')
        return f'(gen_sol_LDL tr cj tsolve ddiv splu hb l d1 Pm {TRANS[em.static["trans"]]} rhs)'

    def chol(ok):
        return per_trans(lambda st: solve_term(c, st, {'U': 'U'}, calls={'self.backup_solver.solve': backup}),
                         {'self.success': ok})
    out.append(f'Definition gen_sol_Cholesky {PARAMS} (success : bool) (U : M) (hb : bool) (l d1 Pm : M) (t : trans) (rhs : M) : M :=\n'
               f'  if success then {chol(True)}\n  else {chol(False)}.\n')

    # ---- SolverSparseLU
    tree2, _ = parse_file(os.path.join(repo, 'pymoto/solvers/sparse.py'))
    c = find_class(tree2, 'SolverSparseLU')
    require_stmt(find_func(c, 'update'), 'self.inv = splu(A)', 'sparse LU factorisation')
    imp = [ast.unparse(s) for s in all_stmts(tree2) if isinstance(s, ast.ImportFrom) and any(a.name == 'splu' for a in s.names)]
    if sorted(imp) != ['from scikits.umfpack import splu', 'from scipy.sparse.linalg import splu']:
        raise Unsupported('T-alg: origin of splu changed: ' + repr(imp))

    def splu_call(em, n):
        kw = {k.arg: ast.unparse(k.value) for k in n.keywords}
        if [ast.unparse(a) for a in n.args] != ['rhs'] or kw != {'trans': 'trans'}:
            em.fail(n, 'splu solve arguments')
        return f'(splu {TRANS[em.static["trans"]]} rhs)'
    fn = find_func(c, 'solve')
    pre = [s for s in fn.body if not (isinstance(s, ast.Expr) and isinstance(s.value, ast.Constant))]
    if len(pre) != 2 or norm("if trans not in ['N', 'T', 'H']:\n    raise TypeError('Only N, T, or H transposition is possible')") != ast.unparse(pre[0]):
        raise Unsupported('T-alg: SolverSparseLU.solve prologue changed')

    def sparse(st):
        em = AlgEmitter(st, {}, {}, {}, {'rhs': 'rhs'}, {'self.inv.solve': splu_call})
        return em.block(pre[1:])
    out.append(f'Definition gen_sol_SparseLU {PARAMS} (t : trans) (rhs : M) : M :=\n  {per_trans(sparse)}.\n')
    return '\n'.join(out)



# ----------------------------------------------------------------------------------------- CG loop
CG_PARAMS = ('(M : ringType) (tr cj : M -> M) (precond orth1 orth2 inv : M -> M) (A b : M)')


class CGEmitter(AlgEmitter):
    """adds: np.linalg.inv, self.preconditioner.solve(r, trans=trans), orth(., normalize=..), augmented assignment"""

    def tr(self, n):
        if isinstance(n, ast.Call):
            fs = ast.unparse(n.func)
            kw = {k.arg: ast.unparse(k.value) for k in n.keywords}
            if fs == 'np.linalg.inv' and len(n.args) == 1 and not kw:
                return f'(inv {self.tr(n.args[0])})'
            if fs == 'self.preconditioner.solve' and len(n.args) == 1 and kw == {'trans': 'trans'}:
                return f'(precond {self.tr(n.args[0])})'
            if fs == 'orth' and len(n.args) == 1 and kw in ({'normalize': 'True'}, {'normalize': 'False'}):
                return f'({"orth1" if kw["normalize"] == "True" else "orth2"} {self.tr(n.args[0])})'
        return super().tr(n)


def _is_print_if(s):
    return isinstance(s, ast.If) and ast.unparse(s.test).startswith('self.verbosity >=') and not s.orelse and \
        all(isinstance(b, ast.Expr) and isinstance(b.value, ast.Call) and ast.unparse(b.value.func) == 'print' for b in s.body)


# the convergence measure (after fix F34): per column |r| / (|b| if |b| != 0 else 1); bnorm is computed once
BNORM = 'bnorm = np.linalg.norm(b, axis=0)'
TVAL = 'tval = np.linalg.norm(r, axis=0) / bnorm'


def _num(n):
    """numeric constant -> exact Fraction"""
    from fractions import Fraction
    if isinstance(n, ast.UnaryOp) and isinstance(n.op, ast.USub):
        v = _num(n.operand)
        return None if v is None else -v
    if isinstance(n, ast.Constant) and type(n.value) in (int, float):
        return Fraction(n.value)
    return None


def _qlit(f):
    return f'({f.numerator}#{f.denominator})' if f.numerator >= 0 else f'(-{-f.numerator}#{f.denominator})'


def parse_bnorm_mask(st):
    """`bnorm[bnorm == c0] = c1`  ->  (negated?, c0, c1)"""
    if not (isinstance(st, ast.Assign) and len(st.targets) == 1 and isinstance(st.targets[0], ast.Subscript)
            and ast.unparse(st.targets[0].value) == 'bnorm' and isinstance(st.targets[0].slice, ast.Compare)):
        raise Unsupported('T-alg: CG.solve: expected masked assignment to bnorm, got `' + ast.unparse(st)[:100] + '`')
    c = st.targets[0].slice
    if not (ast.unparse(c.left) == 'bnorm' and len(c.ops) == 1 and isinstance(c.ops[0], (ast.Eq, ast.NotEq))):
        raise Unsupported('T-alg: CG.solve: mask of bnorm: ' + ast.unparse(c)[:100])
    c0, c1 = _num(c.comparators[0]), _num(st.value)
    if c0 is None or c1 is None:
        raise Unsupported('T-alg: CG.solve: constants of the bnorm mask: ' + ast.unparse(st)[:100])
    return isinstance(c.ops[0], ast.NotEq), c0, c1


def cg_exit_statements(repo):
    """the statements of CG.solve that define the convergence measure, checked for position and form"""
    tree, _ = parse_file(os.path.join(repo, 'pymoto/solvers/iterative.py'))
    fn = find_func(find_class(tree, 'CG'), 'solve')
    body = [s for s in fn.body if not (isinstance(s, ast.Expr) and isinstance(s.value, ast.Constant))]
    for k, st in enumerate(body):
        if isinstance(st, ast.Assign) and ast.unparse(st.targets[0]) == 'r':
            break
    else:
        raise Unsupported('T-alg: CG.solve: initial residual not found')
    if ast.unparse(body[k + 1]) != norm(BNORM) or ast.unparse(body[k + 3]) != norm(TVAL):
        raise Unsupported('T-alg: CG.solve: bnorm / tval after the initial residual')
    # bnorm and tval are written nowhere else except the one tval update inside the loop (checked by gen_cg)
    nb = sum(1 for s in ast.walk(fn) if isinstance(s, (ast.Assign, ast.AugAssign))
             and 'bnorm' in [ast.unparse(t).split('[')[0] for t in (s.targets if isinstance(s, ast.Assign) else [s.target])])
    if nb != 2:
        raise Unsupported('T-alg: CG.solve: bnorm is assigned %d times' % nb)
    return parse_bnorm_mask(body[k + 2])


def gen_cg_exit(repo):
    neg, c0, c1 = cg_exit_statements(repo)
    gen_cg(repo)     # positions of the tval updates and of the tests `tval.max() <= self.tol` / `> self.tol`
    test = f'Qeq_bool v {_qlit(c0)}'
    if neg:
        test = f'negb ({test})'
    return '\n'.join([
        '(* GENERATED by tools/gen_C05.py from pymoto/solvers/iterative.py (CG.solve: convergence measure) -- do not edit *)',
        'From Coq Require Import QArith List Bool.', 'Import ListNotations.', 'Open Scope Q_scope.', '',
        '(* bnorm = np.linalg.norm(b, axis=0); ' + 'masked assignment *)',
        f'Definition gen_cg_bnorm (nb : list Q) : list Q := map (fun v => if {test} then {_qlit(c1)} else v) nb.',
        '(* tval = np.linalg.norm(r, axis=0) / bnorm *)',
        'Definition gen_cg_tval (nr bn : list Q) : list Q := map (fun p => fst p / snd p) (combine nr bn).',
        '(* tval.max() <= self.tol *)',
        'Definition gen_cg_exit (tol : Q) (nr nb : list Q) : bool :=',
        '  forallb (fun t => Qle_bool t tol) (gen_cg_tval nr (gen_cg_bnorm nb)).', ''])


def gen_cg(repo):
    tree, _ = parse_file(os.path.join(repo, 'pymoto/solvers/iterative.py'))
    c = find_class(tree, 'CG')
    fn = find_func(c, 'solve')
    if [a.arg for a in fn.args.args] != ['self', 'rhs', 'x0', 'trans']:
        raise Unsupported('T-alg: CG.solve signature changed')
    body = [s for s in fn.body if not (isinstance(s, ast.Expr) and isinstance(s.value, ast.Constant))]
    out = [HEADER.format(src='pymoto/solvers/iterative.py (CG.solve)')]
    k = 0
    # 1. matrix selection
    sel = body[k]
    k += 1
    if not isinstance(sel, ast.If):
        raise Unsupported('T-alg: CG.solve: matrix selection expected first')
    arms = []
    for tv, ct in TRANS.items():
        em = CGEmitter({'trans': tv}, {'A': 'A0'}, env={})
        r = em.block([sel])
        if r is not None or 'A' not in em.env:
            raise Unsupported('T-alg: CG.solve: matrix selection')
        arms.append(f'    | {ct} => {em.env["A"]}')
    em = CGEmitter({'trans': '?'}, {'A': 'A0'}, env={})
    if em.block([sel]) != RAISE:
        raise Unsupported('T-alg: CG.solve: invalid trans must raise')
    out.append(f'Definition gen_cg_mat (M : ringType) (tr cj : M -> M) (A0 : M) (t : trans) : M :=\n  (match t with\n' + '\n'.join(arms) + '\n    end).\n')
    # 2. shape glue, fingerprints (b is rhs as a block, x is x0 (or zeros) as a block)
    glue = ['tstart = time.perf_counter()',
            'if rhs.ndim == 1:\n    b = rhs.reshape((rhs.size, 1))\nelse:\n    b = rhs',
            # the start vector: zeros of the result type, or the given guess converted to (at least) the result type
            'dtype = np.result_type(rhs.dtype, A.dtype)',
            'x = np.zeros_like(rhs, dtype=dtype) if x0 is None else x0.astype(np.result_type(dtype, x0.dtype))',
            'if x.ndim == 1:\n    x = x.reshape((x.size, 1))']
    for g in glue:
        if ast.unparse(body[k]) != norm(g):
            raise Unsupported('T-alg: CG.solve: expected `' + g + '` got `' + ast.unparse(body[k])[:100] + '`')
        k += 1
    em = CGEmitter({}, {}, env={'A': 'A', 'b': 'b', 'x': 'x', 'p': 'p'})
    # 3. initial residual, early exit, first directions
    st = body[k]; k += 1
    if not (isinstance(st, ast.Assign) and ast.unparse(st.targets[0]) == 'r'):
        raise Unsupported('T-alg: CG.solve: initial residual')
    em.block([st])
    out.append(f'Definition gen_cg_r0 {CG_PARAMS} (x : M) : M :=\n  {em.env["r"]}.\n')
    if ast.unparse(body[k]) != norm(BNORM):
        raise Unsupported('T-alg: CG.solve: bnorm after initial residual')
    parse_bnorm_mask(body[k + 1])
    if ast.unparse(body[k + 2]) != norm(TVAL):
        raise Unsupported('T-alg: CG.solve: tval after initial residual')
    k += 3
    while _is_print_if(body[k]):
        k += 1
    early = body[k]; k += 1
    if not (isinstance(early, ast.If) and ast.unparse(early.test) == 'tval.max() <= self.tol' and not early.orelse
            and all(_is_print_if(s) for s in early.body[:-1])
            and ast.unparse(early.body[-1]) == 'return x.flatten() if rhs.ndim == 1 else x'):
        raise Unsupported('T-alg: CG.solve: early exit')
    em.env['r'] = 'r'
    while not isinstance(body[k], ast.For):
        em.block([body[k]])
        k += 1
    out.append(f'Definition gen_cg_p0 {CG_PARAMS} (r : M) : M :=\n  {em.env["p"]}.\n')
    # 4. the loop
    loop = body[k]; k += 1
    if ast.unparse(loop.target) != 'i' or ast.unparse(loop.iter) != 'range(self.maxit)' or loop.orelse:
        raise Unsupported('T-alg: CG.solve: loop header')

    def run(restart_now):
        e = CGEmitter({}, {}, env={'A': 'A', 'b': 'b', 'x': 'x', 'r': 'r', 'p': 'p'})
        exit_vals = None
        fresh_tval = False
        for s in loop.body:
            if _is_print_if(s):
                continue
            if ast.unparse(s) == norm(TVAL):
                fresh_tval = True
                continue
            if isinstance(s, ast.If) and ast.unparse(s.test) == 'tval.max() <= self.tol':
                if not fresh_tval or s.orelse or len(s.body) != 1 or not isinstance(s.body[0], ast.Break) or exit_vals:
                    raise Unsupported('T-alg: CG.solve: exit test')
                exit_vals = (e.env['x'], e.env['r'])
                continue
            if isinstance(s, ast.If) and ast.unparse(s.test) == 'i % self.restart == 0':
                r1 = e.block(s.body if restart_now else s.orelse)
                if r1 is not None:
                    raise Unsupported('T-alg: CG.solve: restart branch returns')
                fresh_tval = False
                continue
            if isinstance(s, ast.AugAssign) and isinstance(s.target, ast.Name) and isinstance(s.op, (ast.Add, ast.Sub)):
                o = '+' if isinstance(s.op, ast.Add) else '-'
                e.env[s.target.id] = f'({e.env[s.target.id]} {o} {e.tr(s.value)})'
                fresh_tval = False
                continue
            if isinstance(s, ast.Assign):
                e.block([s])
                if ast.unparse(s.targets[0]) in ('r', 'x'):
                    fresh_tval = False
                continue
            raise Unsupported('T-alg: CG.solve: loop statement ' + ast.unparse(s)[:100])
        if exit_vals is None:
            raise Unsupported('T-alg: CG.solve: no exit test in loop')
        if e.env['x'] != exit_vals[0] or e.env['r'] != exit_vals[1]:
            raise Unsupported('T-alg: CG.solve: x or r modified after the exit test')
        return exit_vals[0], exit_vals[1], e.env['p']
    # AugAssign inside the restart branches: extend block handling through a subclass hook
    xr, rr, pr = run(True)
    xn, rn, pn = run(False)
    if xr != xn:
        raise Unsupported('T-alg: CG.solve: x update depends on restart')
    sig = f'{CG_PARAMS} (x r p : M) : M'
    out.append(f'Definition gen_cg_step_x {sig} :=\n  {xr}.\n')
    out.append(f'Definition gen_cg_step_r (restart_now : bool) {sig} :=\n  if restart_now then {rr}\n  else {rn}.\n')
    out.append(f'Definition gen_cg_step_p (restart_now : bool) {sig} :=\n  if restart_now then {pr}\n  else {pn}.\n')
    # 5. epilogue: warning iff last tval above tolerance; returns x
    rest = body[k:]
    if len(rest) != 2 or not (isinstance(rest[0], ast.If) and ast.unparse(rest[0].test) == 'tval.max() > self.tol'
                              and ast.unparse(rest[0].body[0]).startswith('warnings.warn(')) \
            or ast.unparse(rest[1]) != 'return x.flatten() if rhs.ndim == 1 else x':
        raise Unsupported('T-alg: CG.solve: epilogue changed')
    return '\n'.join(out)



# ----------------------------------------------------------------------------------------- T-dec
DEC_ATOMS = {
    'matrix_is_sparse(A)': 'f_sparse',
    'A.shape[0] == A.shape[1]': 'f_square',
    'matrix_is_diagonal(A)': 'f_diag',
    'np.allclose(A, np.tril(A))': 'f_lower',
    'np.allclose(A, np.triu(A))': 'f_upper',
    'np.iscomplexobj(A)': 'f_complex',
    'matrix_is_hermitian(A)': 'f_herm',
    'matrix_is_symmetric(A)': 'f_sym',
    'np.all(A.diagonal() > 0)': 'f_dpos',
    'np.all(A.diagonal() < 0)': 'f_dneg',
    'SolverSparsePardiso.defined': 'has_pardiso',
    'SolverSparseCholeskyScikit.defined': 'has_scikit',
    'SolverSparseCholeskyCVXOPT.defined': 'has_cvxopt',
}
DEC_PARAMS = {'isdiagonal': 'o_diag', 'islowertriangular': 'o_lower', 'isuppertriangular': 'o_upper',
              'ishermitian': 'o_herm', 'issymmetric': 'o_sym', 'ispositivedefinite': 'o_pd'}
DEC_RESULTS = {'SolverDenseQR': ('KDenseQR', []), 'SolverDiagonal': ('KDiagonal', []),
               'SolverSparsePardiso': ('KPardiso', ['symmetric', 'hermitian', 'positive_definite']),
               'SolverSparseCholeskyScikit': ('KSparseCholScikit', []), 'SolverSparseCholeskyCVXOPT': ('KSparseCholCVXOPT', []),
               'SolverSparseLU': ('KSparseLU', []), 'SolverDenseCholesky': ('KDenseCholesky', []),
               'SolverDenseLDL': ('KDenseLDL', ['hermitian']), 'SolverDenseLU': ('KDenseLU', [])}
DEC_SIG = ('(f_sparse f_square f_diag f_lower f_upper f_complex f_herm f_sym f_dpos f_dneg : bool) '
           '(has_pardiso has_scikit has_cvxopt : bool) (o_diag o_lower o_upper o_herm o_sym o_pd : option bool)')
IGNORED_CALLS = ('warnings.WarningMessage', 'sps.SparseEfficiencyWarning')


class DecEmitter:
    def __init__(self):
        self.lets = []      # (name, term)
        self.rets = []      # (pc, result)
        self.n = 0

    def fail(self, node, why=''):
        raise Unsupported(f'T-dec: unsupported {type(node).__name__} {why}: {ast.unparse(node)[:140]}')

    def fresh(self, base, term):
        self.n += 1
        name = f'{base}_{self.n}'
        self.lets.append((name, term))
        return name

    @staticmethod
    def truthy(v):
        t, ty = v
        return t if ty == 'B' else f'(otrue {t})'

    @staticmethod
    def lift(v):
        t, ty = v
        return t if ty == 'OB' else f'(Some {t})'

    def ev(self, n, env):
        src = ast.unparse(n)
        if src in DEC_ATOMS:
            return DEC_ATOMS[src], 'B'
        if isinstance(n, ast.Name):
            if n.id in env:
                return env[n.id]
            self.fail(n, 'unbound name')
        if isinstance(n, ast.Constant):
            if n.value is None:
                return 'None', 'OB'
            if isinstance(n.value, bool):
                return ('true' if n.value else 'false'), 'B'
            self.fail(n, 'constant')
        if isinstance(n, ast.Compare) and len(n.ops) == 1:
            l, r = n.left, n.comparators[0]
            if isinstance(n.ops[0], (ast.Is, ast.IsNot)) and isinstance(r, ast.Constant) and r.value is None:
                t, ty = self.ev(l, env)
                e = 'false' if ty == 'B' else f'(isnone {t})'
                return (e if isinstance(n.ops[0], ast.Is) else f'(negb {e})'), 'B'
            if isinstance(n.ops[0], (ast.Eq, ast.NotEq)):
                e = f'(obeq {self.lift(self.ev(l, env))} {self.lift(self.ev(r, env))})'
                return (e if isinstance(n.ops[0], ast.Eq) else f'(negb {e})'), 'B'
            self.fail(n, 'comparison')
        if isinstance(n, ast.BoolOp):
            parts = [self.truthy(self.ev(v, env)) for v in n.values]
            return '(' + (' && ' if isinstance(n.op, ast.And) else ' || ').join(parts) + ')', 'B'
        if isinstance(n, ast.UnaryOp) and isinstance(n.op, ast.Not):
            return f'(negb {self.truthy(self.ev(n.operand, env))})', 'B'
        if isinstance(n, ast.IfExp):
            c = self.truthy(self.ev(n.test, env))
            a, b = self.ev(n.body, env), self.ev(n.orelse, env)
            if a[1] == b[1]:
                return f'(if {c} then {a[0]} else {b[0]})', a[1]
            return f'(if {c} then {self.lift(a)} else {self.lift(b)})', 'OB'
        self.fail(n, 'expression')

    def result(self, n, env):
        if not (isinstance(n, ast.Call) and isinstance(n.func, ast.Name) and n.func.id in DEC_RESULTS and not n.args):
            self.fail(n, 'return value')
        k, kws = DEC_RESULTS[n.func.id]
        got = {kw.arg: kw.value for kw in n.keywords}
        if set(got) != set(kws):
            self.fail(n, 'constructor arguments')
        return '(' + ' '.join([k] + [self.lift(self.ev(got[a], env)) for a in kws]) + ')' if kws else k

    def block(self, stmts, env, pc):
        """returns True when every path through stmts returned"""
        for s in stmts:
            if isinstance(s, ast.Expr):
                v = s.value
                if isinstance(v, ast.Constant) and isinstance(v.value, str):
                    continue
                if isinstance(v, ast.Call) and ast.unparse(v.func) in IGNORED_CALLS:
                    continue
                self.fail(s, 'expression statement')
            if isinstance(s, ast.Assign) and len(s.targets) == 1 and isinstance(s.targets[0], ast.Name):
                t, ty = self.ev(s.value, env)
                env[s.targets[0].id] = (self.fresh(s.targets[0].id, t), ty)
                continue
            if isinstance(s, ast.Assert):
                c = self.truthy(self.ev(s.test, env))
                self.rets.append((f'({pc} && negb {c})', 'KAssertionError'))
                pc = self.fresh('pc', f'({pc} && {c})')
                continue
            if isinstance(s, ast.Return):
                self.rets.append((pc, self.result(s.value, env)))
                return True
            if isinstance(s, ast.If):
                c = self.fresh('c', self.truthy(self.ev(s.test, env)))
                e1, e2 = dict(env), dict(env)
                t1 = self.block(s.body, e1, self.fresh('pc', f'({pc} && {c})'))
                t2 = self.block(s.orelse, e2, self.fresh('pc', f'({pc} && negb {c})'))
                if t1 and t2:
                    return True
                if t1:
                    env.clear(); env.update(e2)
                    pc = self.fresh('pc', f'({pc} && negb {c})')
                elif t2:
                    env.clear(); env.update(e1)
                    pc = self.fresh('pc', f'({pc} && {c})')
                else:
                    for k in set(e1) | set(e2):
                        if k in e1 and k in e2:
                            if e1[k] != e2[k]:
                                if e1[k][1] == e2[k][1]:
                                    env[k] = (self.fresh(k, f'(if {c} then {e1[k][0]} else {e2[k][0]})'), e1[k][1])
                                else:
                                    env[k] = (self.fresh(k, f'(if {c} then {self.lift(e1[k])} else {self.lift(e2[k])})'), 'OB')
                        elif k in env:
                            del env[k]
                continue
            self.fail(s, 'statement')
        return False


def gen_auto(repo):
    tree, _ = parse_file(os.path.join(repo, 'pymoto/solvers/auto_determine.py'))
    fn = find_func(tree, 'auto_determine_solver')
    args = [a.arg for a in fn.args.args]
    if args != ['A'] + list(DEC_PARAMS) or [ast.unparse(d) for d in fn.args.defaults] != ['None'] * 6:
        raise Unsupported('T-dec: signature of auto_determine_solver changed')
    em = DecEmitter()
    env = {k: (v, 'OB') for k, v in DEC_PARAMS.items()}
    done = em.block(fn.body, env, 'true')
    if not done:
        raise Unsupported('T-dec: a path through auto_determine_solver does not return')
    out = ['(* GENERATED by tools/gen_C05.py from pymoto/solvers/auto_determine.py -- do not edit *)',
           'From Coq Require Import Bool.', 'From Pymoto Require Import Model.AutoSolver.', '',
           f'Definition gen_auto_solver {DEC_SIG} : solver_kind :=']
    for name, term in em.lets:
        out.append(f'  let {name} := {term} in')
    chain = 'KNoReturn'
    for pc, r in reversed(em.rets):
        chain = f'if {pc} then {r}\n  else {chain}'
    out.append('  ' + chain + '.')
    # the matrix predicates used by the decision procedure
    mtree, _ = parse_file(os.path.join(repo, 'pymoto/solvers/matrix_checks.py'))
    return '\n'.join(out) + '\n'


# ----------------------------------------------------------------------------------------- T-dec: matrix predicates
# library expressions of pymoto/solvers/matrix_checks.py -> fields of Model/MatrixChecks.v : atoms
CHECK_ATOMS = {
    'sps.issparse(A)': 'at_sparse',
    'isinstance(A, cvxopt.spmatrix) if _has_cvxopt else False': 'at_cvxopt',
    'isinstance(A, sps.dia_matrix)': 'at_isdia',
    'np.iscomplexobj(A)': 'at_cplxobj',
    "A.typecode == 'z'": 'at_cvx_z',
    'np.allclose((A - sps.spdiags(A.diagonal(), 0, *A.shape)).data, 0.0)': 'at_sp_offdiag0',
    'max(abs(A.I - A.J)) == 0': 'at_cvx_offdiag0',
    'np.allclose(A, np.diag(np.diag(A)))': 'at_dn_offdiag0',
    'np.allclose((A - A.T).data, 0)': 'at_sp_sym',
    'np.isclose(max(abs(A - A.T)), 0.0)': 'at_cvx_sym',
    'np.allclose(A, A.T)': 'at_dn_sym',
    'np.allclose((A - A.T.conj()).data, 0)': 'at_sp_herm',
    'np.isclose(max(abs(A - A.ctrans())), 0.0)': 'at_cvx_herm',
    'np.allclose(A, A.T.conj())': 'at_dn_herm',
}
CHECK_FUNCS = ['is_cvxopt_spmatrix', 'matrix_is_sparse', 'matrix_is_complex', 'matrix_is_diagonal',
               'matrix_is_symmetric', 'matrix_is_hermitian']


class PredEmitter:
    """boolean functions of one matrix argument `A`: if/elif/else, return, and/or/not, calls of the sibling predicates,
    tests on the offsets array of a dia_matrix; every other expression must be a known atom (fail-closed)."""

    def __init__(self, known):
        self.known = known       # sibling predicates already emitted

    def fail(self, node, why=''):
        raise Unsupported(f'T-dec(matrix_checks): unsupported {type(node).__name__} {why}: {ast.unparse(node)[:140]}')

    @staticmethod
    def intconst(n):
        if isinstance(n, ast.Constant) and type(n.value) is int:
            return n.value
        if isinstance(n, ast.UnaryOp) and isinstance(n.op, ast.USub) and isinstance(n.operand, ast.Constant) \
                and type(n.operand.value) is int:
            return -n.operand.value
        return None

    def ev(self, n):
        src = ast.unparse(n)
        if src in CHECK_ATOMS:
            return f'({CHECK_ATOMS[src]} a)'
        if isinstance(n, ast.Constant) and isinstance(n.value, bool):
            return 'true' if n.value else 'false'
        if isinstance(n, ast.BoolOp):
            op = ' && ' if isinstance(n.op, ast.And) else ' || '    # short-circuit = strict on total booleans
            return '(' + op.join(self.ev(v) for v in n.values) + ')'
        if isinstance(n, ast.UnaryOp) and isinstance(n.op, ast.Not):
            return f'(negb {self.ev(n.operand)})'
        if isinstance(n, ast.Call) and isinstance(n.func, ast.Name) and n.func.id in CHECK_FUNCS:
            if n.func.id not in self.known or [ast.unparse(a) for a in n.args] != ['A'] or n.keywords:
                self.fail(n, 'sibling call')
            return f'(gen_{n.func.id} a)'
        if isinstance(n, ast.Compare) and len(n.ops) == 1 and isinstance(n.ops[0], (ast.Eq, ast.NotEq)):
            l, r = n.left, n.comparators[0]
            k = self.intconst(r)
            e = None
            if k is not None and ast.unparse(l) == 'len(A.offsets)':
                e = f'(offs_len_is (at_offsets a) ({k})%Z)'
            elif k is not None and isinstance(l, ast.Subscript) and ast.unparse(l.value) == 'A.offsets':
                i = self.intconst(l.slice)
                if i is None or i < 0:
                    self.fail(n, 'offsets index')
                e = f'(offs_nth_is (at_offsets a) {i} ({k})%Z)'
            if e is not None:
                return e if isinstance(n.ops[0], ast.Eq) else f'(negb {e})'
        self.fail(n, 'expression')

    def block(self, stmts):
        stmts = [s for s in stmts if not (isinstance(s, ast.Expr) and isinstance(s.value, ast.Constant)
                                          and isinstance(s.value.value, str))]
        if not stmts:
            raise Unsupported('T-dec(matrix_checks): a path does not return')
        s, rest = stmts[0], stmts[1:]
        if isinstance(s, ast.Return):
            if s.value is None:
                self.fail(s, 'empty return')
            return self.ev(s.value)
        if isinstance(s, ast.If):
            return f'(if {self.ev(s.test)} then {self.block(s.body + rest)} else {self.block(s.orelse + rest)})'
        self.fail(s, 'statement')


def gen_checks(repo):
    tree, _ = parse_file(os.path.join(repo, 'pymoto/solvers/matrix_checks.py'))
    out = ['(* GENERATED by tools/gen_C05.py from pymoto/solvers/matrix_checks.py -- do not edit *)',
           'From Coq Require Import ZArith List Bool.', 'From Pymoto Require Import Model.MatrixChecks.', '']
    known = []
    for name in CHECK_FUNCS:
        fn = find_func(tree, name)
        if [a.arg for a in fn.args.args] != ['A'] or fn.args.defaults or fn.args.kwonlyargs or fn.args.vararg or fn.args.kwarg:
            raise Unsupported(f'T-dec(matrix_checks): signature of {name} changed')
        term = PredEmitter(list(known)).block(fn.body)
        out.append(f'Definition gen_{name} (a : atoms) : bool :=\n  {term}.\n')
        known.append(name)
    # the names the decision procedure and the solvers use must be these functions (no shadowing definitions)
    defs = [s.name for s in tree.body if isinstance(s, ast.FunctionDef)]
    if sorted(defs) != sorted(CHECK_FUNCS):
        raise Unsupported('T-dec(matrix_checks): set of functions in matrix_checks.py changed: ' + repr(defs))
    return '\n'.join(out)


if __name__ == '__main__':
    import sys
    repo = sys.argv[1] if len(sys.argv) > 1 else '/repo'
    print(gen_dense(repo))
    print(gen_cg(repo))
    print(gen_auto(repo))
    print(gen_checks(repo))
    print(gen_cg_exit(repo))
