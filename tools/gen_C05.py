"""Property-specific fail-closed translators for C05 (and reused by C07).

T-alg : the solve() methods of pymoto/solvers/dense.py, SolverSparseLU.solve and the body of the CG loop of
        iterative.py  ->  terms over a mathcomp ringType with transpose `tr` and conjugation `cj`
        (coq/theories/Base/StarRing.v).  Conditions on `trans`, `self.hermitian`, `self.success` are resolved by
        partial evaluation (one term per value); `rhs.ndim == 1` branches must translate to the same term
        (shape glue).  Local variables are substituted (SSA), so renaming a local or splitting an expression
        does not change the generated term.  Anything outside the dialect raises Unsupported.
T-dec : the decision procedure auto_determine_solver -> a Coq function over booleans / option bool.
"""
import ast, os
from py2coq import Unsupported, parse_file, find_class, find_func

TRANS = {'N': 'tN', 'T': 'tT', 'H': 'tH'}
TRI_TRANS = {0: 'tN', 'N': 'tN', 1: 'tT', 'T': 'tT', 2: 'tH', 'C': 'tH'}


def norm(src):
    return ast.unparse(ast.parse(src))


def all_stmts(node):
    for n in ast.walk(node):
        if isinstance(n, ast.stmt):
            yield n


def require_stmt(fn, src, what):
    want = norm(src)
    for s in all_stmts(fn):
        if not isinstance(s, (ast.FunctionDef, ast.If, ast.Try, ast.For, ast.While, ast.With)) and ast.unparse(s) == want:
            return
    raise Unsupported(f'T-alg: {what}: expected statement `{src}` not found in {fn.name}()')


ZERO = '<zeros>'
RAISE = '<raise>'


class AlgEmitter:
    """static: values for partial evaluation, keys 'trans', 'self.hermitian', 'self.success'.
    selfmap: self.<attr> -> Coq term; index_attrs: attributes that are index vectors (only usable in subscripts);
    lambdas: self.<attr> -> (param name, ast body, env) for inlined lambdas; calls: unparsed func -> python callback."""

    def __init__(self, static, selfmap, index_attrs=(), lambdas=None, env=None, calls=None):
        self.static = dict(static)
        self.selfmap = dict(selfmap)
        self.index_attrs = dict(index_attrs)   # attr -> selection matrix name
        self.lambdas = dict(lambdas or {})
        self.env = dict(env or {})
        self.calls = dict(calls or {})

    def fail(self, node, why=''):
        raise Unsupported(f'T-alg: unsupported {type(node).__name__} {why}: {ast.unparse(node)[:140]}')

    # ---- static conditions: returns True / False / 'ndim'
    def cond(self, n):
        if isinstance(n, ast.BoolOp):
            vals = [self.cond(v) for v in n.values]
            if any(v == 'ndim' for v in vals):
                self.fail(n, 'mixed condition')
            return any(vals) if isinstance(n.op, ast.Or) else all(vals)
        if isinstance(n, ast.UnaryOp) and isinstance(n.op, ast.Not):
            v = self.cond(n.operand)
            if v == 'ndim':
                self.fail(n)
            return not v
        if isinstance(n, ast.Compare) and len(n.ops) == 1 and isinstance(n.ops[0], (ast.Eq, ast.NotEq)):
            l, r = n.left, n.comparators[0]
            if isinstance(l, ast.Name) and l.id == 'trans' and isinstance(r, ast.Constant) and isinstance(r.value, str):
                if 'trans' not in self.static:
                    self.fail(n, 'trans not static')
                v = self.static['trans'] == r.value
                return v if isinstance(n.ops[0], ast.Eq) else not v
            if ast.unparse(l) == 'rhs.ndim' and isinstance(r, ast.Constant) and r.value == 1 and isinstance(n.ops[0], ast.Eq):
                return 'ndim'
        if isinstance(n, ast.Attribute) and ast.unparse(n) in self.static and ast.unparse(n) != 'trans':
            return bool(self.static[ast.unparse(n)])
        self.fail(n, 'condition')

    def trans_arg(self, n):
        """value of a trans= keyword: tri-solve constant, IfExp on a static condition, or the name `trans`"""
        if isinstance(n, ast.Constant) and n.value in TRI_TRANS:
            return TRI_TRANS[n.value]
        if isinstance(n, ast.IfExp):
            c = self.cond(n.test)
            if c == 'ndim':
                self.fail(n)
            return self.trans_arg(n.body if c else n.orelse)
        self.fail(n, 'trans argument')

    def flag(self, n):
        if isinstance(n, ast.Constant) and isinstance(n.value, bool):
            return 'true' if n.value else 'false'
        self.fail(n, 'boolean flag')

    # ---- expressions
    def tr(self, n):
        if isinstance(n, ast.Name):
            if n.id in self.env:
                v = self.env[n.id]
                if v == ZERO:
                    self.fail(n, 'use of zero-initialised array before assignment')
                return v
            self.fail(n, 'unbound name')
        if isinstance(n, ast.Attribute):
            if isinstance(n.value, ast.Name) and n.value.id == 'self':
                if n.attr in self.selfmap:
                    return self.selfmap[n.attr]
                self.fail(n, 'attribute')
            if n.attr == 'T':
                return f'(tr {self.tr(n.value)})'
            self.fail(n, 'attribute')
        if isinstance(n, ast.BinOp):
            if isinstance(n.op, ast.MatMult):
                return f'({self.tr(n.left)} * {self.tr(n.right)})'
            if isinstance(n.op, ast.Add):
                return f'({self.tr(n.left)} + {self.tr(n.right)})'
            if isinstance(n.op, ast.Sub):
                return f'({self.tr(n.left)} - {self.tr(n.right)})'
            if isinstance(n.op, ast.Div):
                # rhs / d : row scaling by a diagonal
                return f'(ddiv {self.tr(n.right)} {self.tr(n.left)})'
            self.fail(n, 'operator')
        if isinstance(n, ast.UnaryOp) and isinstance(n.op, ast.USub):
            return f'(- {self.tr(n.operand)})'
        if isinstance(n, ast.IfExp):
            c = self.cond(n.test)
            if c == 'ndim':
                a, b = self.tr(n.body), self.tr(n.orelse)
                if a != b:
                    self.fail(n, 'rhs.ndim branches differ')
                return a
            return self.tr(n.body if c else n.orelse)
        if isinstance(n, ast.Subscript):
            s = ast.unparse(n.slice)
            if s == '(..., None)':          # d[..., None] : broadcasting glue
                return self.tr(n.value)
            for attr, pm in self.index_attrs.items():
                if s in (f'self.{attr}', f'(self.{attr}, slice(None, None, None))') or \
                        ast.unparse(n).endswith(f'[self.{attr}, :]') or ast.unparse(n).endswith(f'[self.{attr}]'):
                    return f'({pm} * {self.tr(n.value)})'
            self.fail(n, 'subscript')
        if isinstance(n, ast.Call):
            f = n.func
            fs = ast.unparse(f)
            kw = {k.arg: k.value for k in n.keywords}
            if isinstance(f, ast.Attribute) and f.attr == 'conj' and not n.args and not kw:
                return f'(cj {self.tr(f.value)})'
            if fs == 'spla.solve_triangular':
                if len(n.args) != 2 or set(kw) - {'trans', 'lower', 'unit_diagonal'}:
                    self.fail(n, 'solve_triangular arguments')
                t = self.trans_arg(kw['trans']) if 'trans' in kw else 'tN'
                lo = self.flag(kw['lower']) if 'lower' in kw else 'false'
                un = self.flag(kw['unit_diagonal']) if 'unit_diagonal' in kw else 'false'
                return f'(tsolve {lo} {un} {self.tr(n.args[0])} {t} {self.tr(n.args[1])})'
            if isinstance(f, ast.Attribute) and isinstance(f.value, ast.Name) and f.value.id == 'self' \
                    and f.attr in self.lambdas and len(n.args) == 1 and not kw:
                param, body, lam_em = self.lambdas[f.attr]
                sub = AlgEmitter(lam_em.static, lam_em.selfmap, lam_em.index_attrs, {}, dict(lam_em.env), lam_em.calls)
                sub.env[param] = self.tr(n.args[0])
                return sub.tr(body)
            if fs in self.calls:
                return self.calls[fs](self, n)
            self.fail(n, 'call')
        self.fail(n)

    # ---- statements; returns the translated return value, RAISE, or None when the block falls through
    def block(self, stmts):
        for s in stmts:
            if isinstance(s, ast.Expr) and isinstance(s.value, ast.Constant) and isinstance(s.value.value, str):
                continue
            if isinstance(s, ast.Assign) and len(s.targets) == 1:
                t = s.targets[0]
                if isinstance(t, ast.Name):
                    if isinstance(s.value, ast.Call) and ast.unparse(s.value.func) == 'np.zeros_like':
                        self.env[t.id] = ZERO
                    else:
                        self.env[t.id] = self.tr(s.value)
                    continue
                if isinstance(t, ast.Subscript) and isinstance(t.value, ast.Name) and self.env.get(t.value.id) == ZERO:
                    for attr, pm in self.index_attrs.items():
                        if ast.unparse(t.slice) == f'self.{attr}':
                            # u = zeros; u[p] = X  with p a permutation:  u = Pm^T X
                            self.env[t.value.id] = f'(tr {pm} * {self.tr(s.value)})'
                            break
                    else:
                        self.fail(s, 'scatter index')
                    continue
                self.fail(s, 'assignment target')
            if isinstance(s, ast.If):
                c = self.cond(s.test)
                if c == 'ndim':
                    e1 = AlgEmitter(self.static, self.selfmap, self.index_attrs, self.lambdas, self.env, self.calls)
                    e2 = AlgEmitter(self.static, self.selfmap, self.index_attrs, self.lambdas, self.env, self.calls)
                    r1, r2 = e1.block(s.body), e2.block(s.orelse)
                    if r1 is None or r1 != r2:
                        self.fail(s, 'rhs.ndim branches differ')
                    return r1
                r = self.block(s.body if c else s.orelse)
                if r is not None:
                    return r
                continue
            if isinstance(s, ast.Return):
                return self.tr(s.value)
            if isinstance(s, ast.Raise):
                return RAISE
            self.fail(s, 'statement')
        return None


PARAMS = ('(M : ringType) (tr cj : M -> M) (tsolve : bool -> bool -> M -> trans -> M -> M) '
          '(ddiv : M -> M -> M) (splu : trans -> M -> M)')

HEADER = '''(* GENERATED by tools/gen_C05.py from {src} -- do not edit *)
From mathcomp Require Import all_ssreflect all_algebra.
From Pymoto Require Import Base.StarRing.
Set Implicit Arguments.
Unset Strict Implicit.
Local Open Scope ring_scope.
'''


def per_trans(fn_for, extra_static=None):
    """match t with tN => .. | tT => .. | tH => .. end"""
    arms = []
    for tv, ct in TRANS.items():
        st = dict(extra_static or {})
        st['trans'] = tv
        r = fn_for(st)
        if r is None or r == RAISE:
            raise Unsupported(f'T-alg: no value returned for trans={tv}')
        arms.append(f'    | {ct} => {r}')
    return '(match t with\n' + '\n'.join(arms) + '\n    end)'


def solve_term(cls, static, selfmap, index_attrs=(), lambdas=None, calls=None):
    fn = find_func(cls, 'solve')
    args = [a.arg for a in fn.args.args]
    if args != ['self', 'rhs', 'x0', 'trans']:
        raise Unsupported(f'T-alg: signature of {cls.name}.solve changed: {args}')
    em = AlgEmitter(static, selfmap, index_attrs, lambdas, {'rhs': 'rhs'}, calls)
    return em.block(fn.body)


def bad_trans_raises(cls):
    """solve(trans=<other>) raises TypeError (not a wrong answer)"""
    fn = find_func(cls, 'solve')
    try:
        em = AlgEmitter({'trans': '?', 'self.hermitian': True, 'self.success': True}, {}, {}, {}, {'rhs': 'rhs'})
        return em.block(fn.body) == RAISE
    except Unsupported:
        return False


def gen_dense(repo):
    out = [HEADER.format(src='pymoto/solvers/dense.py, pymoto/solvers/sparse.py')]
    tree, _ = parse_file(os.path.join(repo, 'pymoto/solvers/dense.py'))

    # ---- SolverDiagonal
    c = find_class(tree, 'SolverDiagonal')
    require_stmt(find_func(c, 'update'), 'self.diag = A.diagonal()', 'SolverDiagonal factor')
    body = per_trans(lambda st: solve_term(c, st, {'diag': 'diag'}))
    out.append(f'Definition gen_sol_Diagonal {PARAMS} (diag : M) (t : trans) (rhs : M) : M :=\n  {body}.\n')

    # ---- SolverDenseQR
    c = find_class(tree, 'SolverDenseQR')
    require_stmt(find_func(c, 'update'), 'self.q, self.r = spla.qr(A)', 'QR factorisation')
    body = per_trans(lambda st: solve_term(c, st, {'q': 'q', 'r': 'r'}))
    out.append(f'Definition gen_sol_QR {PARAMS} (q r : M) (t : trans) (rhs : M) : M :=\n  {body}.\n')

    # ---- SolverDenseLU
    c = find_class(tree, 'SolverDenseLU')
    require_stmt(find_func(c, 'update'), 'self.p, self.l, self.u = spla.lu(A)', 'LU factorisation')
    body = per_trans(lambda st: solve_term(c, st, {'p': 'p', 'l': 'l', 'u': 'u'}))
    out.append(f'Definition gen_sol_LU {PARAMS} (p l u : M) (t : trans) (rhs : M) : M :=\n  {body}.\n')

    # ---- SolverDenseLDL
    c = find_class(tree, 'SolverDenseLDL')
    upd = find_func(c, 'update')
    require_stmt(upd, 'self.l, self.d, self.p = spla.ldl(A, hermitian=self.hermitian)', 'LDL factorisation')
    require_stmt(upd, 'self.hermitian = matrix_is_hermitian(A)', 'LDL hermitian detection')
    require_stmt(upd, 'd1 = np.diag(1 / np.diag(self.d))', 'LDL inverse of diagonal D')
    require_stmt(upd, 'd1 = np.linalg.inv(self.d)', 'LDL inverse of block-diagonal D')
    require_stmt(find_func(c, '__init__'), 'self.hermitian = hermitian', 'LDL hermitian option')
    upd_em = AlgEmitter({}, {'l': 'l'}, {'p': 'Pm'}, {}, {'d1': 'd1'})
    lp = None
    lambdas = {}
    for s in all_stmts(upd):
        if isinstance(s, ast.Assign) and len(s.targets) == 1 and ast.unparse(s.targets[0]) == 'self.lp':
            lp = upd_em.tr(s.value)
        if isinstance(s, ast.Assign) and len(s.targets) == 1 and ast.unparse(s.targets[0]) in ('self.dinv', 'self.dinvH'):
            lam = s.value
            if not (isinstance(lam, ast.Lambda) and len(lam.args.args) == 1):
                raise Unsupported('T-alg: self.dinv/dinvH is not a one-argument lambda')
            lambdas[s.targets[0].attr] = (lam.args.args[0].arg, lam.body, upd_em)
    if lp is None or set(lambdas) != {'dinv', 'dinvH'}:
        raise Unsupported('T-alg: SolverDenseLDL.update: lp / dinv / dinvH not found')

    def ldl(h):
        return per_trans(lambda st: solve_term(c, st, {'lp': lp}, {'p': 'Pm'}, lambdas), {'self.hermitian': h})
    out.append(f'Definition gen_sol_LDL {PARAMS} (h : bool) (l d1 Pm : M) (t : trans) (rhs : M) : M :=\n'
               f'  if h then {ldl(True)}\n  else {ldl(False)}.\n')

    # ---- SolverDenseCholesky
    c = find_class(tree, 'SolverDenseCholesky')
    upd = find_func(c, 'update')
    require_stmt(upd, 'self.U = spla.cholesky(A)', 'Cholesky factorisation')
    require_stmt(upd, 'self.backup_solver.update(A)', 'Cholesky fallback update')
    require_stmt(upd, 'self.success = True', 'Cholesky success flag')
    require_stmt(upd, 'self.success = False', 'Cholesky success flag')
    require_stmt(find_func(c, '__init__'), 'self.backup_solver = SolverDenseLDL()', 'Cholesky backup solver')

    def backup(em, n):
        kw = {k.arg: ast.unparse(k.value) for k in n.keywords}
        if [ast.unparse(a) for a in n.args] != ['rhs'] or kw != {'trans': 'trans'}:
            em.fail(n, 'backup solve arguments')
        return f'(gen_sol_LDL tr cj tsolve ddiv splu hb l d1 Pm {TRANS[em.static["trans"]]} rhs)'

    def chol(ok):
        return per_trans(lambda st: solve_term(c, st, {'U': 'U'}, calls={'self.backup_solver.solve': backup}),
                         {'self.success': ok})
    out.append(f'Definition gen_sol_Cholesky {PARAMS} (success : bool) (U : M) (hb : bool) (l d1 Pm : M) (t : trans) (rhs : M) : M :=\n'
               f'  if success then {chol(True)}\n  else {chol(False)}.\n')

    # ---- SolverSparseLU
    tree2, _ = parse_file(os.path.join(repo, 'pymoto/solvers/sparse.py'))
    c = find_class(tree2, 'SolverSparseLU')
    require_stmt(find_func(c, 'update'), 'self.inv = splu(A)', 'sparse LU factorisation')
    imp = [ast.unparse(s) for s in all_stmts(tree2) if isinstance(s, ast.ImportFrom) and any(a.name == 'splu' for a in s.names)]
    if sorted(imp) != ['from scikits.umfpack import splu', 'from scipy.sparse.linalg import splu']:
        raise Unsupported('T-alg: origin of splu changed: ' + repr(imp))

    def splu_call(em, n):
        kw = {k.arg: ast.unparse(k.value) for k in n.keywords}
        if [ast.unparse(a) for a in n.args] != ['rhs'] or kw != {'trans': 'trans'}:
            em.fail(n, 'splu solve arguments')
        return f'(splu {TRANS[em.static["trans"]]} rhs)'
    fn = find_func(c, 'solve')
    pre = [s for s in fn.body if not (isinstance(s, ast.Expr) and isinstance(s.value, ast.Constant))]
    if len(pre) != 2 or norm("if trans not in ['N', 'T', 'H']:\n    raise TypeError('Only N, T, or H transposition is possible')") != ast.unparse(pre[0]):
        raise Unsupported('T-alg: SolverSparseLU.solve prologue changed')

    def sparse(st):
        em = AlgEmitter(st, {}, {}, {}, {'rhs': 'rhs'}, {'self.inv.solve': splu_call})
        return em.block(pre[1:])
    out.append(f'Definition gen_sol_SparseLU {PARAMS} (t : trans) (rhs : M) : M :=\n  {per_trans(sparse)}.\n')
    return '\n'.join(out)


if __name__ == '__main__':
    import sys
    repo = sys.argv[1] if len(sys.argv) > 1 else '/repo'
    print(gen_dense(repo))
